//! `joinprog` jobs (C13, Rust only: program-level search, no model side): compile a Garble
//! program that uses `join_iter` / `join`, then evaluate the compiled circuit on a list of
//! argument tuples given as literals.
//!
//! `(joinprog id (src "..") (runs (run "lit0" "lit1" ..) ..))` ->
//! `(ok (r "<raw output bits>") ..)` (first 161 bits = panic record, rest = result),
//! `(compile-err ..)`, `(compile-crash)`; a run whose argument does not parse gives `(bad-arg i)`,
//! a run on which evaluation panics gives `(eval-crash)`.
use crate::sexp::*;
use std::panic::{AssertUnwindSafe, catch_unwind};

pub fn job_joinprog(job: &Sexp) -> String {
    let src = job.field("src").args()[0].text();
    let compiled = match catch_unwind(AssertUnwindSafe(|| garble_lang::compile(&src))) {
        Err(_) => return "(compile-crash)".into(),
        Ok(Err(e)) => {
            let msg = e.prettify(&src);
            let first = msg.lines().find(|l| !l.trim().is_empty()).unwrap_or("");
            return format!("(compile-err {})", quote(first.as_bytes()));
        }
        Ok(Ok(p)) => p,
    };
    let mut out = String::from("(ok");
    for run in job.field("runs").args() {
        let mut ins: Vec<Vec<bool>> = vec![];
        let mut bad = None;
        for (i, a) in run.args().iter().enumerate() {
            // `[]` (argument of a zero-length array parameter) has no literal syntax: no bits
            if a.text().trim() == "[]" {
                ins.push(vec![]);
                continue;
            }
            match catch_unwind(AssertUnwindSafe(|| compiled.parse_arg(i, &a.text()).map(|g| g.as_bits()))) {
                Ok(Ok(bits)) => ins.push(bits),
                _ => {
                    bad = Some(i);
                    break;
                }
            }
        }
        if let Some(i) = bad {
            out.push_str(&format!(" (bad-arg {i})"));
            continue;
        }
        match catch_unwind(AssertUnwindSafe(|| compiled.circuit.eval(&ins))) {
            Ok(bits) => out.push_str(&format!(" (r \"{}\")", bits_to_string(&bits))),
            Err(_) => out.push_str(" (eval-crash)"),
        }
    }
    out.push(')');
    out
}
