//! Jobs on circuit values: ssa / reg validate+eval, regalloc, bristol.
use crate::sexp::*;
use garble_lang::circuit::{Circuit, CircuitError, Gate};
use garble_lang::register_circuit as rc;
use std::panic::{AssertUnwindSafe, catch_unwind};

pub fn parse_gate(s: &Sexp) -> Gate {
    let a = s.args();
    match s.head() {
        "x" => Gate::Xor(a[0].usize(), a[1].usize()),
        "a" => Gate::And(a[0].usize(), a[1].usize()),
        "n" => Gate::Not(a[0].usize()),
        h => panic!("harness: bad gate {h}"),
    }
}

pub fn parse_ssa(job: &Sexp) -> Circuit {
    Circuit {
        input_gates: job.field("ig").usizes(),
        gates: job.field("gates").args().iter().map(parse_gate).collect(),
        output_gates: job.field("outs").usizes(),
    }
}

pub fn fmt_gate(g: &Gate) -> String {
    match g {
        Gate::Xor(x, y) => format!("(x {x} {y})"),
        Gate::And(x, y) => format!("(a {x} {y})"),
        Gate::Not(x) => format!("(n {x})"),
    }
}

fn join<T, F: Fn(&T) -> String>(v: &[T], f: F) -> String {
    v.iter().map(f).collect::<Vec<_>>().join(" ")
}

pub fn fmt_ssa(c: &Circuit) -> String {
    format!(
        "(ssa (ig {}) (gates {}) (outs {}))",
        join(&c.input_gates, |n| n.to_string()),
        join(&c.gates, fmt_gate),
        join(&c.output_gates, |n| n.to_string())
    )
}

pub fn parse_ins(job: &Sexp) -> Vec<Vec<bool>> {
    job.field("ins").args().iter().map(|s| string_to_bits(s.bytes())).collect()
}

fn fmt_cerr(e: &CircuitError) -> String {
    match e {
        CircuitError::InvalidGate(i) => format!("(err InvalidGate {i})"),
        CircuitError::InvalidOutput(o) => format!("(err InvalidOutput {o})"),
        CircuitError::EmptyInputs => "(err EmptyInputs)".into(),
        CircuitError::EmptyOutputs => "(err EmptyOutputs)".into(),
        CircuitError::MaxCircuitSizeExceeded => "(err MaxCircuitSizeExceeded)".into(),
        CircuitError::PartyIndexOutOfBounds => "(err PartyIndexOutOfBounds)".into(),
    }
}

pub fn fmt_eval(r: std::thread::Result<Vec<bool>>) -> String {
    match r {
        Ok(bits) => format!("\"{}\"", bits_to_string(&bits)),
        Err(_) => "crash".into(),
    }
}

pub fn job_ssa(job: &Sexp) -> String {
    let c = parse_ssa(job);
    let ins = parse_ins(job);
    let v = match catch_unwind(AssertUnwindSafe(|| c.validate())) {
        Ok(Ok(())) => "ok".to_string(),
        Ok(Err(e)) => fmt_cerr(&e),
        Err(_) => "crash".into(),
    };
    let e = fmt_eval(catch_unwind(AssertUnwindSafe(|| c.eval(&ins))));
    format!("(validate {v}) (eval {e})")
}

pub fn parse_op(s: &Sexp) -> rc::Op {
    let a = s.args();
    let r = |i: usize| rc::Reg(a[i].u64() as u32);
    match s.head() {
        "x" => rc::Op::Xor(rc::Xor(r(0), r(1))),
        "a" => rc::Op::And(rc::And(r(0), r(1))),
        "n" => rc::Op::Not(rc::Not(r(0))),
        "i" => rc::Op::Input(rc::Input { party: a[0].u64() as u32, input: a[1].u64() as u32 }),
        h => panic!("harness: bad op {h}"),
    }
}

pub fn parse_reg(job: &Sexp) -> rc::Circuit {
    rc::Circuit {
        input_regs: job.field("ir").usizes(),
        insts: job
            .field("insts")
            .args()
            .iter()
            .map(|s| {
                let l = s.list();
                rc::Inst { out: rc::Reg(l[0].u64() as u32), op: parse_op(&l[1]) }
            })
            .collect(),
        max_reg_count: job.field("max").args()[0].usize(),
        output_regs: job.field("outs").args().iter().map(|s| rc::Reg(s.u64() as u32)).collect(),
        and_ops: job.field("ands").args()[0].usize(),
    }
}

pub fn fmt_op(op: &rc::Op) -> String {
    match op {
        rc::Op::Xor(rc::Xor(a, b)) => format!("(x {} {})", a.0, b.0),
        rc::Op::And(rc::And(a, b)) => format!("(a {} {})", a.0, b.0),
        rc::Op::Not(rc::Not(a)) => format!("(n {})", a.0),
        rc::Op::Input(rc::Input { party, input }) => format!("(i {party} {input})"),
    }
}

pub fn fmt_inst(i: &rc::Inst) -> String {
    format!("({} {})", i.out.0, fmt_op(&i.op))
}

pub fn fmt_reg(c: &rc::Circuit) -> String {
    format!(
        "(reg (ir {}) (insts {}) (max {}) (outs {}) (ands {}))",
        join(&c.input_regs, |n| n.to_string()),
        join(&c.insts, fmt_inst),
        c.max_reg_count,
        join(&c.output_regs, |r| r.0.to_string()),
        c.and_ops
    )
}

fn fmt_rerr(e: &rc::CircuitError) -> String {
    use rc::CircuitError::*;
    match e {
        EmptyInputs => "(err EmptyInputs)".into(),
        InvalidInst(i) => format!("(err InvalidInst {i})"),
        EmptyOutputs => "(err EmptyOutputs)".into(),
        InvalidOutput(r) => format!("(err InvalidOutput {})", r.0),
        MaxCircuitSizeExceeded => "(err MaxCircuitSizeExceeded)".into(),
        InvalidRegAccess(i, r) => format!("(err InvalidRegAccess {i} {})", r.0),
        InvalidInput(i, inst) => format!("(err InvalidInput {i} {})", fmt_inst(inst)),
    }
}

pub fn job_reg(job: &Sexp) -> String {
    let c = parse_reg(job);
    let ins = parse_ins(job);
    let v = match catch_unwind(AssertUnwindSafe(|| c.validate())) {
        Ok(Ok(())) => "ok".to_string(),
        Ok(Err(e)) => fmt_rerr(&e),
        Err(_) => "crash".into(),
    };
    let e = fmt_eval(catch_unwind(AssertUnwindSafe(|| c.eval(&ins))));
    format!("(validate {v}) (eval {e})")
}

/// SSA circuit -> register circuit (+ both validations and evaluations on the given inputs)
pub fn job_regalloc(job: &Sexp) -> String {
    let c = parse_ssa(job);
    let r = catch_unwind(AssertUnwindSafe(|| rc::Circuit::from(&c)));
    match r {
        Err(_) => "(convert crash)".into(),
        Ok(r) => {
            let v = match catch_unwind(AssertUnwindSafe(|| r.validate())) {
                Ok(Ok(())) => "ok".to_string(),
                Ok(Err(e)) => fmt_rerr(&e),
                Err(_) => "crash".into(),
            };
            let mut evals = vec![];
            for ins in job.field("inss").args() {
                let ins: Vec<Vec<bool>> =
                    ins.list().iter().map(|s| string_to_bits(s.bytes())).collect();
                let e1 = fmt_eval(catch_unwind(AssertUnwindSafe(|| c.eval(&ins))));
                let e2 = fmt_eval(catch_unwind(AssertUnwindSafe(|| r.eval(&ins))));
                evals.push(format!("({e1} {e2})"));
            }
            format!("(convert {}) (validate {v}) (evals {})", fmt_reg(&r), evals.join(" "))
        }
    }
}

/// source text -> SSA circuit of `main` (used to feed compiler output into circuit-level jobs)
pub fn job_compile(job: &Sexp) -> String {
    let src = job.field("src").args()[0].text();
    match catch_unwind(AssertUnwindSafe(|| garble_lang::compile(&src))) {
        Err(_) => "crash".into(),
        Ok(Err(_)) => "err".into(),
        Ok(Ok(p)) => match &p.circuit {
            garble_lang::circuit_type::CircuitType::Ssa(c) => fmt_ssa(c),
            _ => "not-ssa".into(),
        },
    }
}

/// source text -> n compilations in this process (fresh HashMaps, hence fresh hash seeds);
/// prints one fingerprint per compilation and per configuration (C06)
pub fn job_compile_hash(job: &Sexp) -> String {
    use std::hash::{Hash, Hasher};
    let src = job.field("src").args()[0].text();
    let n = job.try_field("n").map(|f| f.args()[0].usize()).unwrap_or(6);
    let mut out = vec![];
    for dedup in [true, false] {
        let mut hs = vec![];
        for _ in 0..n {
            let r = catch_unwind(AssertUnwindSafe(|| {
                let opts = garble_lang::CompileOptions {
                    circuit_kind: garble_lang::CircuitKind::Ssa,
                    consts: Default::default(),
                    optimize_duplicate_gates: dedup,
                };
                garble_lang::compile_with_options(&src, opts)
            }));
            hs.push(match r {
                Err(_) => "crash".to_string(),
                Ok(Err(_)) => "err".to_string(),
                Ok(Ok(p)) => match &p.circuit {
                    garble_lang::circuit_type::CircuitType::Ssa(c) => {
                        #[allow(deprecated)]
                        let mut h = std::hash::SipHasher::new();
                        c.input_gates.hash(&mut h);
                        c.output_gates.hash(&mut h);
                        for g in c.gates.iter() {
                            match g {
                                Gate::Xor(a, b) => (0u8, *a, *b).hash(&mut h),
                                Gate::And(a, b) => (1u8, *a, *b).hash(&mut h),
                                Gate::Not(a) => (2u8, *a, 0usize).hash(&mut h),
                            }
                        }
                        // the typed program must be identical too
                        format!("{:016x}-{}", h.finish(), c.gates.len())
                    }
                    _ => "not-ssa".to_string(),
                },
            });
        }
        out.push(format!("({} {})", if dedup { "dedup" } else { "nodedup" }, hs.join(" ")));
    }
    out.join(" ")
}
