//! `builder` jobs: a sequence of requests against the real CircuitBuilder (through the hook).
use crate::circ::fmt_ssa;
use crate::sexp::*;
use garble_lang::verif_hooks::Builder;

pub struct Handles(pub Vec<usize>);

impl Handles {
    pub fn wire(&self, s: &Sexp) -> usize {
        let a = s.atom();
        if let Some(k) = a.strip_prefix('h') {
            self.0[k.parse::<usize>().unwrap()]
        } else {
            a.parse().unwrap()
        }
    }
    pub fn wires(&self, s: &Sexp) -> Vec<usize> {
        s.list().iter().map(|x| self.wire(x)).collect()
    }
}

pub fn run_request(b: &mut Builder, h: &mut Handles, r: &Sexp) {
    let a = r.args();
    match r.head() {
        "xor" => { let w = b.push_xor(h.wire(&a[0]), h.wire(&a[1])); h.0.push(w) }
        "and" => { let w = b.push_and(h.wire(&a[0]), h.wire(&a[1])); h.0.push(w) }
        "not" => { let w = b.push_not(h.wire(&a[0])); h.0.push(w) }
        "or" => { let w = b.push_or(h.wire(&a[0]), h.wire(&a[1])); h.0.push(w) }
        "eq" => { let w = b.push_eq(h.wire(&a[0]), h.wire(&a[1])); h.0.push(w) }
        "mux" => { let w = b.push_mux(h.wire(&a[0]), h.wire(&a[1]), h.wire(&a[2])); h.0.push(w) }
        "adder" => {
            let (s, c) = b.push_adder(h.wire(&a[0]), h.wire(&a[1]), h.wire(&a[2]));
            h.0.push(s);
            h.0.push(c)
        }
        // ---- arithmetic gadgets on wire lists (C03); operands MSB first
        "eqc" => { let w = b.push_eq_circuit(&h.wires(&a[0]), &h.wires(&a[1])); h.0.push(w) }
        "addc" => {
            let (sum, c, cp) = b.push_addition_circuit(&h.wires(&a[0]), &h.wires(&a[1]));
            h.0.extend(sum);
            h.0.push(c);
            h.0.push(cp)
        }
        "negc" => { let r = b.push_negation_circuit(&h.wires(&a[0])); h.0.extend(r) }
        "subc" => {
            let (r, ov) = b.push_subtraction_circuit(&h.wires(&a[0]), &h.wires(&a[1]), a[2].atom() == "1");
            h.0.extend(r);
            h.0.push(ov)
        }
        "udiv" => {
            let (q, r) = b.push_unsigned_division_circuit(&h.wires(&a[0]), &h.wires(&a[1]));
            h.0.extend(q);
            h.0.extend(r)
        }
        "sdiv" => {
            let (mut x, mut y) = (h.wires(&a[0]), h.wires(&a[1]));
            let (q, r) = b.push_signed_division_circuit(&mut x, &mut y);
            h.0.extend(q);
            h.0.extend(r)
        }
        "gt" => { let w = b.push_gt_circuit(a[0].usize(), &h.wires(&a[1]), &h.wires(&a[2])); h.0.push(w) }
        "cmp" => {
            let (lt, gt) = b.push_comparator_circuit(
                a[0].usize(), &h.wires(&a[1]), a[2].atom() == "1", &h.wires(&a[3]), a[4].atom() == "1");
            h.0.push(lt);
            h.0.push(gt)
        }
        "mult" => {
            let (s, c) = b.push_multiplier(h.wire(&a[0]), h.wire(&a[1]), h.wire(&a[2]), h.wire(&a[3]));
            h.0.push(s);
            h.0.push(c)
        }
        "condswap" => {
            let (x, y) = b.push_condswap(h.wire(&a[0]), h.wire(&a[1]), h.wire(&a[2]));
            h.0.push(x);
            h.0.push(y)
        }
        // compile.rs extend_to_bits (no gates; sign / zero extension of a wire vector)
        "ext" => {
            let mut v = h.wires(&a[0]);
            garble_lang::verif_hooks::extend_to_bits(&mut v, a[1].atom() == "1", a[2].usize());
            h.0.extend(v)
        }
        k => panic!("harness: unknown request {k}"),
    }
}

pub fn job_builder(job: &Sexp) -> String {
    let dedup = job.field("dedup").args()[0].atom() == "1";
    let inputs = job.field("inputs").usizes();
    let mut b = Builder::new(inputs, dedup);
    let mut h = Handles(vec![]);
    for r in job.field("reqs").args() {
        run_request(&mut b, &mut h, r);
    }
    let outs: Vec<usize> = job.field("outs").args().iter().map(|s| h.wire(s)).collect();
    let wires = h.0.iter().map(|w| w.to_string()).collect::<Vec<_>>().join(" ");
    let c = b.build(outs);
    let mut extra = String::new();
    if job.try_field("truth").is_some() {
        // truth table of every output over all input assignments (assignment k = bits of k,
        // most significant first, distributed over the parties in order)
        let n: usize = c.input_gates.iter().sum();
        let mut cols: Vec<String> = vec![String::new(); c.output_gates.len()];
        let mut crashed = false;
        for k in 0..(1usize << n) {
            let mut ins = vec![];
            let mut pos = 0;
            for sz in c.input_gates.iter() {
                ins.push((0..*sz).map(|i| (k >> (n - 1 - (pos + i))) & 1 == 1).collect::<Vec<bool>>());
                pos += sz;
            }
            match std::panic::catch_unwind(std::panic::AssertUnwindSafe(|| c.eval(&ins))) {
                Ok(out) => {
                    for (j, bit) in out.iter().enumerate() {
                        cols[j].push(if *bit { '1' } else { '0' });
                    }
                }
                Err(_) => crashed = true,
            }
        }
        extra = if crashed {
            " (truth crash)".to_string()
        } else {
            format!(" (truth {})", cols.iter().map(|c| format!("\"{c}\"")).collect::<Vec<_>>().join(" "))
        };
    }
    format!("(wires {wires}) (circuit {}){extra}", fmt_ssa(&c))
}
