//! `panicrec` jobs: a script of panic-record operations (push_panic_if / peek_panic /
//! replace_panic_with / mux_panic) against the real CircuitBuilder through the hook, mixed with
//! ordinary gate requests that build the condition wires.  `panicparse` jobs: EvalPanic::parse
//! on raw bits.
//!
//! (panicrec ID (dedup 0|1) (inputs n..) (script OP..) [(truth 1)])
//!   OP ::= (xor a b) | (and a b) | (or a b) | (not a) | (eq a b) | (mux s a b)   -> handle hK
//!        | (push cond reason sl sc el ec)     push_panic_if (reason 1..3)
//!        | (save k)                           slot k := peek_panic().clone()
//!        | (replace k)                        replace_panic_with(slot k .clone()), old state dropped
//!        | (swap k j)                         slot j := replace_panic_with(slot k .clone())
//!        | (muxp cond kT kF)                  replace_panic_with(mux_panic(cond, slot kT, slot kF))
//! result: (wires h..) (rec w*161) (cache k..) (circuit (ssa ..))
//!         + Rust only: (distinct K) when the job has (repeat N): the script is run N times on
//!           fresh builders (every HashMap/HashSet draws a fresh RandomState) and K is the number
//!           of different results; (truth "col".."col") (parse p..) with one p per input assignment.
use crate::builder::{run_request, Handles};
use crate::circ::fmt_ssa;
use crate::sexp::*;
use garble_lang::circuit::PanicReason;
use garble_lang::token::MetaInfo;
use garble_lang::verif_hooks::{parse_panic, Builder, PanicState};
use std::collections::BTreeMap;

fn reason_of(n: usize) -> PanicReason {
    match n {
        1 => PanicReason::Overflow,
        2 => PanicReason::DivByZero,
        3 => PanicReason::OutOfBounds,
        k => panic!("harness: bad reason {k}"),
    }
}

fn reason_num(r: &PanicReason) -> usize {
    match r {
        PanicReason::Overflow => 1,
        PanicReason::DivByZero => 2,
        PanicReason::OutOfBounds => 3,
    }
}

fn join_usize(v: &[usize]) -> String {
    v.iter().map(|w| w.to_string()).collect::<Vec<_>>().join(" ")
}

fn fmt_parse(bits: &[bool]) -> String {
    match std::panic::catch_unwind(|| parse_panic(bits)) {
        Ok(Ok(n)) => format!("(ok {n})"),
        Ok(Err(p)) => format!(
            "(panic {} {} {} {} {})",
            reason_num(&p.reason),
            p.panicked_at.start.0,
            p.panicked_at.start.1,
            p.panicked_at.end.0,
            p.panicked_at.end.1
        ),
        Err(_) => "crash".to_string(),
    }
}

pub fn job_panicparse(job: &Sexp) -> String {
    let bits = string_to_bits(job.field("bits").args()[0].bytes());
    fmt_parse(&bits)
}

pub fn job_panicrec(job: &Sexp) -> String {
    let (first, c) = run_script(job);
    let mut distinct = String::new();
    if let Some(rep) = job.try_field("repeat") {
        let mut seen = std::collections::BTreeSet::new();
        seen.insert(first.clone());
        for _ in 1..rep.args()[0].usize() {
            seen.insert(run_script(job).0);
        }
        distinct = format!(" (distinct {})", seen.len());
    }
    format!("{first}{distinct}{}", truth_and_parse(job, &c))
}

fn run_script(job: &Sexp) -> (String, garble_lang::circuit::Circuit) {
    let dedup = job.field("dedup").args()[0].atom() == "1";
    let inputs = job.field("inputs").usizes();
    let mut b = Builder::new(inputs, dedup);
    let mut h = Handles(vec![]);
    let mut slots: BTreeMap<usize, PanicState> = BTreeMap::new();
    for op in job.field("script").args() {
        let a = op.args();
        match op.head() {
            "push" => {
                let cond = h.wire(&a[0]);
                let reason = reason_of(a[1].usize());
                let meta = MetaInfo {
                    start: (a[2].usize(), a[3].usize()),
                    end: (a[4].usize(), a[5].usize()),
                };
                b.push_panic_if(cond, reason, meta);
            }
            "save" => {
                slots.insert(a[0].usize(), b.peek_panic());
            }
            "replace" => {
                let p = slots.get(&a[0].usize()).expect("harness: empty slot").clone();
                b.replace_panic_with(p);
            }
            "swap" => {
                let p = slots.get(&a[0].usize()).expect("harness: empty slot").clone();
                let old = b.replace_panic_with(p);
                slots.insert(a[1].usize(), old);
            }
            "muxp" => {
                let cond = h.wire(&a[0]);
                let t = slots.get(&a[1].usize()).expect("harness: empty slot").clone();
                let f = slots.get(&a[2].usize()).expect("harness: empty slot").clone();
                let m = b.mux_panic(cond, &t, &f);
                b.replace_panic_with(m);
            }
            _ => run_request(&mut b, &mut h, op),
        }
    }
    let fin = b.peek_panic();
    let rec = join_usize(&fin.wires());
    let cache = join_usize(&fin.cache_keys());
    let wires = join_usize(&h.0);
    let outs = h.0.clone();
    let c = b.build(outs);
    (format!("(wires {wires}) (rec {rec}) (cache {cache}) (circuit {})", fmt_ssa(&c)), c)
}

fn truth_and_parse(job: &Sexp, c: &garble_lang::circuit::Circuit) -> String {
    let mut extra = String::new();
    if job.try_field("truth").is_some() {
        // assignment k gives input i (flat, parties in order) the bit (k >> (n-1-i)) & 1
        let n: usize = c.input_gates.iter().sum();
        let mut cols: Vec<String> = vec![String::new(); c.output_gates.len()];
        let mut parsed: Vec<String> = vec![];
        let mut crashed = false;
        for k in 0..(1usize << n) {
            let mut ins = vec![];
            let mut pos = 0;
            for sz in c.input_gates.iter() {
                ins.push((0..*sz).map(|i| (k >> (n - 1 - (pos + i))) & 1 == 1).collect::<Vec<bool>>());
                pos += sz;
            }
            match std::panic::catch_unwind(std::panic::AssertUnwindSafe(|| c.eval(&ins))) {
                Ok(out) => {
                    for (j, bit) in out.iter().enumerate() {
                        cols[j].push(if *bit { '1' } else { '0' });
                    }
                    parsed.push(fmt_parse(&out));
                }
                Err(_) => crashed = true,
            }
        }
        extra = if crashed {
            " (truth crash)".to_string()
        } else {
            format!(
                " (truth {}) (parse {})",
                cols.iter().map(|c| format!("\"{c}\"")).collect::<Vec<_>>().join(" "),
                parsed.join(" ")
            )
        };
    }
    extra
}

/// `panicprog` jobs (implementation side only): (panicprog ID (src "program") (run "arg".. ) ..)
/// compiles the program and evaluates it once per (run ..) with the arguments given as literal
/// text; result per run: (ok "literal") | (panic reason sl sc el ec) | (err ..) | crash.
pub fn job_panicprog(job: &Sexp) -> String {
    let src = job.field("src").args()[0].text();
    let prg = match std::panic::catch_unwind(std::panic::AssertUnwindSafe(|| garble_lang::compile(&src))) {
        Err(_) => return "compile-crash".into(),
        Ok(Err(_)) => return "compile-err".into(),
        Ok(Ok(p)) => p,
    };
    let mut out = vec![];
    for run in job.list().iter().filter(|s| matches!(s, Sexp::List(l) if matches!(l.first(), Some(Sexp::Atom(a)) if a == "run")))
    {
        let args: Vec<String> = run.args().iter().map(|a| a.text()).collect();
        let r = std::panic::catch_unwind(std::panic::AssertUnwindSafe(|| {
            let mut ev = prg.evaluator();
            for a in &args {
                if ev.parse_literal(a).is_err() {
                    return "(err arg)".to_string();
                }
            }
            match ev.run() {
                Err(_) => "(err run)".to_string(),
                Ok(o) => match o.into_literal() {
                    Ok(l) => format!("(ok {})", quote(l.to_string().as_bytes())),
                    Err(garble_lang::eval::EvalError::Panic(p)) => format!(
                        "(panic {} {} {} {} {})",
                        reason_num(&p.reason),
                        p.panicked_at.start.0,
                        p.panicked_at.start.1,
                        p.panicked_at.end.0,
                        p.panicked_at.end.1
                    ),
                    Err(_) => "(err output)".to_string(),
                },
            }
        }));
        out.push(r.unwrap_or_else(|_| "crash".to_string()));
    }
    out.join(" ")
}
