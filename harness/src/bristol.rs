//! C11 jobs: Bristol export / import on the real code (src/convert.rs through the lib.rs
//! wrappers where one exists).  The real file is written / read under a private temp dir.
use crate::circ::{fmt_eval, fmt_ssa, parse_ssa};
use crate::sexp::*;
use garble_lang::circuit::Circuit;
use garble_lang::convert::{ConverterError, FromBristolError, ToBristolError};
use std::panic::{AssertUnwindSafe, catch_unwind};
use std::path::PathBuf;

fn tmp_path(id: &str) -> PathBuf {
    let dir = std::env::temp_dir().join("gv-c11");
    std::fs::create_dir_all(&dir).expect("harness: temp dir");
    dir.join(format!("{}-{}.txt", std::process::id(), id))
}

/// canonical token: a usize prints in decimal, XOR/AND/INV as themselves, anything else `w`
fn canon_tok(t: &str) -> String {
    match t.parse::<usize>() {
        Ok(n) => n.to_string(),
        Err(_) => match t {
            "XOR" | "AND" | "INV" => t.to_string(),
            _ => "w".to_string(),
        },
    }
}

fn canon_line(l: &str) -> String {
    let toks: Vec<String> = l.split_whitespace().map(canon_tok).collect();
    if toks.is_empty() { "(l)".to_string() } else { format!("(l {})", toks.join(" ")) }
}

fn fmt_file(text: &str) -> String {
    let ls: Vec<String> = text.lines().map(canon_line).collect();
    format!("(lines {})", ls.join(" "))
}

fn fmt_from_err(e: &FromBristolError) -> String {
    match e {
        FromBristolError::IoError(_) => "(err Io)".into(),
        FromBristolError::ParseIntError(_) => "(err ParseInt)".into(),
        FromBristolError::UnknownGate(_) => "(err UnknownGate)".into(),
        FromBristolError::MissingGateType => "(err MissingGateType)".into(),
        FromBristolError::OtherParseError(_) => "(err OtherParse)".into(),
        FromBristolError::InputPartiesMismatch(a, b) => format!("(err InputPartiesMismatch {a} {b})"),
        FromBristolError::OutputCountMismatch(a, b) => format!("(err OutputCountMismatch {a} {b})"),
        FromBristolError::MissingLine => "(err MissingLine)".into(),
        FromBristolError::MalformedLine(s) => format!("(err MalformedLine {})", canon_line(s)),
        FromBristolError::InvalidWireIndex(w) => format!("(err InvalidWireIndex {w})"),
        _ => "(err Other)".into(),
    }
}

/// the importer, through the lib.rs wrapper `compile_bristol_to_circuit`
fn run_import(path: &std::path::Path) -> (String, Option<Circuit>) {
    match catch_unwind(AssertUnwindSafe(|| garble_lang::compile_bristol_to_circuit(path))) {
        Err(_) => ("crash".into(), None),
        Ok(Ok(c)) => (format!("(ok {})", fmt_ssa(&c)), Some(c)),
        Ok(Err(garble_lang::Error::ConvertError(ConverterError::FromBristolError(e)))) => {
            (fmt_from_err(&e), None)
        }
        Ok(Err(_)) => ("(err NotAConvertError)".into(), None),
    }
}

fn all_inputs(ig: &[usize], k: u64) -> Vec<Vec<bool>> {
    let mut bit = 0;
    ig.iter()
        .map(|n| {
            (0..*n)
                .map(|_| {
                    let b = (k >> bit) & 1 == 1;
                    bit += 1;
                    b
                })
                .collect()
        })
        .collect()
}

/// circuit -> tokens of the file format_as_bristol writes -> importer on that file ->
/// both circuits evaluated on the given inputs (and, Rust side only, on all inputs)
pub fn job_bristol_out(job: &Sexp) -> String {
    let c = parse_ssa(job);
    let id = job.list()[1].atom().to_string();
    let path = tmp_path(&id);
    let _ = std::fs::remove_file(&path);
    let ex = catch_unwind(AssertUnwindSafe(|| c.format_as_bristol(&path)));
    let mut imported = None;
    let (ex_s, im_s) = match ex {
        Err(_) => ("crash".to_string(), "none".to_string()),
        Ok(Err(ToBristolError::OutputWireIsInput)) => ("(err OutputWireIsInput)".into(), "none".into()),
        Ok(Err(_)) => ("(err Io)".into(), "none".into()),
        Ok(Ok(())) => {
            let text = std::fs::read_to_string(&path).unwrap_or_default();
            let (s, ci) = run_import(&path);
            imported = ci;
            (fmt_file(&text), s)
        }
    };
    let _ = std::fs::remove_file(&path);
    let mut evals = vec![];
    let mut exh = String::new();
    if let Some(ci) = &imported {
        for ins in job.field("inss").args() {
            let ins: Vec<Vec<bool>> = ins.list().iter().map(|s| string_to_bits(s.bytes())).collect();
            let e1 = fmt_eval(catch_unwind(AssertUnwindSafe(|| c.eval(&ins))));
            let e2 = fmt_eval(catch_unwind(AssertUnwindSafe(|| ci.eval(&ins))));
            evals.push(format!("({e1} {e2})"));
        }
        let nbits: usize = c.input_gates.iter().sum();
        let want = job.try_field("exh").map(|f| f.args()[0].atom() == "1").unwrap_or(false);
        if want && c.output_gates.len() >= 161 {
            // all inputs up to 16 input bits, 64 pseudo-random assignments beyond
            let total: u64 = if nbits <= 16 { 1u64 << nbits } else { 64 };
            let mut state: u64 = 0x9e3779b97f4a7c15 ^ (c.gates.len() as u64) ^ ((nbits as u64) << 32);
            let mut bad = 0u64;
            let mut first = String::new();
            for k in 0..total {
                let ins: Vec<Vec<bool>> = if nbits <= 16 {
                    all_inputs(&c.input_gates, k)
                } else {
                    c.input_gates
                        .iter()
                        .map(|n| {
                            (0..*n)
                                .map(|_| {
                                    state ^= state << 13;
                                    state ^= state >> 7;
                                    state ^= state << 17;
                                    state & 1 == 1
                                })
                                .collect()
                        })
                        .collect()
                };
                let r1 = catch_unwind(AssertUnwindSafe(|| c.eval(&ins)));
                let r2 = catch_unwind(AssertUnwindSafe(|| ci.eval(&ins)));
                let ok = match (&r1, &r2) {
                    (Ok(a), Ok(b)) => a[161..] == b[..],
                    _ => false,
                };
                if !ok {
                    bad += 1;
                    if first.is_empty() {
                        first = ins.iter().map(|v| format!("\"{}\"", bits_to_string(v))).collect::<Vec<_>>().join(" ");
                    }
                }
            }
            exh = format!(" (exh {} {} ({}))", total, bad, first);
        }
    }
    format!("(export {ex_s}) (import {im_s}) (evals {}){exh}", evals.join(" "))
}

/// token lines -> file -> importer
pub fn job_bristol_in(job: &Sexp) -> String {
    let id = job.list()[1].atom().to_string();
    let path = tmp_path(&id);
    let sep = job.try_field("sep").map(|f| f.args()[0].usize()).unwrap_or(0);
    let mut text = Vec::new();
    for l in job.field("lines").args() {
        let toks: Vec<&[u8]> = l.args().iter().map(|t| t.bytes()).collect();
        let (pre, mid, post): (&[u8], &[u8], &[u8]) = match sep {
            1 => (b"", b"\t", b" "),
            2 => (b"  ", b"  ", b""),
            3 => (b"", b" ", b"\r"),
            _ => (b"", b" ", b""),
        };
        if !toks.is_empty() {
            text.extend_from_slice(pre);
        }
        text.extend_from_slice(&toks.join(mid));
        if !toks.is_empty() {
            text.extend_from_slice(post);
        }
        text.push(b'\n');
    }
    std::fs::write(&path, &text).expect("harness: write");
    let (s, _) = run_import(&path);
    let _ = std::fs::remove_file(&path);
    format!("(import {s})")
}

/// source text -> compile -> circuit, and compile_to_bristol -> tokens of the file (Rust only)
pub fn job_bristol_prog(job: &Sexp) -> String {
    let id = job.list()[1].atom().to_string();
    let src = job.field("src").args()[0].text();
    let path = tmp_path(&id);
    let _ = std::fs::remove_file(&path);
    let circ = match catch_unwind(AssertUnwindSafe(|| garble_lang::compile(&src))) {
        Err(_) => return "(compile crash)".into(),
        Ok(Err(_)) => return "(compile err)".into(),
        Ok(Ok(p)) => p.circuit.unwrap_ssa(),
    };
    let ex = catch_unwind(AssertUnwindSafe(|| garble_lang::compile_to_bristol(&src, &path)));
    let ex_s = match ex {
        Err(_) => "crash".to_string(),
        Ok(Err(garble_lang::Error::ConvertError(ConverterError::ToBristolError(
            ToBristolError::OutputWireIsInput,
        )))) => "(err OutputWireIsInput)".into(),
        Ok(Err(_)) => "(err Other)".into(),
        Ok(Ok(())) => fmt_file(&std::fs::read_to_string(&path).unwrap_or_default()),
    };
    let _ = std::fs::remove_file(&path);
    format!("(circuit {}) (export {ex_s})", fmt_ssa(&circ))
}
