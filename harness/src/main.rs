//! gv-run: reads jobs (S-expressions, one per top-level form) from a file, runs each against
//! garble_lang (built from /repo's working tree with the verif_hooks feature) and prints one
//! result line `(<id> <payload>)` per job.  Every library call runs under catch_unwind.
mod bristol;
mod builder;
mod circ;
mod consts;
mod exhaust;
mod front;
mod joinprog;
mod lit;
mod opprog;
mod panicrec;
mod prog;
mod sexp;
mod sortnet;

use sexp::*;

/// location and message of the most recent panic (set by the panic hook)
pub static LAST_PANIC: std::sync::Mutex<String> = std::sync::Mutex::new(String::new());

pub fn last_panic() -> String {
    let s = LAST_PANIC.lock().unwrap().clone();
    // keep only the path below src/ so that results do not depend on where /repo lives
    match s.find("src/") {
        Some(i) => s[i..].to_string(),
        None => s,
    }
}
use std::io::Write;

fn run_job(job: &Sexp) -> String {
    match job.head() {
        "ssa" => circ::job_ssa(job),
        "reg" => circ::job_reg(job),
        "regalloc" => circ::job_regalloc(job),
        "compile" => circ::job_compile(job),
        "compile-hash" => circ::job_compile_hash(job),
        "builder" => builder::job_builder(job),
        "literal" => lit::job_literal(job),
        "litapi" => lit::job_litapi(job),
        "parg" => lit::job_parg(job),
        "exhaust" => exhaust::job_exhaust(job),
        "program" => prog::job_program(job),
        "lower" => prog::job_lower(job),
        "tcheck" => prog::job_tcheck(job),
        "scan" => front::job_scan(job),
        "pretty" => front::job_pretty(job),
        "front" => front::job_front(job),
        "pexpr" => front::job_pexpr(job),
        "pblock" => front::job_pblock(job),
        "pprog" => front::job_pprog(job),
        "consts" => consts::job_consts(job),
        "opprog" => opprog::job_opprog(job),
        "sortnet" => sortnet::job_sortnet(job),
        "joinprog" => joinprog::job_joinprog(job),
        "panicrec" => panicrec::job_panicrec(job),
        "panicparse" => panicrec::job_panicparse(job),
        "panicprog" => panicrec::job_panicprog(job),
        "bristol-out" => bristol::job_bristol_out(job),
        "bristol-in" => bristol::job_bristol_in(job),
        "bristol-prog" => bristol::job_bristol_prog(job),
        k => format!("(unknown-kind {k})"),
    }
}

fn main() {
    std::panic::set_hook(Box::new(|info| {
        let loc = info.location().map(|l| format!("{}:{}", l.file(), l.line())).unwrap_or_default();
        let msg = info
            .payload()
            .downcast_ref::<String>()
            .cloned()
            .or_else(|| info.payload().downcast_ref::<&str>().map(|s| s.to_string()))
            .unwrap_or_default();
        let msg: String = msg.chars().take(80).collect();
        *LAST_PANIC.lock().unwrap() = format!("{loc} {msg}");
    }));
    let args: Vec<String> = std::env::args().collect();
    let data = std::fs::read(&args[1]).expect("job file");
    let out: Box<dyn Write> = if args.len() > 2 {
        Box::new(std::fs::File::create(&args[2]).expect("out file"))
    } else {
        Box::new(std::io::stdout())
    };
    let mut out = std::io::BufWriter::new(out);
    let mut p = Parser::new(&data);
    while let Some(job) = p.next() {
        let id = job.list()[1].atom().to_string();
        let r = std::panic::catch_unwind(std::panic::AssertUnwindSafe(|| run_job(&job)));
        let r = match r {
            Ok(s) => s,
            Err(e) => {
                let msg = e
                    .downcast_ref::<String>()
                    .cloned()
                    .or_else(|| e.downcast_ref::<&str>().map(|s| s.to_string()))
                    .unwrap_or_default();
                format!("(harness-crash {})", quote(msg.as_bytes()))
            }
        };
        writeln!(out, "({id} {r})").unwrap();
        out.flush().unwrap();
    }
}
