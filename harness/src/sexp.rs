//! Minimal S-expressions: atoms (bare or "quoted" with \\ \" \n \xHH escapes) and lists.

#[derive(Debug, Clone, PartialEq, Eq)]
pub enum Sexp {
    Atom(String),
    Str(Vec<u8>),
    List(Vec<Sexp>),
}

impl Sexp {
    pub fn atom(&self) -> &str {
        match self {
            Sexp::Atom(s) => s,
            _ => panic!("harness: expected atom, got {self:?}"),
        }
    }
    pub fn list(&self) -> &[Sexp] {
        match self {
            Sexp::List(l) => l,
            _ => panic!("harness: expected list, got {self:?}"),
        }
    }
    pub fn bytes(&self) -> &[u8] {
        match self {
            Sexp::Str(b) => b,
            Sexp::Atom(s) => s.as_bytes(),
            _ => panic!("harness: expected string, got {self:?}"),
        }
    }
    pub fn text(&self) -> String {
        String::from_utf8_lossy(self.bytes()).into_owned()
    }
    pub fn usize(&self) -> usize {
        self.atom().parse().unwrap_or_else(|_| panic!("harness: bad usize {self:?}"))
    }
    pub fn u64(&self) -> u64 {
        self.atom().parse().unwrap_or_else(|_| panic!("harness: bad u64 {self:?}"))
    }
    pub fn i64(&self) -> i64 {
        self.atom().parse().unwrap_or_else(|_| panic!("harness: bad i64 {self:?}"))
    }
    pub fn head(&self) -> &str {
        self.list()[0].atom()
    }
    /// children after the head symbol
    pub fn args(&self) -> &[Sexp] {
        &self.list()[1..]
    }
    /// find the sub-list whose head is `key`
    pub fn field(&self, key: &str) -> &Sexp {
        self.try_field(key)
            .unwrap_or_else(|| panic!("harness: missing field {key} in {self:?}"))
    }
    pub fn try_field(&self, key: &str) -> Option<&Sexp> {
        self.list().iter().find(|s| match s {
            Sexp::List(l) => matches!(l.first(), Some(Sexp::Atom(a)) if a == key),
            _ => false,
        })
    }
    pub fn usizes(&self) -> Vec<usize> {
        self.args().iter().map(|s| s.usize()).collect()
    }
}

pub struct Parser<'a> {
    s: &'a [u8],
    pos: usize,
}

impl<'a> Parser<'a> {
    pub fn new(s: &'a [u8]) -> Self {
        Parser { s, pos: 0 }
    }
    fn skip_ws(&mut self) {
        while self.pos < self.s.len() {
            let c = self.s[self.pos];
            if c == b';' {
                while self.pos < self.s.len() && self.s[self.pos] != b'\n' {
                    self.pos += 1;
                }
            } else if c.is_ascii_whitespace() {
                self.pos += 1;
            } else {
                break;
            }
        }
    }
    pub fn next(&mut self) -> Option<Sexp> {
        self.skip_ws();
        if self.pos >= self.s.len() {
            return None;
        }
        Some(self.parse())
    }
    fn parse(&mut self) -> Sexp {
        self.skip_ws();
        let c = self.s[self.pos];
        if c == b'(' {
            self.pos += 1;
            let mut items = vec![];
            loop {
                self.skip_ws();
                if self.pos >= self.s.len() {
                    panic!("harness: unterminated list");
                }
                if self.s[self.pos] == b')' {
                    self.pos += 1;
                    return Sexp::List(items);
                }
                items.push(self.parse());
            }
        } else if c == b'"' {
            self.pos += 1;
            let mut out = vec![];
            loop {
                let c = self.s[self.pos];
                self.pos += 1;
                match c {
                    b'"' => return Sexp::Str(out),
                    b'\\' => {
                        let e = self.s[self.pos];
                        self.pos += 1;
                        match e {
                            b'n' => out.push(b'\n'),
                            b't' => out.push(b'\t'),
                            b'r' => out.push(b'\r'),
                            b'x' => {
                                let h = std::str::from_utf8(&self.s[self.pos..self.pos + 2]).unwrap();
                                out.push(u8::from_str_radix(h, 16).unwrap());
                                self.pos += 2;
                            }
                            other => out.push(other),
                        }
                    }
                    other => out.push(other),
                }
            }
        } else {
            let start = self.pos;
            while self.pos < self.s.len() {
                let c = self.s[self.pos];
                if c.is_ascii_whitespace() || c == b'(' || c == b')' || c == b'"' {
                    break;
                }
                self.pos += 1;
            }
            Sexp::Atom(String::from_utf8_lossy(&self.s[start..self.pos]).into_owned())
        }
    }
}

/// quote bytes for output
pub fn quote(b: &[u8]) -> String {
    let mut s = String::from("\"");
    for &c in b {
        match c {
            b'"' => s.push_str("\\\""),
            b'\\' => s.push_str("\\\\"),
            b'\n' => s.push_str("\\n"),
            0x20..=0x7e => s.push(c as char),
            _ => s.push_str(&format!("\\x{c:02x}")),
        }
    }
    s.push('"');
    s
}

pub fn bits_to_string(bits: &[bool]) -> String {
    bits.iter().map(|b| if *b { '1' } else { '0' }).collect()
}

pub fn string_to_bits(s: &[u8]) -> Vec<bool> {
    s.iter().map(|c| *c == b'1').collect()
}
