//! Job kind `consts` (property C12): const definitions as source text + supplied constant values
//! -> verdict of `garble_lang::compile_with_constants`, observed through the public API only:
//!   * `(ast ..)`     the checker's view of the const definitions (const_defs in source order,
//!                    const_deps sorted) so that the structured form in the job that the model
//!                    consumes is tied to what the real parser/checker produced;
//!   * `(res ..)`     check errors | compile errors (kind + names, sorted) | crash | ok with
//!                    const_sizes, the party sizes (input_gates) and, for observer programs
//!                    (main returns the tuple of the consts named in `(observe ..)`), the value
//!                    of every const read off the evaluated circuit;
//!   * `(det ..)`     the job is compiled `runs` times in-process from the source text (fresh
//!                    HashMaps => fresh hash seeds); all runs must give the same result;
//!   * `(oracle ..)`  (Rust only, stripped before the comparison with the model) the circuit is
//!                    compared with `compile(subst)` -- the program in which every const has been
//!                    textually replaced by its value -- on all / sampled inputs.
use crate::sexp::*;
use garble_lang::ast::{ConstExpr, ConstExprEnum, Type};
use garble_lang::circuit_type::CircuitType;
use garble_lang::compile::CompilerError;
use garble_lang::literal::Literal;
use garble_lang::token::{SignedNumType, UnsignedNumType};
use garble_lang::{CompileTimeError, Error, GarbleProgram};
use std::collections::HashMap;
use std::panic::{AssertUnwindSafe, catch_unwind};

fn uty(s: &str) -> UnsignedNumType {
    match s {
        "usize" => UnsignedNumType::Usize,
        "u8" => UnsignedNumType::U8,
        "u16" => UnsignedNumType::U16,
        "u32" => UnsignedNumType::U32,
        "u64" => UnsignedNumType::U64,
        "uX" => UnsignedNumType::Unspecified,
        _ => panic!("harness: bad unsigned type {s}"),
    }
}

fn sty(s: &str) -> SignedNumType {
    match s {
        "i8" => SignedNumType::I8,
        "i16" => SignedNumType::I16,
        "i32" => SignedNumType::I32,
        "i64" => SignedNumType::I64,
        "iX" => SignedNumType::Unspecified,
        _ => panic!("harness: bad signed type {s}"),
    }
}

fn fmt_uty(t: &UnsignedNumType) -> &'static str {
    match t {
        UnsignedNumType::Usize => "usize",
        UnsignedNumType::U8 => "u8",
        UnsignedNumType::U16 => "u16",
        UnsignedNumType::U32 => "u32",
        UnsignedNumType::U64 => "u64",
        UnsignedNumType::Unspecified => "uX",
    }
}

fn fmt_sty(t: &SignedNumType) -> &'static str {
    match t {
        SignedNumType::I8 => "i8",
        SignedNumType::I16 => "i16",
        SignedNumType::I32 => "i32",
        SignedNumType::I64 => "i64",
        SignedNumType::Unspecified => "iX",
    }
}

fn fmt_ty(t: &Type) -> String {
    match t {
        Type::Bool => "bool".into(),
        Type::Unsigned(u) => fmt_uty(u).into(),
        Type::Signed(s) => fmt_sty(s).into(),
        Type::Array(e, n) => format!("(arr {} {n})", fmt_ty(e)),
        Type::ArrayConst(e, c) => format!("(arrc {} {c})", fmt_ty(e)),
        Type::ArrayConstExpr(e, x) => format!("(arre {} {})", fmt_ty(e), fmt_cexpr(x)),
        Type::Tuple(ts) => format!(
            "(tup{})",
            ts.iter().map(|t| format!(" {}", fmt_ty(t))).collect::<String>()
        ),
        _ => "(other)".into(),
    }
}

fn parse_lit(s: &Sexp) -> Literal {
    let a = s.args();
    match s.head() {
        "t" => Literal::True,
        "f" => Literal::False,
        "u" => Literal::NumUnsigned(a[0].u64(), uty(a[1].atom())),
        "s" => Literal::NumSigned(a[0].i64(), sty(a[1].atom())),
        "other" => Literal::Array(vec![Literal::True]),
        h => panic!("harness: bad literal {h}"),
    }
}

fn fmt_lit(l: &Literal) -> String {
    match l {
        Literal::True => "(t)".into(),
        Literal::False => "(f)".into(),
        Literal::NumUnsigned(n, t) => format!("(u {n} {})", fmt_uty(t)),
        Literal::NumSigned(n, t) => format!("(s {n} {})", fmt_sty(t)),
        _ => "(other)".into(),
    }
}

fn fmt_cexpr(e: &ConstExpr) -> String {
    let ConstExpr(e, _) = e;
    match e {
        ConstExprEnum::True => "(t)".into(),
        ConstExprEnum::False => "(f)".into(),
        ConstExprEnum::NumUnsigned(n, t) => format!("(u {n} {})", fmt_uty(t)),
        ConstExprEnum::NumSigned(n, t) => format!("(s {n} {})", fmt_sty(t)),
        ConstExprEnum::ExternalValue { party, identifier } => format!("(ext {party} {identifier})"),
        ConstExprEnum::ConstExprIdent(i) => format!("(id {i})"),
        ConstExprEnum::Max(args) => format!(
            "(max{})",
            args.iter().map(|a| format!(" {}", fmt_cexpr(a))).collect::<String>()
        ),
        ConstExprEnum::Min(args) => format!(
            "(min{})",
            args.iter().map(|a| format!(" {}", fmt_cexpr(a))).collect::<String>()
        ),
        ConstExprEnum::Add(l, r) => format!("(add {} {})", fmt_cexpr(l), fmt_cexpr(r)),
        ConstExprEnum::Sub(l, r) => format!("(sub {} {})", fmt_cexpr(l), fmt_cexpr(r)),
    }
}

fn parse_supplied(job: &Sexp) -> HashMap<String, HashMap<String, Literal>> {
    let mut m: HashMap<String, HashMap<String, Literal>> = HashMap::new();
    for p in job.field("supplied").args() {
        let l = p.list();
        let e = m.entry(l[0].atom().to_string()).or_default();
        for c in &l[1..] {
            let c = c.list();
            e.insert(c[0].atom().to_string(), parse_lit(&c[1]));
        }
    }
    m
}

/// value of a decoded scalar literal, as printed by both sides
fn fmt_val(l: &Literal) -> String {
    match l {
        Literal::True => "t".into(),
        Literal::False => "f".into(),
        Literal::NumUnsigned(n, _) => n.to_string(),
        Literal::NumSigned(n, _) => n.to_string(),
        _ => "?".into(),
    }
}

struct Run {
    /// canonical, compared with the model
    res: String,
    /// Rust-only details (error order as returned, panic message)
    extra: String,
    ast: String,
    prog: Option<GarbleProgram>,
}

fn zero_inputs(ig: &[usize]) -> Vec<Vec<bool>> {
    ig.iter().map(|n| vec![false; *n]).collect()
}

fn input_gates(p: &GarbleProgram) -> Vec<usize> {
    match &p.circuit {
        CircuitType::Ssa(c) => c.input_gates.clone(),
        CircuitType::Register(c) => c.input_regs.clone(),
    }
}

fn one_run(src: &str, supplied: &HashMap<String, HashMap<String, Literal>>, observe: Option<usize>) -> Run {
    // the checker's view of the const definitions
    let ast = match catch_unwind(AssertUnwindSafe(|| garble_lang::check(src))) {
        Err(_) => "(ast crash)".to_string(),
        Ok(Err(_)) => "(ast none)".to_string(),
        Ok(Ok(tp)) => {
            let mut defs: Vec<_> = tp.const_defs.iter().collect();
            defs.sort_by_key(|(_, d)| d.meta);
            let defs: String = defs
                .iter()
                .map(|(n, d)| format!(" ({n} {} {})", fmt_ty(&d.ty), fmt_cexpr(&d.value)))
                .collect();
            let mut deps: Vec<(String, String, String, (usize, usize))> = vec![];
            for (p, m) in tp.const_deps.iter() {
                for (c, (ty, meta)) in m.iter() {
                    deps.push((p.clone(), c.clone(), fmt_ty(ty), meta.start));
                }
            }
            // printed in the order in which MissingConstant errors would be sorted (by meta)
            deps.sort_by_key(|d| d.3);
            let deps: String = deps.iter().map(|(p, c, t, _)| format!(" ({p} {c} {t})")).collect();
            let mut params = String::new();
            if let Some(f) = tp.fn_defs.get("main") {
                for p in &f.params {
                    params.push_str(&format!(" {}", fmt_ty(&p.ty)));
                }
            }
            format!("(ast (defs{defs}) (deps{deps}) (params{params}))")
        }
    };
    let r = catch_unwind(AssertUnwindSafe(|| {
        garble_lang::compile_with_constants(src, supplied.clone())
    }));
    match r {
        Err(e) => {
            let msg = e
                .downcast_ref::<String>()
                .cloned()
                .or_else(|| e.downcast_ref::<&str>().map(|s| s.to_string()))
                .unwrap_or_default();
            Run { res: "(res crash)".into(), extra: format!("(crashmsg {})", quote(msg.as_bytes())), ast, prog: None }
        }
        Ok(Err(Error::CompileTimeError(CompileTimeError::TypeError(es)))) => {
            // kind + line (the generator writes one const definition per line, starting at line 1)
            let mut items: Vec<String> = es
                .iter()
                .map(|e| {
                    let k = match e.0.as_ref() {
                        garble_lang::check::TypeErrorEnum::UnexpectedType { .. } => "UnexpectedType",
                        garble_lang::check::TypeErrorEnum::UnknownIdentifier(_) => "UnknownIdentifier",
                        garble_lang::check::TypeErrorEnum::ExpectedNumberType(_) => "ExpectedNumberType",
                        _ => "Other",
                    };
                    format!("({k} {})", e.1.start.0)
                })
                .collect();
            items.sort();
            Run { res: format!("(res check-err {})", items.join(" ")), extra: String::new(), ast, prog: None }
        }
        Ok(Err(Error::CompileTimeError(CompileTimeError::CompilerError(es)))) => {
            let raw: Vec<String> = es
                .iter()
                .map(|e| match e {
                    CompilerError::MissingConstant(p, c, _) => format!("(missing {p} {c})"),
                    CompilerError::InvalidLiteralType(l, t) => format!("(badtype {} {})", fmt_lit(l), fmt_ty(t)),
                    CompilerError::FnNotFound(f) => format!("(fn-not-found {f})"),
                    // variant added by fix 7 (matched through Display so that the harness also
                    // builds against a tree without it)
                    #[allow(unreachable_patterns)]
                    other => {
                        if format!("{other}").contains("total size of 0 bits") {
                            "(zero-sized-inputs)".to_string()
                        } else {
                            "(other-err)".to_string()
                        }
                    }
                })
                .collect();
            let mut sorted = raw.clone();
            sorted.sort();
            Run {
                res: format!("(res err {})", sorted.join(" ")),
                extra: format!("(raw-errs {})", raw.join(" ")),
                ast,
                prog: None,
            }
        }
        Ok(Err(e)) => {
            let k = match e {
                Error::CompileTimeError(CompileTimeError::ScanErrors(_)) => "scan",
                Error::CompileTimeError(CompileTimeError::ParseError(_)) => "parse",
                _ => "other",
            };
            Run { res: format!("(res front-err {k})"), extra: String::new(), ast, prog: None }
        }
        Ok(Ok(p)) => {
            let mut sizes: Vec<_> = p.const_sizes.iter().collect();
            sizes.sort();
            let sizes: String = sizes.iter().map(|(k, v)| format!(" ({k} {v})")).collect();
            let ig = input_gates(&p);
            let igs: String = ig.iter().map(|n| format!(" {n}")).collect();
            let mut vals = String::new();
            if let Some(n) = observe {
                let ev = catch_unwind(AssertUnwindSafe(|| {
                    let out = p.circuit.eval(&zero_inputs(&ig));
                    p.parse_output(&out)
                }));
                vals = match ev {
                    Err(_) => " (vals crash)".into(),
                    Ok(Err(_)) => " (vals eval-err)".into(),
                    Ok(Ok(Literal::Tuple(fs))) if n != 1 => {
                        format!(" (vals{})", fs.iter().map(|f| format!(" {}", fmt_val(f))).collect::<String>())
                    }
                    Ok(Ok(l)) => format!(" (vals {})", fmt_val(&l)),
                };
            }
            Run {
                res: format!("(res ok (sizes{sizes}) (ig{igs}){vals})"),
                extra: String::new(),
                ast,
                prog: Some(p),
            }
        }
    }
}

fn lcg(s: &mut u64) -> u64 {
    *s = s.wrapping_mul(6364136223846793005).wrapping_add(1442695040888963407);
    *s >> 33
}

fn inputs_for(ig: &[usize], nins: usize, seed: u64) -> Vec<Vec<Vec<bool>>> {
    let total: usize = ig.iter().sum();
    let split = |bits: &[bool]| -> Vec<Vec<bool>> {
        let mut out = vec![];
        let mut k = 0;
        for n in ig {
            out.push(bits[k..k + n].to_vec());
            k += n;
        }
        out
    };
    let mut res = vec![];
    if total <= 10 {
        for v in 0..(1u64 << total) {
            let bits: Vec<bool> = (0..total).map(|i| (v >> i) & 1 == 1).collect();
            res.push(split(&bits));
        }
    } else {
        res.push(split(&vec![false; total]));
        res.push(split(&vec![true; total]));
        let mut s = seed ^ 0x9e3779b97f4a7c15;
        for _ in 0..nins {
            let bits: Vec<bool> = (0..total).map(|_| lcg(&mut s) & 1 == 1).collect();
            res.push(split(&bits));
        }
    }
    res
}

fn flat(ins: &[Vec<bool>]) -> String {
    ins.iter().map(|p| bits_to_string(p)).collect::<Vec<_>>().join("|")
}

fn oracle(job: &Sexp, p: &GarbleProgram) -> String {
    let Some(sub) = job.try_field("subst") else {
        return String::new();
    };
    let src2 = sub.args()[0].text();
    let nins = job.try_field("nins").map(|f| f.args()[0].usize()).unwrap_or(16);
    let seed = job.try_field("seed").map(|f| f.args()[0].u64()).unwrap_or(1);
    let ig1 = input_gates(p);
    let p2 = match catch_unwind(AssertUnwindSafe(|| garble_lang::compile(&src2))) {
        Err(_) => return " (oracle subst-crash)".into(),
        Ok(Err(_)) => return " (oracle subst-err)".into(),
        Ok(Ok(p2)) => p2,
    };
    let ig2 = input_gates(&p2);
    let igs = |ig: &[usize]| ig.iter().map(|n| format!(" {n}")).collect::<String>();
    if ig1 != ig2 {
        return format!(" (oracle shape-diff (ig1{}) (ig2{}))", igs(&ig1), igs(&ig2));
    }
    let ins = inputs_for(&ig1, nins, seed);
    let mut n = 0;
    let mut samples = String::new();
    // outputs are compared after decoding (value, or panic reason: the panic *location* is
    // part of the output bits and necessarily differs between the two source texts)
    let decode = |p: &GarbleProgram, bits: &[bool]| -> String {
        match catch_unwind(AssertUnwindSafe(|| p.parse_output(bits))) {
            Err(_) => "decode-crash".to_string(),
            Ok(Ok(l)) => format!("{l}"),
            Ok(Err(garble_lang::eval::EvalError::Panic(ep))) => format!("panic:{}", ep.reason),
            Ok(Err(e)) => format!("err:{e:?}"),
        }
    };
    for i in &ins {
        let o1 = catch_unwind(AssertUnwindSafe(|| p.circuit.eval(i)));
        let o2 = catch_unwind(AssertUnwindSafe(|| p2.circuit.eval(i)));
        match (o1, o2) {
            (Ok(a), Ok(b)) => {
                let (d1, d2) = (decode(p, &a), decode(&p2, &b));
                if d1 != d2 || a.len() != b.len() {
                    return format!(
                        " (oracle diff (in {}) (out1 {}) (out2 {}))",
                        quote(flat(i).as_bytes()),
                        quote(d1.as_bytes()),
                        quote(d2.as_bytes())
                    );
                }
                if n < 3 {
                    samples.push_str(&format!(" ({} {})", quote(flat(i).as_bytes()), quote(d1.as_bytes())));
                }
            }
            (Err(_), Err(_)) => return format!(" (oracle eval-crash both (in {}))", quote(flat(i).as_bytes())),
            (Err(_), _) => return format!(" (oracle eval-crash consts (in {}))", quote(flat(i).as_bytes())),
            (_, Err(_)) => return format!(" (oracle eval-crash subst (in {}))", quote(flat(i).as_bytes())),
        }
        n += 1;
    }
    format!(" (oracle same (n {n}) (ig{}) (samples{samples}))", igs(&ig1))
}

pub fn job_consts(job: &Sexp) -> String {
    let src = job.field("src").args()[0].text();
    let supplied = parse_supplied(job);
    let runs = job.try_field("runs").map(|f| f.args()[0].usize()).unwrap_or(8).max(1);
    let observe = job.try_field("observe").map(|f| f.args().len());
    let first = one_run(&src, &supplied, observe);
    let mut det = true;
    let mut alt = String::new();
    for _ in 1..runs {
        let r = one_run(&src, &supplied, observe);
        if (r.res != first.res || r.ast != first.ast) && det {
            det = false;
            alt = format!(" (alt {} {})", r.res, r.extra);
        }
    }
    let orc = match &first.prog {
        Some(p) => oracle(job, p),
        None => String::new(),
    };
    format!(
        "{} {} (det {}){}{}{}",
        first.ast,
        first.res,
        det,
        if first.extra.is_empty() { String::new() } else { format!(" (extra {})", first.extra) },
        if alt.is_empty() { String::new() } else { format!(" (extra{alt})") },
        if orc.is_empty() { String::new() } else { format!(" (extra{orc})") },
    )
}
