//! C07 jobs on source text: `scan` (tie with the Coq model of scan.rs), `pretty` (tie with
//! the model of lib.rs::prettify_meta), `front` (search: the complete pipeline compile -> prettify -> parse_arg).
use crate::sexp::*;
use garble_lang::scan::{ScanError, scan};
use garble_lang::token::{MetaInfo, SignedNumType, Token, TokenEnum, UnsignedNumType};
use garble_lang::{CompileTimeError, Error, compile};
use std::panic::{AssertUnwindSafe, catch_unwind};
use std::sync::Mutex;

static LAST_PANIC: Mutex<String> = Mutex::new(String::new());

/// Runs `f` under catch_unwind; a panic is returned as `"<file>:<line>" "<message>"`.
pub fn guarded<T>(f: impl FnOnce() -> T) -> Result<T, String> {
    let prev = std::panic::take_hook();
    std::panic::set_hook(Box::new(|info| {
        let loc = info
            .location()
            .map(|l| {
                let f = l.file();
                let f = f.rsplit_once("/src/").map(|x| x.1).unwrap_or(f);
                format!("{}:{}", f, l.line())
            })
            .unwrap_or_default();
        let msg = info
            .payload()
            .downcast_ref::<String>()
            .cloned()
            .or_else(|| info.payload().downcast_ref::<&str>().map(|s| s.to_string()))
            .unwrap_or_default();
        let msg: String = msg.chars().take(80).collect();
        *LAST_PANIC.lock().unwrap() = format!("{} {}", quote(loc.as_bytes()), quote(msg.as_bytes()));
    }));
    let r = catch_unwind(AssertUnwindSafe(f));
    std::panic::set_hook(prev);
    r.map_err(|_| LAST_PANIC.lock().unwrap().clone())
}

fn fmt_meta(m: &MetaInfo) -> String {
    format!("{} {} {} {}", m.start.0, m.start.1, m.end.0, m.end.1)
}

fn fmt_u(t: &UnsignedNumType) -> &'static str {
    match t {
        UnsignedNumType::Usize => "Usize",
        UnsignedNumType::U8 => "U8",
        UnsignedNumType::U16 => "U16",
        UnsignedNumType::U32 => "U32",
        UnsignedNumType::U64 => "U64",
        UnsignedNumType::Unspecified => "Unspecified",
    }
}

fn fmt_s(t: &SignedNumType) -> &'static str {
    match t {
        SignedNumType::I8 => "I8",
        SignedNumType::I16 => "I16",
        SignedNumType::I32 => "I32",
        SignedNumType::I64 => "I64",
        SignedNumType::Unspecified => "Unspecified",
    }
}

fn fmt_tok(Token(t, m): &Token) -> String {
    let k = match t {
        TokenEnum::Identifier(s) => format!("(Identifier {})", quote(s.as_bytes())),
        TokenEnum::UnsignedNum(n, ty) => format!("(UnsignedNum {n} {})", fmt_u(ty)),
        TokenEnum::SignedNum(n, ty) => format!("(SignedNum {n} {})", fmt_s(ty)),
        other => format!("{other:?}"),
    };
    format!("({k} {})", fmt_meta(m))
}

fn fmt_scan(r: &Result<garble_lang::scan::Tokens, Vec<ScanError>>) -> String {
    match r {
        Ok(ts) => format!("(ok {})", ts.0.iter().map(fmt_tok).collect::<Vec<_>>().join(" ")),
        Err(es) => format!(
            "(err {})",
            es.iter()
                .map(|ScanError(e, m)| format!("({e:?} {})", fmt_meta(m)))
                .collect::<Vec<_>>()
                .join(" ")
        ),
    }
}

/// `(scan id "text")` -> `(ok (tok sl sc el ec)..)` | `(err (kind sl sc el ec)..)` | `(crash ..)`
pub fn job_scan(job: &Sexp) -> String {
    let text = job.list()[2].text();
    match guarded(|| scan(&text)) {
        Ok(r) => fmt_scan(&r),
        Err(site) => format!("(crash {site})"),
    }
}

/// `(pretty id "text" sl sc el ec)` -> `(ok "rendered")` | `(crash ..)`;
/// runs the crate-private `prettify_meta` through the verif hook.
pub fn job_pretty(job: &Sexp) -> String {
    let l = job.list();
    let text = l[2].text();
    let meta = MetaInfo { start: (l[3].usize(), l[4].usize()), end: (l[5].usize(), l[6].usize()) };
    match guarded(|| garble_lang::verif_hooks::prettify_meta(&text, meta)) {
        Ok(s) => format!("(ok {})", quote(s.as_bytes())),
        Err(site) => format!("(crash {site})"),
    }
}

fn error_metas(e: &Error) -> (&'static str, usize, Vec<MetaInfo>) {
    match e {
        Error::FnNotFound(_) => ("FnNotFound", 1, vec![]),
        Error::EvalError(_) => ("Eval", 1, vec![]),
        Error::ConvertError(_) => ("Convert", 1, vec![]),
        Error::CompileTimeError(c) => cte_metas(c),
    }
}

fn cte_metas(c: &CompileTimeError) -> (&'static str, usize, Vec<MetaInfo>) {
    match c {
        CompileTimeError::ScanErrors(v) => ("Scan", v.len(), v.iter().map(|e| e.1).collect()),
        CompileTimeError::ParseError(v) => ("Parse", v.len(), v.iter().map(|e| e.1).collect()),
        CompileTimeError::TypeError(v) => ("Type", v.len(), v.iter().map(|e| *e.1).collect()),
        CompileTimeError::CompilerError(v) => (
            "Compiler",
            v.len(),
            v.iter()
                .filter_map(|e| match e {
                    garble_lang::compile::CompilerError::MissingConstant(_, _, m) => Some(*m),
                    _ => None,
                })
                .collect(),
        ),
    }
}

fn fmt_locs(ms: &[MetaInfo]) -> String {
    let mut v: Vec<MetaInfo> = ms.to_vec();
    v.sort();
    v.dedup();
    v.iter().map(|m| format!("({})", fmt_meta(m))).collect::<Vec<_>>().join(" ")
}

/// `(front id "text" (lits "l1" ..))`: compile (scan+parse+check+compile of main), render the
/// error against the text, parse each literal string as each parameter of main.
/// -> `(compile ok|(err Stage n (locs ..))|(crash site msg)) (pretty ok n|none|(crash ..)) (lits ..)`
/// Runs on a thread of its own so that RUST_MIN_STACK applies.
pub fn job_front(job: &Sexp) -> String {
    let text = job.list()[2].text();
    let lits: Vec<String> =
        job.try_field("lits").map(|f| f.args().iter().map(|s| s.text()).collect()).unwrap_or_default();
    let h = std::thread::Builder::new().name("front".into()).spawn(move || front(&text, &lits));
    match h.expect("spawn").join() {
        Ok(s) => s,
        Err(_) => "(harness-crash \"front thread\")".into(),
    }
}

fn front(text: &str, lits: &[String]) -> String {
    let t0 = std::time::Instant::now();
    let mut out = front_inner(text, lits);
    out += &format!(" (ms {})", t0.elapsed().as_millis());
    out
}

fn front_inner(text: &str, lits: &[String]) -> String {
    let mut out = String::new();
    match guarded(|| compile(text)) {
        Err(site) => out += &format!("(compile (crash {site})) (pretty none)"),
        Ok(Err(e)) => {
            let (stage, n, metas) = error_metas(&e);
            out += &format!("(compile (err {stage} {n} (locs {})))", fmt_locs(&metas));
            match guarded(|| e.prettify(text)) {
                Ok(s) => out += &format!(" (pretty ok {})", s.len()),
                Err(site) => out += &format!(" (pretty (crash {site}))"),
            }
        }
        Ok(Ok(prg)) => {
            out += "(compile ok) (pretty none)";
            if !lits.is_empty() {
                out += " (lits";
                let nparams = prg.main.params.len();
                for lit in lits {
                    for i in 0..nparams {
                        match guarded(|| prg.parse_arg(i, lit).map(|a| a.as_bits().len())) {
                            Ok(Ok(n)) => out += &format!(" (ok {n})"),
                            Ok(Err(e)) => {
                                // render the error against the literal text, as a caller would
                                let (n, metas) = match &e {
                                    garble_lang::eval::EvalError::LiteralParseError(c) => {
                                        let (_, n, m) = cte_metas(c);
                                        (n, m)
                                    }
                                    _ => (1, vec![]),
                                };
                                let rendered = guarded(|| match &e {
                                    garble_lang::eval::EvalError::LiteralParseError(c) => c.prettify(lit),
                                    e => e.prettify(lit),
                                });
                                match rendered {
                                    Ok(_) => out += &format!(" (err {n} (locs {}))", fmt_locs(&metas)),
                                    Err(site) => out += &format!(" (pretty-crash {site})"),
                                }
                            }
                            Err(site) => out += &format!(" (crash {site})"),
                        }
                    }
                }
                out += ")";
            }
        }
    }
    out
}

// ---------------------------------------------------------------------------------------------
// `pexpr` jobs: the REAL parser's untyped tree of one expression, for the tie with the Gallina
// model Front/ParseExpr.v.  `(pexpr id (src "<expression text>"))`; the text is wrapped into
// `pub fn main(zz: u8) -> u8 { let rr = <text>; zz }` and the value of the `let` is printed:
//   (t) (f) (nu n ty) (ns z ty) (id s) (idx a i) (tup e..) (tupacc e i) (fld e f) (un not|neg e)
//   (op NAME l r) (call f e..) (if c t e) (cast ty e); anything else: (outside)
// Result: (tree <sexp>) | (err) | (crash)
fn uty_sx(t: &garble_lang::token::UnsignedNumType) -> &'static str {
    use garble_lang::token::UnsignedNumType::*;
    match t { Usize => "usize", U8 => "u8", U16 => "u16", U32 => "u32", U64 => "u64", Unspecified => "uunspec" }
}
fn sty_sx(t: &garble_lang::token::SignedNumType) -> &'static str {
    use garble_lang::token::SignedNumType::*;
    match t { I8 => "i8", I16 => "i16", I32 => "i32", I64 => "i64", Unspecified => "sunspec" }
}
fn uexpr_sx(e: &garble_lang::ast::Expr<()>) -> String {
    use garble_lang::ast::{ExprEnum, Op, UnaryOp};
    let list = |es: &Vec<garble_lang::ast::Expr<()>>| es.iter().map(|x| format!(" {}", uexpr_sx(x))).collect::<String>();
    match &e.inner {
        ExprEnum::True => "(t)".into(),
        ExprEnum::False => "(f)".into(),
        ExprEnum::NumUnsigned(n, t) => format!("(nu {n} {})", uty_sx(t)),
        ExprEnum::NumSigned(n, t) => format!("(ns {n} {})", sty_sx(t)),
        ExprEnum::Identifier(s) => format!("(id {s})"),
        ExprEnum::ArrayAccess(a, i) => format!("(idx {} {})", uexpr_sx(a), uexpr_sx(i)),
        ExprEnum::TupleLiteral(es) => format!("(tup{})", list(es)),
        ExprEnum::TupleAccess(x, i) => format!("(tupacc {} {i})", uexpr_sx(x)),
        ExprEnum::StructAccess(x, f) => format!("(fld {} {f})", uexpr_sx(x)),
        ExprEnum::UnaryOp(o, x) => format!("(un {} {})", match o { UnaryOp::Not => "not", UnaryOp::Neg => "neg" }, uexpr_sx(x)),
        ExprEnum::Op(o, l, r) => {
            let n = match o {
                Op::Add => "add", Op::Sub => "sub", Op::Mul => "mul", Op::Div => "div", Op::Mod => "mod",
                Op::BitAnd => "bitand", Op::BitXor => "bitxor", Op::BitOr => "bitor", Op::GreaterThan => "gt",
                Op::LessThan => "lt", Op::Eq => "eq", Op::NotEq => "noteq", Op::ShiftLeft => "shl", Op::ShiftRight => "shr",
                Op::ShortCircuitAnd => "and", Op::ShortCircuitOr => "or",
            };
            format!("(op {n} {} {})", uexpr_sx(l), uexpr_sx(r))
        }
        ExprEnum::FnCall(f, args) => format!("(call {f}{})", list(args)),
        // the parser builds the built-in call for the name `join`, with has_assoc_data = false: printed as the call it was
        ExprEnum::BuiltInFnCall(garble_lang::ast::BuiltInFnCall::Join { args, has_assoc_data: false, .. }) => format!("(call join{})", list(args)),
        ExprEnum::If(c, t, x) => format!("(if {} {} {})", uexpr_sx(c), uexpr_sx(t), uexpr_sx(x)),
        ExprEnum::Cast(ty, x) => format!("(cast {} {})", utype_sx(ty), uexpr_sx(x)),
        ExprEnum::ArrayLiteral(es) => format!("(arrlit{})", list(es)),
        ExprEnum::ArrayRepeatLiteral(x, n) => format!("(arrrep {} {n})", uexpr_sx(x)),
        ExprEnum::ArrayRepeatLiteralConst(x, c) => format!("(arrrepc {} {c})", uexpr_sx(x)),
        ExprEnum::Range(a, b, t) => format!("(range {a} {b} {})", uty_sx(t)),
        ExprEnum::StructLiteral(n, fs) => format!(
            "(structlit {n}{})",
            fs.iter().map(|(f, x)| format!(" ({f} {})", uexpr_sx(x))).collect::<String>()
        ),
        ExprEnum::EnumLiteral(e, v, args) => match args {
            garble_lang::ast::VariantExprEnum::Unit => format!("(enumlit {e} {v} (unit))"),
            garble_lang::ast::VariantExprEnum::Tuple(es) => format!("(enumlit {e} {v} (args{}))", list(es)),
        },
        ExprEnum::Block(ss) => format!("(block{})", ss.iter().map(|x| format!(" {}", ustmt_sx(x))).collect::<String>()),
        ExprEnum::Match(x, arms) => format!(
            "(match {}{})",
            uexpr_sx(x),
            arms.iter().map(|(p, b)| format!(" (arm {} {})", upat_sx(p), uexpr_sx(b))).collect::<String>()
        ),
        _ => "(outside)".into(),
    }
}
fn utype_sx(ty: &garble_lang::ast::Type) -> String {
    use garble_lang::ast::Type;
    match ty {
        Type::Bool => "bool".to_string(),
        Type::Unsigned(u) => uty_sx(u).to_string(),
        Type::Signed(s) => sty_sx(s).to_string(),
        Type::UntypedTopLevelDefinition(n, _) => format!("(named {n})"),
        Type::Tuple(ts) => format!("(tuplety{})", ts.iter().map(|t| format!(" {}", utype_sx(t))).collect::<String>()),
        Type::Array(t, n) => format!("(arr {} {n})", utype_sx(t)),
        Type::ArrayConst(t, c) => format!("(arrc {} {c})", utype_sx(t)),
        Type::ArrayConstExpr(t, c) => format!("(arrce {} {})", utype_sx(t), uconst_sx(c)),
        _ => "(outside)".into(),
    }
}
fn upat_sx(p: &garble_lang::ast::Pattern<()>) -> String {
    use garble_lang::ast::PatternEnum::*;
    let list = |ps: &Vec<garble_lang::ast::Pattern<()>>| ps.iter().map(|x| format!(" {}", upat_sx(x))).collect::<String>();
    let fields = |fs: &Vec<(String, garble_lang::ast::Pattern<()>)>| fs.iter().map(|(f, x)| format!(" ({f} {})", upat_sx(x))).collect::<String>();
    match &p.0 {
        Identifier(s) => format!("(pid {s})"),
        True => "(ptrue)".into(),
        False => "(pfalse)".into(),
        NumUnsigned(n, t) => format!("(pnu {n} {})", uty_sx(t)),
        NumSigned(n, t) => format!("(pns {n} {})", sty_sx(t)),
        Tuple(ps) => format!("(ptup{})", list(ps)),
        Struct(n, fs) => format!("(pstruct {n}{})", fields(fs)),
        StructIgnoreRemaining(n, fs) => format!("(pstructrest {n}{})", fields(fs)),
        EnumUnit(e, v) => format!("(penumu {e} {v})"),
        EnumTuple(e, v, ps) => format!("(penumt {e} {v}{})", list(ps)),
        UnsignedInclusiveRange(a, b, t) => format!("(purange {a} {b} {})", uty_sx(t)),
        SignedInclusiveRange(a, b, t) => format!("(psrange {a} {b} {})", sty_sx(t)),
    }
}
fn ustmt_sx(s: &garble_lang::ast::Stmt<()>) -> String {
    use garble_lang::ast::{Accessor, StmtEnum};
    let tyopt = |t: &Option<garble_lang::ast::Type>| match t { None => "(noty)".to_string(), Some(t) => format!("(ty {})", utype_sx(t)) };
    let body = |ss: &Vec<garble_lang::ast::Stmt<()>>| ss.iter().map(|x| format!(" {}", ustmt_sx(x))).collect::<String>();
    match &s.inner {
        StmtEnum::Let(p, t, e) => format!("(let {} {} {})", upat_sx(p), tyopt(t), uexpr_sx(e)),
        StmtEnum::LetMut(x, t, e) => format!("(letmut {x} {} {})", tyopt(t), uexpr_sx(e)),
        StmtEnum::VarAssign(x, accs, e) => {
            let a = accs.iter().map(|(a, _)| match a {
                Accessor::ArrayAccess { index, .. } => format!(" (aidx {})", uexpr_sx(index)),
                Accessor::TupleAccess { index, .. } => format!(" (atup {index})"),
                Accessor::StructAccess { field, .. } => format!(" (afld {field})"),
            }).collect::<String>();
            format!("(assign {x} (accs{a}) {})", uexpr_sx(e))
        }
        StmtEnum::ForEachLoop(p, e, ss) => format!("(for {} {} (body{}))", upat_sx(p), uexpr_sx(e), body(ss)),
        StmtEnum::JoinLoop(..) => "(outside)".into(),
        StmtEnum::Expr(e) => format!("(expr {})", uexpr_sx(e)),
    }
}

// `pblock` jobs: the real parser's untyped statements of one function body: `(pblock id (src "<body text>"))`,
// wrapped into `pub fn main(zz: u8) -> u8 {<text>}`. Result: (stmts <stmt>..) | (err) | (outside) | (crash)
pub fn job_pblock(job: &Sexp) -> String {
    let text = job.field("src").args()[0].text();
    let src = format!("pub fn main(zz: u8) -> u8 {{{text}}}");
    let r = catch_unwind(AssertUnwindSafe(|| {
        let toks = match garble_lang::scan::scan(&src) {
            Ok(t) => t,
            Err(_) => return "(err)".to_string(),
        };
        let prg = match toks.parse() {
            Ok(p) => p,
            Err(_) => return "(err)".to_string(),
        };
        let Some(main) = prg.fn_defs.get("main") else { return "(err)".to_string() };
        let s = main.body.iter().map(|x| format!(" {}", ustmt_sx(x))).collect::<String>();
        if s.contains("(outside)") { "(outside)".to_string() } else { format!("(stmts{s})") }
    }));
    r.unwrap_or_else(|_| "(crash)".to_string())
}

pub fn job_pexpr(job: &Sexp) -> String {
    let text = job.field("src").args()[0].text();
    let src = format!("pub fn main(zz: u8) -> u8 {{ let rr = {text}; zz }}");
    let r = catch_unwind(AssertUnwindSafe(|| {
        let toks = match garble_lang::scan::scan(&src) {
            Ok(t) => t,
            Err(_) => return "(err)".to_string(),
        };
        let prg = match toks.parse() {
            Ok(p) => p,
            Err(_) => return "(err)".to_string(),
        };
        let Some(main) = prg.fn_defs.get("main") else { return "(err)".to_string() };
        if main.body.len() != 2 {
            return "(err)".to_string();
        }
        match &main.body[0].inner {
            garble_lang::ast::StmtEnum::Let(_, _, e) => {
                let s = uexpr_sx(e);
                if s.contains("(outside)") { "(outside)".to_string() } else { format!("(tree {s})") }
            }
            _ => "(err)".to_string(),
        }
    }));
    r.unwrap_or_else(|_| "(crash)".to_string())
}

fn uconst_sx(c: &garble_lang::ast::ConstExpr) -> String {
    use garble_lang::ast::ConstExprEnum::*;
    let list = |cs: &Vec<garble_lang::ast::ConstExpr>| cs.iter().map(|x| format!(" {}", uconst_sx(x))).collect::<String>();
    match &c.0 {
        True => "(ct)".into(),
        False => "(cf)".into(),
        NumUnsigned(n, t) => format!("(cnu {n} {})", uty_sx(t)),
        NumSigned(n, t) => format!("(cns {n} {})", sty_sx(t)),
        ExternalValue { party, identifier } => format!("(cext {party} {identifier})"),
        ConstExprIdent(s) => format!("(cid {s})"),
        Max(cs) => format!("(cmax{})", list(cs)),
        Min(cs) => format!("(cmin{})", list(cs)),
        Add(l, r) => format!("(cadd {} {})", uconst_sx(l), uconst_sx(r)),
        Sub(l, r) => format!("(csub {} {})", uconst_sx(l), uconst_sx(r)),
    }
}

// `pprog` jobs: the real parser's untyped PROGRAM: `(pprog id (src "<program text>"))`. The four maps are printed sorted
// by name. Result: (prog (consts (n ty c)..) (structs (n (f ty)..)..) (enums (n variant..)..) (fns fn..)) | (err) | (crash)
pub fn job_pprog(job: &Sexp) -> String {
    let src = job.field("src").args()[0].text();
    let r = catch_unwind(AssertUnwindSafe(|| {
        let toks = match garble_lang::scan::scan(&src) {
            Ok(t) => t,
            Err(_) => return "(err)".to_string(),
        };
        let prg = match toks.parse() {
            Ok(p) => p,
            Err(_) => return "(err)".to_string(),
        };
        let mut out = String::from("(prog (consts");
        let mut ks: Vec<_> = prg.const_defs.keys().collect();
        ks.sort();
        for k in ks {
            let c = &prg.const_defs[k];
            out += &format!(" ({k} {} {})", utype_sx(&c.ty), uconst_sx(&c.value));
        }
        out += ") (structs";
        let mut ks: Vec<_> = prg.struct_defs.keys().collect();
        ks.sort();
        for k in ks {
            out += &format!(" ({k}{})", prg.struct_defs[k].fields.iter().map(|(f, t)| format!(" ({f} {})", utype_sx(t))).collect::<String>());
        }
        out += ") (enums";
        let mut ks: Vec<_> = prg.enum_defs.keys().collect();
        ks.sort();
        for k in ks {
            let vs = prg.enum_defs[k].variants.iter().map(|v| match v {
                garble_lang::ast::Variant::Unit(n) => format!(" (vunit {n})"),
                garble_lang::ast::Variant::Tuple(n, ts) => format!(" (vtuple {n}{})", ts.iter().map(|t| format!(" {}", utype_sx(t))).collect::<String>()),
            }).collect::<String>();
            out += &format!(" ({k}{vs})");
        }
        out += ") (fns";
        let mut ks: Vec<_> = prg.fn_defs.keys().collect();
        ks.sort();
        for k in ks {
            let f = &prg.fn_defs[k];
            let ps = f.params.iter().map(|p| format!(
                " ({} {} {})",
                match p.mutability { garble_lang::ast::Mutability::Mutable => "mut", garble_lang::ast::Mutability::Immutable => "imm" },
                p.name, utype_sx(&p.ty)
            )).collect::<String>();
            out += &format!(
                " (fn {k} {} {} {} (params{ps}) (body{}))",
                f.identifier, if f.is_pub { "pub" } else { "priv" }, utype_sx(&f.ty),
                f.body.iter().map(|x| format!(" {}", ustmt_sx(x))).collect::<String>()
            );
        }
        out += "))";
        if out.contains("(outside)") { "(outside)".to_string() } else { out }
    }));
    r.unwrap_or_else(|_| "(crash)".to_string())
}
