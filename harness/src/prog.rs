//! `program` jobs: compile a source text with the real compiler in the four configurations
//! (SSA / register x dedup on / off), evaluate on inputs, and export the typed AST for the
//! model's interpreter (coq/Lang/Sem.v).
use crate::sexp::*;
use garble_lang::ast::*;
use garble_lang::circuit_type::CircuitType;
use garble_lang::token::{SignedNumType, UnsignedNumType};
use garble_lang::{CircuitKind, CompileOptions, GarbleProgram, TypedExpr, TypedPattern, TypedProgram, TypedStmt};
use std::collections::HashMap;
use std::panic::{AssertUnwindSafe, catch_unwind};

pub struct Interner {
    pub map: HashMap<String, usize>,
    /// true: the table is complete (second pass), unknown names are an error
    pub fixed: bool,
}

impl Interner {
    fn id(&mut self, s: &str) -> usize {
        if self.fixed {
            return *self.map.get(s).expect("interner: name not collected in the first pass");
        }
        let n = self.map.len();
        *self.map.entry(s.to_string()).or_insert(n)
    }
    pub fn new() -> Self {
        Interner { map: HashMap::new(), fixed: false }
    }
    /// the same names, renumbered by the rank of their byte strings (the order of a BTreeMap<String, _>)
    pub fn ranked(&self) -> Self {
        let mut names: Vec<&String> = self.map.keys().collect();
        names.sort();
        Interner { map: names.into_iter().enumerate().map(|(i, n)| (n.clone(), i)).collect(), fixed: true }
    }
}

pub struct Exporter<'a> {
    pub prg: &'a TypedProgram,
    pub const_sizes: &'a HashMap<String, usize>,
    pub names: Interner,
}

fn ubits(t: &UnsignedNumType) -> usize {
    match t {
        UnsignedNumType::U8 => 8,
        UnsignedNumType::U16 => 16,
        UnsignedNumType::U32 | UnsignedNumType::Usize | UnsignedNumType::Unspecified => 32,
        UnsignedNumType::U64 => 64,
    }
}
fn sbits(t: &SignedNumType) -> usize {
    match t {
        SignedNumType::I8 => 8,
        SignedNumType::I16 => 16,
        SignedNumType::I32 | SignedNumType::Unspecified => 32,
        SignedNumType::I64 => 64,
    }
}

/// the size of a `[T; const { .. }]` array: the const expression over usize literals and usize consts, wrapping at
/// 32 bits as compile.rs::resolve_const_expr_usize does (trusted glue of the exporter)
fn const_usize(e: &ConstExpr, sizes: &HashMap<String, usize>) -> usize {
    let wrap = |n: u64| (n & 0xffff_ffff) as usize;
    match &e.0 {
        ConstExprEnum::NumUnsigned(n, _) => *n as usize,
        ConstExprEnum::NumSigned(n, _) => *n as usize,
        ConstExprEnum::ExternalValue { party, identifier } => *sizes.get(&format!("{party}::{identifier}")).expect("const size"),
        ConstExprEnum::ConstExprIdent(i) => *sizes.get(i).expect("const size"),
        ConstExprEnum::Max(args) => args.iter().map(|a| const_usize(a, sizes)).max().unwrap_or(0),
        ConstExprEnum::Min(args) => args.iter().map(|a| const_usize(a, sizes)).min().unwrap_or(usize::MAX),
        ConstExprEnum::Add(a, b) => wrap((const_usize(a, sizes) as u64).wrapping_add(const_usize(b, sizes) as u64)),
        ConstExprEnum::Sub(a, b) => wrap((const_usize(a, sizes) as u64).wrapping_sub(const_usize(b, sizes) as u64)),
        ConstExprEnum::True | ConstExprEnum::False => panic!("harness: not a numeric const expr"),
    }
}

impl<'a> Exporter<'a> {
    pub fn ty(&mut self, t: &Type) -> String {
        match t {
            Type::Bool => "bool".into(),
            Type::Unsigned(u) => format!("(u {})", ubits(u)),
            Type::Signed(s) => format!("(i {})", sbits(s)),
            Type::Array(e, n) => format!("(arr {} {})", self.ty(e), n),
            Type::ArrayConst(e, c) => {
                let n = *self.const_sizes.get(c).expect("const size");
                format!("(arr {} {})", self.ty(e), n)
            }
            Type::ArrayConstExpr(e, size) => {
                let n = const_usize(size, self.const_sizes);
                format!("(arr {} {})", self.ty(e), n)
            }
            Type::Tuple(ts) => {
                let v: Vec<String> = ts.iter().map(|t| self.ty(t)).collect();
                format!("(tup {})", v.join(" "))
            }
            Type::Struct(n) => format!("(struct {})", self.names.id(n)),
            Type::Enum(n) => format!("(enum {})", self.names.id(n)),
            Type::Fn(_, _) => panic!("harness: fn type"),
            Type::UntypedTopLevelDefinition(_, _) => panic!("harness: untyped top-level type"),
        }
    }

    fn meta(&self, m: &garble_lang::token::MetaInfo) -> String {
        format!("(m {} {} {} {})", m.start.0, m.start.1, m.end.0, m.end.1)
    }

    fn variant_index(&self, enum_name: &str, variant: &str) -> usize {
        let def = self.prg.enum_defs.get(enum_name).expect("enum def");
        def.variants
            .iter()
            .position(|v| match v {
                Variant::Unit(n) => n == variant,
                Variant::Tuple(n, _) => n == variant,
            })
            .expect("variant")
    }

    fn op(o: &Op) -> &'static str {
        match o {
            Op::Add => "add",
            Op::Sub => "sub",
            Op::Mul => "mul",
            Op::Div => "div",
            Op::Mod => "mod",
            Op::BitAnd => "band",
            Op::BitXor => "bxor",
            Op::BitOr => "bor",
            Op::GreaterThan => "gt",
            Op::LessThan => "lt",
            Op::Eq => "eq",
            Op::NotEq => "ne",
            Op::ShiftLeft => "shl",
            Op::ShiftRight => "shr",
            Op::ShortCircuitAnd => "land",
            Op::ShortCircuitOr => "lor",
        }
    }

    pub fn pattern(&mut self, p: &TypedPattern) -> String {
        let Pattern(inner, meta, ty) = p;
        let i = match inner {
            PatternEnum::Identifier(s) => format!("(id {})", self.names.id(s)),
            PatternEnum::True => "true".into(),
            PatternEnum::False => "false".into(),
            PatternEnum::NumUnsigned(n, _) => format!("(nu {n})"),
            PatternEnum::NumSigned(n, _) => format!("(ns {n})"),
            PatternEnum::Tuple(ps) => {
                let v: Vec<String> = ps.iter().map(|p| self.pattern(p)).collect();
                format!("(tup {})", v.join(" "))
            }
            PatternEnum::Struct(name, fields) | PatternEnum::StructIgnoreRemaining(name, fields) => {
                let rest = matches!(inner, PatternEnum::StructIgnoreRemaining(_, _));
                let v: Vec<String> = fields
                    .iter()
                    .map(|(f, p)| format!("({} {})", self.names.id(f), self.pattern(p)))
                    .collect();
                format!("(struct {} {} {})", self.names.id(name), if rest { 1 } else { 0 }, v.join(" "))
            }
            PatternEnum::EnumUnit(e, v) => {
                format!("(eunit {} {})", self.names.id(e), self.variant_index(e, v))
            }
            PatternEnum::EnumTuple(e, v, ps) => {
                let pv: Vec<String> = ps.iter().map(|p| self.pattern(p)).collect();
                format!("(etup {} {} {})", self.names.id(e), self.variant_index(e, v), pv.join(" "))
            }
            PatternEnum::UnsignedInclusiveRange(a, b, _) => format!("(urange {a} {b})"),
            PatternEnum::SignedInclusiveRange(a, b, _) => format!("(srange {a} {b})"),
        };
        format!("(p {} {} {})", i, self.meta(meta), self.ty(ty))
    }

    pub fn expr(&mut self, e: &TypedExpr) -> String {
        let i = match &e.inner {
            ExprEnum::True => "true".to_string(),
            ExprEnum::False => "false".to_string(),
            ExprEnum::NumUnsigned(n, t) => format!("(nu {n} {})", ubits(t)),
            ExprEnum::NumSigned(n, t) => format!("(ns {n} {})", sbits(t)),
            ExprEnum::Identifier(s) => format!("(id {})", self.names.id(s)),
            ExprEnum::ArrayLiteral(es) => {
                let v: Vec<String> = es.iter().map(|e| self.expr(e)).collect();
                format!("(arrlit {})", v.join(" "))
            }
            ExprEnum::ArrayRepeatLiteral(e, n) => format!("(arrrep {} {})", self.expr(e), n),
            ExprEnum::ArrayRepeatLiteralConst(e, c) => {
                let n = *self.const_sizes.get(c).expect("const size");
                format!("(arrrep {} {})", self.expr(e), n)
            }
            ExprEnum::ArrayAccess(a, i) => format!("(idx {} {})", self.expr(a), self.expr(i)),
            ExprEnum::TupleLiteral(es) => {
                let v: Vec<String> = es.iter().map(|e| self.expr(e)).collect();
                format!("(tuplit {})", v.join(" "))
            }
            ExprEnum::TupleAccess(e, i) => format!("(tupacc {} {})", self.expr(e), i),
            ExprEnum::StructAccess(e, f) => format!("(fld {} {})", self.expr(e), self.names.id(f)),
            ExprEnum::StructLiteral(name, fields) => {
                let v: Vec<String> = fields
                    .iter()
                    .map(|(f, e)| format!("({} {})", self.names.id(f), self.expr(e)))
                    .collect();
                format!("(structlit {} {})", self.names.id(name), v.join(" "))
            }
            ExprEnum::EnumLiteral(en, vn, v) => {
                let args: Vec<String> = match v {
                    VariantExprEnum::Unit => vec![],
                    VariantExprEnum::Tuple(es) => es.iter().map(|e| self.expr(e)).collect(),
                };
                format!("(enumlit {} {} {})", self.names.id(en), self.variant_index(en, vn), args.join(" "))
            }
            ExprEnum::Match(s, arms) => {
                let v: Vec<String> = arms
                    .iter()
                    .map(|(p, e)| format!("({} {})", self.pattern(p), self.expr(e)))
                    .collect();
                format!("(match {} {})", self.expr(s), v.join(" "))
            }
            ExprEnum::UnaryOp(UnaryOp::Neg, x) => format!("(neg {})", self.expr(x)),
            ExprEnum::UnaryOp(UnaryOp::Not, x) => format!("(not {})", self.expr(x)),
            ExprEnum::Op(o, x, y) => format!("(op {} {} {})", Self::op(o), self.expr(x), self.expr(y)),
            ExprEnum::Block(ss) => {
                let v: Vec<String> = ss.iter().map(|s| self.stmt(s)).collect();
                format!("(block {})", v.join(" "))
            }
            ExprEnum::FnCall(f, args) => {
                let v: Vec<String> = args.iter().map(|e| self.expr(e)).collect();
                format!("(call {} {})", self.names.id(f), v.join(" "))
            }
            ExprEnum::BuiltInFnCall(BuiltInFnCall::Join { join_ty, has_assoc_data, args }) => {
                format!(
                    "(join {} {} {} {})",
                    self.ty(join_ty),
                    if *has_assoc_data { 1 } else { 0 },
                    self.expr(&args[0]),
                    self.expr(&args[1])
                )
            }
            ExprEnum::If(c, t, f) => format!("(if {} {} {})", self.expr(c), self.expr(t), self.expr(f)),
            ExprEnum::Cast(t, x) => format!("(cast {} {})", self.ty(t), self.expr(x)),
            ExprEnum::Range(a, b, t) => format!("(range {a} {b} {})", ubits(t)),
        };
        format!("(e {} {} {})", i, self.meta(&e.meta), self.ty(&e.ty))
    }

    pub fn stmt(&mut self, s: &TypedStmt) -> String {
        let i = match &s.inner {
            StmtEnum::Let(p, _, e) => format!("(let {} {})", self.pattern(p), self.expr(e)),
            StmtEnum::LetMut(n, _, e) => format!("(letmut {} {})", self.names.id(n), self.expr(e)),
            StmtEnum::VarAssign(n, accs, e) => {
                let v: Vec<String> = accs
                    .iter()
                    .map(|(a, _)| match a {
                        Accessor::ArrayAccess { array_ty, index } => {
                            format!("(ai {} {})", self.ty(array_ty), self.expr(index))
                        }
                        Accessor::TupleAccess { tuple_ty, index } => {
                            format!("(at {} {})", self.ty(tuple_ty), index)
                        }
                        Accessor::StructAccess { struct_ty, field } => {
                            format!("(af {} {})", self.ty(struct_ty), self.names.id(field))
                        }
                    })
                    .collect();
                format!("(assign {} ({}) {})", self.names.id(n), v.join(" "), self.expr(e))
            }
            StmtEnum::ForEachLoop(p, a, body) => {
                let v: Vec<String> = body.iter().map(|s| self.stmt(s)).collect();
                format!("(for {} {} {})", self.pattern(p), self.expr(a), v.join(" "))
            }
            StmtEnum::JoinLoop(p, jt, (a, b), body) => {
                let v: Vec<String> = body.iter().map(|s| self.stmt(s)).collect();
                format!(
                    "(joinloop {} {} {} {} {})",
                    self.pattern(p),
                    self.ty(jt),
                    self.expr(a),
                    self.expr(b),
                    v.join(" ")
                )
            }
            StmtEnum::Expr(e) => format!("(expr {})", self.expr(e)),
        };
        format!("(s {} {})", i, self.meta(&s.meta))
    }

    pub fn program(&mut self, main: &str) -> String {
        let mut structs: Vec<(&String, &StructDef)> = self.prg.struct_defs.iter().collect();
        structs.sort_by_key(|(n, _)| (*n).clone());
        let mut enums: Vec<(&String, &EnumDef)> = self.prg.enum_defs.iter().collect();
        enums.sort_by_key(|(n, _)| (*n).clone());
        let mut fns: Vec<(&String, &FnDef<Type>)> = self.prg.fn_defs.iter().collect();
        fns.sort_by_key(|(n, _)| (*n).clone());
        let ss: Vec<String> = structs
            .iter()
            .map(|(n, d)| {
                let fs: Vec<String> = d
                    .fields
                    .iter()
                    .map(|(f, t)| format!("({} {})", self.names.id(f), self.ty(t)))
                    .collect();
                format!("({} {})", self.names.id(n), fs.join(" "))
            })
            .collect();
        let es: Vec<String> = enums
            .iter()
            .map(|(n, d)| {
                let vs: Vec<String> = d
                    .variants
                    .iter()
                    .map(|v| match v {
                        Variant::Unit(_) => "()".to_string(),
                        Variant::Tuple(_, ts) => {
                            let t: Vec<String> = ts.iter().map(|t| self.ty(t)).collect();
                            format!("({})", t.join(" "))
                        }
                    })
                    .collect();
                format!("({} {})", self.names.id(n), vs.join(" "))
            })
            .collect();
        let fs: Vec<String> = fns
            .iter()
            .map(|(n, d)| {
                let ps: Vec<String> = d
                    .params
                    .iter()
                    .map(|p| format!("({} {})", self.names.id(&p.name), self.ty(&p.ty)))
                    .collect();
                let body: Vec<String> = d.body.iter().map(|s| self.stmt(s)).collect();
                format!("({} (params {}) {} {})", self.names.id(n), ps.join(" "), self.ty(&d.ty), body.join(" "))
            })
            .collect();
        // constants with literal values only (external / computed constants: see C12)
        let mut consts: Vec<(&String, &ConstDef)> = self.prg.const_defs.iter().collect();
        consts.sort_by_key(|(_, d)| d.meta);
        let mut cs: Vec<String> = vec![];
        for (n, d) in consts {
            let m = self.meta(&d.meta);
            let t = self.ty(&d.ty);
            let v = match &d.value.0 {
                ConstExprEnum::True => "true".to_string(),
                ConstExprEnum::False => "false".to_string(),
                ConstExprEnum::NumUnsigned(n, t) => format!("(nu {n} {})", ubits(t)),
                ConstExprEnum::NumSigned(n, t) => format!("(ns {n} {})", sbits(t)),
                _ => panic!("harness: computed const not exported"),
            };
            cs.push(format!("({} (e {} {} {}))", self.names.id(n), v, m, t));
        }
        format!(
            "(prog (structs {}) (enums {}) (fns {}) (consts {}) (main {}))",
            ss.join(" "),
            es.join(" "),
            fs.join(" "),
            cs.join(" "),
            self.names.id(main)
        )
    }
}

// ------------------------------------------------------------------ input generation

struct Rng(u64);
impl Rng {
    fn next(&mut self) -> u64 {
        self.0 ^= self.0 << 13;
        self.0 ^= self.0 >> 7;
        self.0 ^= self.0 << 17;
        self.0
    }
    fn below(&mut self, n: u64) -> u64 {
        self.next() % n
    }
}

fn int_bits(v: i128, bits: usize, out: &mut Vec<bool>) {
    for i in 0..bits {
        out.push(((v >> (bits - 1 - i)) & 1) == 1);
    }
}

/// boundary-directed value of an integer type
fn gen_int(rng: &mut Rng, signed: bool, bits: usize, out: &mut Vec<bool>) {
    let max: i128 = if signed { (1i128 << (bits - 1)) - 1 } else { (1i128 << bits) - 1 };
    let min: i128 = if signed { -(1i128 << (bits - 1)) } else { 0 };
    let v = match rng.below(12) {
        0 => 0,
        1 => 1,
        2 => max,
        3 => min,
        4 => max - 1,
        5 => min + 1,
        6 => {
            if signed { -1 } else { 2 }
        }
        7 => 1i128 << rng.below(bits as u64 - 1),
        8 => rng.below(8) as i128,
        _ => {
            let r = ((rng.next() as i128) << 64 | rng.next() as i128) & ((1i128 << bits) - 1);
            if signed && r > max { r - (1i128 << bits) } else { r }
        }
    };
    int_bits(v, bits, out);
}

fn gen_value(rng: &mut Rng, prg: &TypedProgram, cs: &HashMap<String, usize>, t: &Type, out: &mut Vec<bool>) {
    match t {
        Type::Bool => out.push(rng.below(2) == 1),
        // usize values are indices most of the time: half of them small, so that every element of a short array
        // (also the ones above the largest power of two below the length: round-11 seed C14-r11) is reached
        Type::Unsigned(garble_lang::token::UnsignedNumType::Usize) if rng.below(2) == 0 => int_bits(rng.below(8) as i128, 32, out),
        Type::Unsigned(u) => gen_int(rng, false, ubits(u), out),
        Type::Signed(s) => gen_int(rng, true, sbits(s), out),
        Type::Array(e, n) => {
            for _ in 0..*n {
                gen_value(rng, prg, cs, e, out)
            }
        }
        Type::ArrayConst(e, c) => {
            for _ in 0..*cs.get(c).unwrap() {
                gen_value(rng, prg, cs, e, out)
            }
        }
        Type::ArrayConstExpr(e, c) => {
            for _ in 0..const_usize(c, cs) {
                gen_value(rng, prg, cs, e, out)
            }
        }
        Type::Tuple(ts) => {
            for t in ts {
                gen_value(rng, prg, cs, t, out)
            }
        }
        Type::Struct(n) => {
            let d = prg.struct_defs.get(n).unwrap();
            for (_, t) in d.fields.iter() {
                gen_value(rng, prg, cs, t, out)
            }
        }
        Type::Enum(n) => {
            let d = prg.enum_defs.get(n).unwrap();
            let mut tag_size = 0;
            while (1 << tag_size) < d.variants.len() {
                tag_size += 1;
            }
            let mut max = 0;
            let mut sizes = vec![];
            for v in d.variants.iter() {
                let mut tmp = vec![];
                if let Variant::Tuple(_, ts) = v {
                    for t in ts {
                        gen_value(&mut Rng(1), prg, cs, t, &mut tmp)
                    }
                }
                sizes.push(tmp.len());
                max = max.max(tmp.len());
            }
            let k = rng.below(d.variants.len() as u64) as usize;
            int_bits(k as i128, tag_size, out);
            let before = out.len();
            if let Variant::Tuple(_, ts) = &d.variants[k] {
                for t in ts {
                    gen_value(rng, prg, cs, t, out)
                }
            }
            let used = out.len() - before;
            for _ in used..max {
                out.push(false)
            }
        }
        _ => panic!("harness: cannot generate a value of type {t}"),
    }
}

fn decode_result(bits: &[bool]) -> String {
    if bits.len() < 161 {
        return format!("(short {})", bits.len());
    }
    let num = |s: &[bool]| s.iter().fold(0u64, |a, b| (a << 1) | (*b as u64));
    if bits[0] {
        let reason = match num(&bits[1..33]) {
            1 => "Overflow".to_string(),
            2 => "DivByZero".to_string(),
            3 => "OutOfBounds".to_string(),
            n => format!("Invalid{n}"),
        };
        format!(
            "(panic {reason} {} {} {} {})",
            num(&bits[33..65]),
            num(&bits[65..97]),
            num(&bits[97..129]),
            num(&bits[129..161])
        )
    } else {
        format!("(ok \"{}\")", bits_to_string(&bits[161..]))
    }
}

fn compile_cfg(src: &str, reg: bool, dedup: bool) -> std::thread::Result<Result<GarbleProgram, String>> {
    catch_unwind(AssertUnwindSafe(|| {
        let opts = CompileOptions {
            circuit_kind: if reg { CircuitKind::Register } else { CircuitKind::Ssa },
            consts: Default::default(),
            optimize_duplicate_gates: dedup,
        };
        garble_lang::compile_with_options(src, opts).map_err(|e| format!("{e:?}"))
    }))
}

pub fn job_program(job: &Sexp) -> String {
    let src = job.field("src").args()[0].text();
    let ninputs = job.try_field("rand").map(|f| f.args()[0].usize()).unwrap_or(8);
    let seed = job.try_field("seed").map(|f| f.args()[0].u64()).unwrap_or(1);
    let base = match compile_cfg(&src, false, true) {
        Err(_) => {
            // the checker accepted the program but the compiler panicked: export the typed AST so
            // that the model's re-checker can classify the tree
            let site = crate::last_panic();
            let ast = catch_unwind(AssertUnwindSafe(|| {
                let prg = garble_lang::check(&src).ok()?;
                let cs = HashMap::new();
                let mut ex = Exporter { prg: &prg, const_sizes: &cs, names: Interner::new() };
                Some(ex.program("main"))
            }));
            let ast = match ast {
                Ok(Some(a)) => format!(" (ast {a})"),
                _ => String::new(),
            };
            return format!("(compile crash {}){ast}", quote(site.as_bytes()));
        }
        Ok(Err(e)) => {
            let kind = if e.contains("TypeError") { "type" } else if e.contains("ParseError") { "parse" }
                       else if e.contains("ScanError") { "scan" } else { "compiler" };
            return format!("(compile (err {kind}))");
        }
        Ok(Ok(p)) => p,
    };
    // shape facts (C05)
    let (ig, nouts, validate) = match &base.circuit {
        CircuitType::Ssa(c) => (
            c.input_gates.clone(),
            c.output_gates.len(),
            match catch_unwind(AssertUnwindSafe(|| c.validate())) {
                Ok(Ok(())) => "ok".to_string(),
                Ok(Err(e)) => format!("(err {})", quote(format!("{e:?}").as_bytes())),
                Err(_) => "crash".into(),
            },
        ),
        _ => return "(compile not-ssa)".into(),
    };
    // exported AST
    let ast = catch_unwind(AssertUnwindSafe(|| {
        let mut ex = Exporter { prg: &base.program, const_sizes: &base.const_sizes, names: Interner::new() };
        let a = ex.program("main");
        let ret = ex.ty(&base.main.ty);
        let params: Vec<String> = base.main.params.iter().map(|p| ex.ty(&p.ty)).collect();
        (a, ret, params)
    }));
    let (ast, ret, params) = match ast {
        Ok(x) => x,
        Err(e) => {
            let msg = e.downcast_ref::<String>().cloned().unwrap_or_default();
            return format!("(compile ok) (export-failed {})", quote(msg.as_bytes()));
        }
    };
    // inputs: per parameter (for the model) and per party (for the circuits)
    let split = base.main.params.len() == 1
        && matches!(
            base.main.params[0].ty,
            Type::Array(_, _) | Type::ArrayConst(_, _) | Type::ArrayConstExpr(_, _)
        );
    let mut rng = Rng(seed.wrapping_mul(0x9E3779B97F4A7C15) | 1);
    let mut per_param: Vec<Vec<Vec<bool>>> = vec![];
    // replay: inputs given explicitly as (given ("bits of param 0" "bits of param 1" ..) ..)
    if let Some(g) = job.try_field("given") {
        for one in g.args() {
            per_param.push(one.list().iter().map(|s| s.text().bytes().map(|c| c == b'1').collect()).collect());
        }
    }
    let ninputs = if per_param.is_empty() { ninputs } else { 0 };
    for k in 0..ninputs {
        let mut one = vec![];
        for p in base.main.params.iter() {
            let mut bits = vec![];
            if k == 0 {
                let mut tmp = vec![];
                gen_value(&mut Rng(7), &base.program, &base.const_sizes, &p.ty, &mut tmp);
                bits = vec![false; tmp.len()];
            } else {
                gen_value(&mut rng, &base.program, &base.const_sizes, &p.ty, &mut bits);
            }
            one.push(bits);
        }
        per_param.push(one);
    }
    let to_parties = |one: &Vec<Vec<bool>>| -> Vec<Vec<bool>> {
        if split {
            let mut out = vec![];
            let mut pos = 0;
            for sz in ig.iter() {
                out.push(one[0][pos..pos + sz].to_vec());
                pos += sz;
            }
            out
        } else {
            one.clone()
        }
    };
    let mut runs = vec![];
    for (reg, dedup) in [(false, true), (false, false), (true, true), (true, false)] {
        let name = format!("{}-{}", if reg { "reg" } else { "ssa" }, if dedup { "dedup" } else { "nodedup" });
        let p = if !reg && dedup { Ok(Ok(base.clone())) } else { compile_cfg(&src, reg, dedup) };
        let p = match p {
            Ok(Ok(p)) => p,
            _ => {
                runs.push(format!("({name} compile-failed)"));
                continue;
            }
        };
        let mut rs = vec![];
        for one in per_param.iter() {
            let ins = to_parties(one);
            let out = catch_unwind(AssertUnwindSafe(|| match &p.circuit {
                CircuitType::Ssa(c) => c.eval(&ins),
                CircuitType::Register(c) => c.eval(&ins),
            }));
            rs.push(match out {
                Ok(bits) => decode_result(&bits),
                Err(_) => "crash".into(),
            });
        }
        runs.push(format!("({name} {})", rs.join(" ")));
    }
    let inss: Vec<String> = per_param
        .iter()
        .map(|one| format!("({})", one.iter().map(|b| format!("\"{}\"", bits_to_string(b))).collect::<Vec<_>>().join(" ")))
        .collect();
    format!(
        "(compile ok) (validate {validate}) (ig {}) (nouts {nouts}) (params {}) (ret {ret}) (inss {}) (runs {}) (ast {ast})",
        ig.iter().map(|n| n.to_string()).collect::<Vec<_>>().join(" "),
        params.join(" "),
        inss.join(" "),
        runs.join(" ")
    )
}


/// `lower` jobs (structural tie of coq/Compile/Lower.v): compile the source with the real compiler
/// (SSA, dedup on and off) and print both circuits together with the typed AST, identifiers interned
/// in rank order of their byte strings.
pub fn job_lower(job: &Sexp) -> String {
    let src = job.field("src").args()[0].text();
    let mut out = String::new();
    let mut base: Option<GarbleProgram> = None;
    for dedup in [true, false] {
        let name = if dedup { "dedup" } else { "nodedup" };
        match compile_cfg(&src, false, dedup) {
            Err(_) => return format!("(compile crash {})", quote(crate::last_panic().as_bytes())),
            Ok(Err(e)) => {
                let kind = if e.contains("TypeError") { "type" } else if e.contains("ParseError") { "parse" }
                           else if e.contains("ScanError") { "scan" } else if e.contains("ZeroSizedInputs") { "zero-sized-inputs" }
                           else { "compiler" };
                return format!("(compile (err {kind}))");
            }
            Ok(Ok(p)) => {
                match &p.circuit {
                    CircuitType::Ssa(c) => out.push_str(&format!(" ({name} {})", crate::circ::fmt_ssa(c))),
                    _ => return "(compile not-ssa)".into(),
                }
                if dedup {
                    base = Some(p);
                }
            }
        }
    }
    let base = base.unwrap();
    let ast = catch_unwind(AssertUnwindSafe(|| {
        let mut ex = Exporter { prg: &base.program, const_sizes: &base.const_sizes, names: Interner::new() };
        let _ = ex.program("main");
        let ranked = ex.names.ranked();
        let mut ex = Exporter { prg: &base.program, const_sizes: &base.const_sizes, names: ranked };
        ex.program("main")
    }));
    match ast {
        Ok(a) => format!("(compile ok){out} (ast {a})"),
        Err(e) => {
            let msg = e.downcast_ref::<String>().cloned().unwrap_or_default();
            format!("(compile ok) (export-failed {})", quote(msg.as_bytes()))
        }
    }
}

/// `tcheck` jobs (tie of coq/Check/Infer.v, the model of check.rs): the REAL checker's verdict on a program text and,
/// when it accepts, the typed AST it returns (exported as for `lower`, identifiers interned in rank order) together with
/// the intern table. `(tcheck id (src "text"))` -> `(accept (names "n0" ..) (ast ..))` | `(reject KIND)` | `(crash ..)` |
/// `(accept) (export-failed ..)`
pub fn job_tcheck(job: &Sexp) -> String {
    let src = job.field("src").args()[0].text();
    let r = catch_unwind(AssertUnwindSafe(|| garble_lang::check(&src)));
    let prg = match r {
        Err(_) => return format!("(crash {})", quote(crate::last_panic().as_bytes())),
        Ok(Err(e)) => {
            let e = format!("{e:?}");
            let kind = if e.contains("TypeError") { "type" } else if e.contains("ParseError") { "parse" }
                       else if e.contains("ScanError") { "scan" } else { "other" };
            return format!("(reject {kind})");
        }
        Ok(Ok(p)) => p,
    };
    let cs = HashMap::new();
    let out = catch_unwind(AssertUnwindSafe(|| {
        let mut ex = Exporter { prg: &prg, const_sizes: &cs, names: Interner::new() };
        let _ = ex.program("main");
        let ranked = ex.names.ranked();
        let table: Vec<String> = {
            let mut names: Vec<(&String, &usize)> = ranked.map.iter().collect();
            names.sort_by_key(|(_, i)| **i);
            names.iter().map(|(n, _)| quote(n.as_bytes())).collect()
        };
        let table = table.join(" ");
        let mut ex = Exporter { prg: &prg, const_sizes: &cs, names: ranked };
        (table, ex.program("main"))
    }));
    match out {
        Ok((t, a)) => format!("(accept (names {t}) (ast {a}))"),
        Err(e) => {
            let msg = e.downcast_ref::<String>().cloned().unwrap_or_default();
            format!("(accept) (export-failed {})", quote(msg.as_bytes()))
        }
    }
}
