//! `literal` jobs (C09): type definitions + a parameter type + a programmatic `Literal`
//! -> type-test verdict, encoded bits (or crash), decoded literal, printed text, parse of that
//! text, identity program run — all through the public API of garble_lang on the program
//! `struct.. enum.. pub fn main(x: T, pad: bool) -> T { x }` (the second parameter keeps a
//! top-level array parameter from being split into one party per element and keeps the
//! circuit evaluable when T is zero-sized).
//!
//! Names are N (rank among the identifier strings of the job, table `(names ..)`); the
//! printed literals use the same S-expression syntax as the job's `(lit ..)`.
use crate::sexp::*;
use garble_lang::ast::Type;
use garble_lang::eval::EvalError;
use garble_lang::literal::{Literal, VariantLiteral};
use garble_lang::token::{SignedNumType, UnsignedNumType};
use garble_lang::{GarbleProgram, compile};
use std::panic::{AssertUnwindSafe, catch_unwind};

struct Names(Vec<String>);

impl Names {
    fn get(&self, s: &Sexp) -> String {
        let i = s.usize();
        self.0.get(i).cloned().unwrap_or_else(|| format!("Unknown{i}"))
    }
    fn rank(&self, s: &str) -> String {
        match self.0.iter().position(|n| n == s) {
            Some(i) => i.to_string(),
            None => format!("?{s}"),
        }
    }
}

fn uty(s: &str) -> UnsignedNumType {
    match s {
        "usize" => UnsignedNumType::Usize,
        "u8" => UnsignedNumType::U8,
        "u16" => UnsignedNumType::U16,
        "u32" => UnsignedNumType::U32,
        "u64" => UnsignedNumType::U64,
        "uunspec" => UnsignedNumType::Unspecified,
        o => panic!("harness: bad unsigned type {o}"),
    }
}

fn sty(s: &str) -> SignedNumType {
    match s {
        "i8" => SignedNumType::I8,
        "i16" => SignedNumType::I16,
        "i32" => SignedNumType::I32,
        "i64" => SignedNumType::I64,
        "sunspec" => SignedNumType::Unspecified,
        o => panic!("harness: bad signed type {o}"),
    }
}

fn uty_name(u: &UnsignedNumType) -> &'static str {
    match u {
        UnsignedNumType::Usize => "usize",
        UnsignedNumType::U8 => "u8",
        UnsignedNumType::U16 => "u16",
        UnsignedNumType::U32 => "u32",
        UnsignedNumType::U64 => "u64",
        UnsignedNumType::Unspecified => "uunspec",
    }
}

fn sty_name(s: &SignedNumType) -> &'static str {
    match s {
        SignedNumType::I8 => "i8",
        SignedNumType::I16 => "i16",
        SignedNumType::I32 => "i32",
        SignedNumType::I64 => "i64",
        SignedNumType::Unspecified => "sunspec",
    }
}

/// type of the job -> garble source text
fn ty_text(t: &Sexp, names: &Names) -> String {
    match t {
        Sexp::Atom(a) => a.clone(),
        _ => match t.head() {
            "arr" => format!("[{}; {}]", ty_text(&t.args()[0], names), t.args()[1].atom()),
            "tup" => format!(
                "({})",
                t.args().iter().map(|x| ty_text(x, names)).collect::<Vec<_>>().join(", ")
            ),
            "st" | "en" => names.get(&t.args()[0]),
            h => panic!("harness: bad type {h}"),
        },
    }
}

fn program_text(job: &Sexp, names: &Names) -> String {
    let mut out = String::new();
    for d in job.field("defs").args() {
        let a = d.args();
        match d.head() {
            "struct" => {
                let mut fs: Vec<String> = a[1..]
                    .iter()
                    .map(|f| format!("{}: {}", names.get(&f.list()[0]), ty_text(&f.list()[1], names)))
                    .collect();
                // the job lists the fields as the typed program stores them (sorted by name);
                // with (revsrc) the source text declares them in the opposite order
                if job.try_field("revsrc").is_some() {
                    fs.reverse();
                }
                out.push_str(&format!("struct {} {{ {} }}\n", names.get(&a[0]), fs.join(", ")));
            }
            "enum" => {
                let vs: Vec<String> = a[1..]
                    .iter()
                    .map(|v| match v.head() {
                        "unit" => names.get(&v.args()[0]),
                        "tuple" => format!(
                            "{}({})",
                            names.get(&v.args()[0]),
                            v.args()[1..].iter().map(|x| ty_text(x, names)).collect::<Vec<_>>().join(", ")
                        ),
                        h => panic!("harness: bad variant {h}"),
                    })
                    .collect();
                out.push_str(&format!("enum {} {{ {} }}\n", names.get(&a[0]), vs.join(", ")));
            }
            h => panic!("harness: bad def {h}"),
        }
    }
    let t = ty_text(&job.field("ty").args()[0], names);
    out.push_str(&format!("pub fn main(x: {t}, pad: bool) -> {t} {{ x }}\n"));
    out
}

fn parse_lit(l: &Sexp, names: &Names) -> Literal {
    match l {
        Sexp::Atom(a) if a == "true" => Literal::True,
        Sexp::Atom(a) if a == "false" => Literal::False,
        _ => {
            let a = l.args();
            match l.head() {
                "u" => Literal::NumUnsigned(a[0].u64(), uty(a[1].atom())),
                "s" => Literal::NumSigned(a[0].i64(), sty(a[1].atom())),
                "rep" => Literal::ArrayRepeat(Box::new(parse_lit(&a[0], names)), a[1].usize()),
                "arr" => Literal::Array(a.iter().map(|x| parse_lit(x, names)).collect()),
                "tup" => Literal::Tuple(a.iter().map(|x| parse_lit(x, names)).collect()),
                "st" => Literal::Struct(
                    names.get(&a[0]),
                    a[1..]
                        .iter()
                        .map(|f| (names.get(&f.list()[0]), parse_lit(&f.list()[1], names)))
                        .collect(),
                ),
                "en" => {
                    let v = if a.len() == 2 {
                        VariantLiteral::Unit
                    } else {
                        VariantLiteral::Tuple(a[2].list().iter().map(|x| parse_lit(x, names)).collect())
                    };
                    Literal::Enum(names.get(&a[0]), names.get(&a[1]), v)
                }
                "range" => Literal::Range(a[0].u64(), a[1].u64(), uty(a[2].atom())),
                h => panic!("harness: bad literal {h}"),
            }
        }
    }
}

fn fmt_lit(l: &Literal, names: &Names) -> String {
    let list = |ls: &Vec<Literal>| ls.iter().map(|x| fmt_lit(x, names)).collect::<Vec<_>>().join(" ");
    match l {
        Literal::True => "true".into(),
        Literal::False => "false".into(),
        Literal::NumUnsigned(n, u) => format!("(u {n} {})", uty_name(u)),
        Literal::NumSigned(n, s) => format!("(s {n} {})", sty_name(s)),
        Literal::ArrayRepeat(e, n) => format!("(rep {} {n})", fmt_lit(e, names)),
        Literal::Array(es) => format!("(arr {})", list(es)).replace(" )", ")"),
        Literal::Tuple(es) => format!("(tup {})", list(es)).replace(" )", ")"),
        Literal::Struct(n, fs) => format!(
            "(st {} {})",
            names.rank(n),
            fs.iter()
                .map(|(f, v)| format!("({} {})", names.rank(f), fmt_lit(v, names)))
                .collect::<Vec<_>>()
                .join(" ")
        )
        .replace(" )", ")"),
        Literal::Enum(n, v, VariantLiteral::Unit) => format!("(en {} {})", names.rank(n), names.rank(v)),
        Literal::Enum(n, v, VariantLiteral::Tuple(es)) => {
            format!("(en {} {} ({}))", names.rank(n), names.rank(v), list(es))
        }
        Literal::Range(a, b, u) => format!("(range {a} {b} {})", uty_name(u)),
    }
}

fn fmt_decoded(r: std::thread::Result<Result<Literal, EvalError>>, names: &Names) -> String {
    match r {
        Err(_) => "crash".into(),
        Ok(Ok(l)) => fmt_lit(&l, names),
        Ok(Err(EvalError::OutputTypeMismatch { .. })) => "(err)".into(),
        Ok(Err(EvalError::Panic(_))) => "(err panic)".into(),
        Ok(Err(_)) => "(err other)".into(),
    }
}

fn fmt_bits(r: &std::thread::Result<Vec<bool>>) -> String {
    match r {
        Ok(b) => format!("\"{}\"", bits_to_string(b)),
        Err(_) => "crash".into(),
    }
}

/// `parse_arg(0, text)`: the parsed literal and its encoding
fn parse_text(prg: &GarbleProgram, text: &str, names: &Names) -> String {
    let r = catch_unwind(AssertUnwindSafe(|| {
        prg.parse_arg(0, text).map(|a| {
            let l = a.as_literal();
            let b = catch_unwind(AssertUnwindSafe(|| a.as_bits()));
            (l, b)
        })
    }));
    match r {
        Err(_) => "crash".into(),
        Ok(Err(_)) => "(err)".into(),
        Ok(Ok((l, b))) => format!("(ok {} {})", fmt_lit(&l, names), fmt_bits(&b)),
    }
}

pub fn job_literal(job: &Sexp) -> String {
    let names = Names(job.field("names").args().iter().map(|s| s.text()).collect());
    let text = program_text(job, &names);
    let prg = match catch_unwind(AssertUnwindSafe(|| compile(&text))) {
        Err(_) => return "(compile crash)".into(),
        Ok(Err(_)) => return "(compile error)".into(),
        Ok(Ok(p)) => p,
    };
    let ty: Type = prg.main.params[0].ty.clone();
    let lit = parse_lit(&job.field("lit").args()[0], &names);

    // -- the tied part: verdict, bits, decode
    let arg = catch_unwind(AssertUnwindSafe(|| prg.literal_arg(0, lit.clone())));
    let (accept, bits) = match &arg {
        Err(_) => ("crash".to_string(), None),
        Ok(Err(EvalError::InvalidLiteralType(_, _))) => ("false".to_string(), None),
        Ok(Err(_)) => ("(err other)".to_string(), None),
        Ok(Ok(a)) => ("true".to_string(), Some(catch_unwind(AssertUnwindSafe(|| a.as_bits())))),
    };
    let decode_of = |bits: &[bool]| {
        fmt_decoded(
            catch_unwind(AssertUnwindSafe(|| {
                Literal::from_unwrapped_bits(&prg.program, &ty, bits, &prg.const_sizes)
            })),
            &names,
        )
    };
    let bits_s = match &bits {
        None => "none".to_string(),
        Some(b) => fmt_bits(b),
    };
    let decode = match &bits {
        Some(Ok(b)) => decode_of(b),
        _ => "none".to_string(),
    };
    let mut out = format!("(accept {accept}) (bits {bits_s}) (decode {decode})");
    if let Some(d) = job.try_field("dbits") {
        let b = string_to_bits(d.args()[0].bytes());
        out.push_str(&format!(" (decode2 {})", decode_of(&b)));
    }

    // -- implementation-only observations for the oracle
    let mut rs = vec![];
    let shown = catch_unwind(AssertUnwindSafe(|| lit.to_string()));
    match &shown {
        Err(_) => rs.push("(text crash)".to_string()),
        Ok(t) => {
            rs.push(format!("(text {})", quote(t.as_bytes())));
            rs.push(format!("(parse {})", parse_text(&prg, t, &names)));
        }
    }
    if let Some(t) = job.try_field("text") {
        rs.push(format!("(ptext {})", parse_text(&prg, &t.args()[0].text(), &names)));
    }
    if let Some(Ok(b)) = &bits {
        // identity program on the encoded bits (second party: the padding bool)
        let r = catch_unwind(AssertUnwindSafe(|| {
            let o = prg.circuit.eval(&[b.clone(), vec![false]]);
            prg.parse_output(&o)
        }));
        rs.push(format!("(ident {})", fmt_decoded(r, &names)));
    }
    // Evaluator::{set_literal, run, into_literal}
    let ev = catch_unwind(AssertUnwindSafe(|| {
        let mut e = prg.evaluator();
        match e.set_literal(lit.clone()) {
            Err(EvalError::InvalidLiteralType(_, _)) => "refused".to_string(),
            Err(_) => "(err other)".to_string(),
            Ok(()) => {
                e.set_bool(false);
                match e.run() {
                    Err(_) => "(run err)".to_string(),
                    Ok(o) => fmt_decoded(Ok(o.into_literal()), &names),
                }
            }
        }
    }));
    rs.push(format!("(ev {})", ev.unwrap_or_else(|_| "crash".into())));
    // Evaluator::parse_literal on the printed text
    if let Ok(t) = &shown {
        let evp = catch_unwind(AssertUnwindSafe(|| {
            let mut e = prg.evaluator();
            match e.parse_literal(t) {
                Err(_) => "(err)".to_string(),
                Ok(()) => {
                    e.set_bool(false);
                    match e.run() {
                        Err(_) => "(run err)".to_string(),
                        Ok(o) => fmt_decoded(Ok(o.into_literal()), &names),
                    }
                }
            }
        }));
        rs.push(format!("(evp {})", evp.unwrap_or_else(|_| "crash".into())));
    }
    format!("{out} (rs {})", rs.join(" "))
}

/// `litapi` jobs (C09 scenarios around consts): a whole program text, optional external unsigned
/// constants `(ext "PARTY" "NAME" <uty> <n>)`, and argument texts `(arg <idx> "text")`. For each argument:
/// parse_arg -> as_bits -> (if it is the only `(arg ..)`) nothing more; all under catch_unwind.
/// Result per argument: `(err)`, `crash`, or `(ok "<printed literal>" <nbits>)`; then, when every
/// parameter got exactly one accepted argument in order, `(out "<printed result>")` of the circuit.
pub fn job_litapi(job: &Sexp) -> String {
    let src = job.field("src").args()[0].text();
    let mut consts: std::collections::HashMap<String, std::collections::HashMap<String, Literal>> =
        std::collections::HashMap::new();
    let mut has_ext = false;
    for f in job.list().iter().skip(2) {
        if f.head() == "ext" {
            has_ext = true;
            let a = f.args();
            consts
                .entry(a[0].text())
                .or_default()
                .insert(a[1].text(), Literal::NumUnsigned(a[3].text().parse().unwrap(), uty(a[2].atom())));
        }
    }
    let compiled = catch_unwind(AssertUnwindSafe(|| {
        if has_ext {
            garble_lang::compile_with_constants(&src, consts)
        } else {
            compile(&src)
        }
    }));
    let prg = match compiled {
        Err(_) => return "(compile crash)".into(),
        Ok(Err(_)) => return "(compile error)".into(),
        Ok(Ok(p)) => p,
    };
    let mut out = vec![];
    let mut inputs: Vec<Vec<bool>> = vec![];
    let mut complete = true;
    let mut next = 0usize;
    for f in job.list().iter().skip(2) {
        if f.head() != "arg" {
            continue;
        }
        let idx = f.args()[0].usize();
        let text = f.args()[1].text();
        let r = catch_unwind(AssertUnwindSafe(|| {
            prg.parse_arg(idx, &text).map(|a| {
                let shown = a.as_literal().to_string();
                (shown, a.as_bits())
            })
        }));
        match r {
            Err(_) => {
                complete = false;
                out.push("crash".to_string())
            }
            Ok(Err(_)) => {
                complete = false;
                out.push("(err)".to_string())
            }
            Ok(Ok((shown, bits))) => {
                out.push(format!("(ok {} {})", quote(shown.as_bytes()), bits.len()));
                if idx == next {
                    inputs.push(bits);
                    next += 1;
                } else {
                    complete = false;
                }
            }
        }
    }
    if complete && inputs.len() == prg.main.params.len() {
        let r = catch_unwind(AssertUnwindSafe(|| {
            let o = prg.circuit.eval(&inputs);
            prg.parse_output(&o).map(|l| l.to_string())
        }));
        out.push(match r {
            Err(_) => "(out crash)".to_string(),
            Ok(Err(_)) => "(out err)".to_string(),
            Ok(Ok(s)) => format!("(out {})", quote(s.as_bytes())),
        });
    }
    out.join(" ")
}

/// `parg` jobs (tie of coq/Check/LitParse.v, the model of lib.rs parse_arg / literal.rs Literal::parse):
/// `(parg id (src "<program>") (names "n0" "n1" ..) (arg i "text") ..)`; names = the identifiers of the program and of the
/// texts in rank order (the intern table both sides use). Result per argument: `(ok <literal>)`, `(err)` or `(crash)`.
pub fn job_parg(job: &Sexp) -> String {
    let src = job.field("src").args()[0].text();
    let names = Names(job.field("names").args().iter().map(|s| s.text()).collect());
    let prg = match catch_unwind(AssertUnwindSafe(|| compile(&src))) {
        Err(_) => return "(compile crash)".into(),
        Ok(Err(_)) => return "(compile error)".into(),
        Ok(Ok(p)) => p,
    };
    let mut out = vec![];
    for f in job.list().iter().skip(2) {
        if f.head() != "arg" {
            continue;
        }
        let idx = f.args()[0].usize();
        let text = f.args()[1].text();
        let r = catch_unwind(AssertUnwindSafe(|| prg.parse_arg(idx, &text).map(|a| a.as_literal())));
        out.push(match r {
            Err(_) => "(crash)".to_string(),
            Ok(Err(_)) => "(err)".to_string(),
            Ok(Ok(l)) => format!("(ok {})", fmt_lit(&l, &names)),
        });
    }
    out.join(" ")
}
