//! `sortnet` jobs (C13): sorting-network requests against the real CircuitBuilder gadgets
//! (push_gt_circuit / push_sorter / push_bitonic_merger / push_bitonic_sorter) through the hook.
//!
//! `(sortnet id (dedup d) (inputs n..) (elems (w..) (w..) ..) (ops op..) [(truth 1)])` with
//! `op ::= (gt bits i j) | (sorter bits i j) | (merger bits asc) | (bsorter bits)`.
//! Result: `(elems (w..)..) (extra w..) (circuit (ssa ..))` and, Rust side only, `(truth "..")`
//! (one column per element wire and extra wire, panic record skipped);
//! `crash` when the library panics (index out of range in the gadget or in the request).
use crate::builder::Handles;
use crate::circ::fmt_ssa;
use crate::sexp::*;
use garble_lang::verif_hooks::Builder;
use std::panic::{AssertUnwindSafe, catch_unwind};

fn run(job: &Sexp) -> String {
    let dedup = job.field("dedup").args()[0].atom() == "1";
    let inputs = job.field("inputs").usizes();
    let mut b = Builder::new(inputs, dedup);
    let h = Handles(vec![]);
    let mut v: Vec<Vec<usize>> = job.field("elems").args().iter().map(|e| h.wires(e)).collect();
    let mut extra: Vec<usize> = vec![];
    for op in job.field("ops").args() {
        let a = op.args();
        match op.head() {
            "gt" => {
                let (bits, i, j) = (a[0].usize(), a[1].usize(), a[2].usize());
                let (x, y) = (v[i].clone(), v[j].clone());
                extra.push(b.push_gt_circuit(bits, &x, &y));
            }
            "sorter" => {
                let (bits, i, j) = (a[0].usize(), a[1].usize(), a[2].usize());
                let (x, y) = (v[i].clone(), v[j].clone());
                let (mn, mx) = b.push_sorter(bits, &x, &y);
                v[i] = mn;
                v[j] = mx;
            }
            "merger" => b.push_bitonic_merger(a[0].usize(), a[1].atom() == "1", &mut v),
            "bsorter" => b.push_bitonic_sorter(a[0].usize(), &mut v),
            k => panic!("harness: unknown sortnet op {k}"),
        }
    }
    let mut outs: Vec<usize> = v.iter().flatten().copied().collect();
    outs.extend(extra.iter());
    let elems = v
        .iter()
        .map(|e| format!("({})", e.iter().map(|w| w.to_string()).collect::<Vec<_>>().join(" ")))
        .collect::<Vec<_>>()
        .join(" ");
    let ex = extra.iter().map(|w| format!(" {w}")).collect::<String>();
    let c = b.build(outs);
    let mut truth = String::new();
    if job.try_field("truth").is_some() {
        // column j = values of output j over all assignments k (bit i of the flat input is
        // (k >> (n-1-i)) & 1), as in `builder` jobs
        let n: usize = c.input_gates.iter().sum();
        let mut cols: Vec<String> = vec![String::new(); c.output_gates.len()];
        for k in 0..(1usize << n) {
            let mut ins = vec![];
            let mut pos = 0;
            for sz in c.input_gates.iter() {
                ins.push((0..*sz).map(|i| (k >> (n - 1 - (pos + i))) & 1 == 1).collect::<Vec<bool>>());
                pos += sz;
            }
            let out = c.eval(&ins);
            for (j, bit) in out.iter().enumerate() {
                cols[j].push(if *bit { '1' } else { '0' });
            }
        }
        // the first 161 outputs are the (constant) panic record: not part of this job kind
        truth = format!(" (truth {})", cols.iter().skip(161).map(|c| format!("\"{c}\"")).collect::<Vec<_>>().join(" "));
    }
    format!("(elems {elems}) (extra{ex}) (circuit {}){truth}", fmt_ssa(&c))
}

pub fn job_sortnet(job: &Sexp) -> String {
    match catch_unwind(AssertUnwindSafe(|| run(job))) {
        Ok(s) => s,
        Err(_) => "crash".into(),
    }
}
