//! C03 operator-level SEARCH (testing, not proof): compiles a one-operator program with the
//! real compiler, evaluates the resulting circuit(s) on the requested operand tuples and
//! compares every result, inside the harness, with Rust's own `checked_*` / `as` semantics.
//!
//! Job:
//!   (opprog <id> (src "<program>") (dedup 0|1) (reg 0|1|2)
//!           (tys T U R) (op <name>) (shape vv|vc|cv|un|cast) (lit <decimal>|none)
//!           (mode all|list) (xs v...) (ys v...) (pairs (x y)...) (maxrep K))
//!   T/U = type of the left/right operand, R = result type (`-` where there is none);
//!   types: bool u8 u16 u32 u64 usize(=32 bits) i8 i16 i32 i64.
//!   op: add sub mul div rem and or xor shl shr lt gt le ge eq ne | neg not | cast.
//!   shape vv: main(x: T, y: U) { x op y }; vc: main(x: T) { x op LIT }; cv: main(x: U)
//!   { LIT op x }; un: main(x: T) { op x }; cast: main(x: T) -> R { x as R }.
//!   reg 0 = SSA circuit only, 1 = register circuit only, 2 = both (one compilation).
//!   mode all: every value of the variable type(s) (every pair for vv); mode list: the
//!   cross product xs x ys (vv) or xs (other shapes), plus the explicit pairs.
//! Result: `(gates G) (ssa R) (reg R)` with R = `(ok N)` or
//!   `(bad NBAD N (mismatch (x X) (y Y) (got G) (want W))...)` (at most K mismatches listed),
//!   G/W = `value V` | `panic Overflow|DivByZero|OutOfBounds|reason-N` | `crash` | `len N`
//!   | `either V Overflow`; or `(compile-error "...")`, `(compile-crash)`.
use crate::sexp::*;
use garble_lang::circuit_type::CircuitType;
use garble_lang::literal::Literal;
use garble_lang::{CircuitKind, CompileOptions, GarbleProgram};
use std::panic::{AssertUnwindSafe, catch_unwind};

#[derive(Clone, Copy, PartialEq, Eq, Debug)]
struct Ty {
    name: &'static str,
    bits: u32,
    signed: bool,
    boolean: bool,
}

const TYS: [Ty; 10] = [
    Ty { name: "bool", bits: 1, signed: false, boolean: true },
    Ty { name: "u8", bits: 8, signed: false, boolean: false },
    Ty { name: "u16", bits: 16, signed: false, boolean: false },
    Ty { name: "u32", bits: 32, signed: false, boolean: false },
    Ty { name: "u64", bits: 64, signed: false, boolean: false },
    Ty { name: "usize", bits: 32, signed: false, boolean: false },
    Ty { name: "i8", bits: 8, signed: true, boolean: false },
    Ty { name: "i16", bits: 16, signed: true, boolean: false },
    Ty { name: "i32", bits: 32, signed: true, boolean: false },
    Ty { name: "i64", bits: 64, signed: true, boolean: false },
];

fn parse_ty(s: &str) -> Option<Ty> {
    TYS.iter().copied().find(|t| t.name == s)
}

impl Ty {
    fn min(&self) -> i128 {
        if self.signed { -(1i128 << (self.bits - 1)) } else { 0 }
    }
    fn max(&self) -> i128 {
        if self.signed { (1i128 << (self.bits - 1)) - 1 } else { (1i128 << self.bits) - 1 }
    }
    fn contains(&self, v: i128) -> bool {
        self.min() <= v && v <= self.max()
    }
    /// the value whose two's-complement pattern is the low `bits` bits of `v`
    fn wrap(&self, v: i128) -> i128 {
        let m = (1i128 << self.bits) - 1;
        let p = v & m;
        if self.signed && (p >> (self.bits - 1)) & 1 == 1 { p - (1i128 << self.bits) } else { p }
    }
    fn encode(&self, v: i128) -> Vec<bool> {
        (0..self.bits).rev().map(|i| (v >> i) & 1 == 1).collect()
    }
    fn decode(&self, bits: &[bool]) -> i128 {
        let mut p: i128 = 0;
        for b in bits {
            p = (p << 1) | (*b as i128);
        }
        self.wrap(p)
    }
}

#[derive(Clone, Copy, PartialEq, Eq, Debug)]
enum Reason {
    Overflow,
    DivByZero,
    OutOfBounds,
    Other(u64),
}

#[derive(Clone, Copy, PartialEq, Eq, Debug)]
enum Want {
    Val(i128),
    Panic(Reason),
    /// `MIN % -1`: the exact value (0) or an Overflow panic
    Either(i128, Reason),
}

#[derive(Clone, Copy, PartialEq, Eq, Debug)]
enum Got {
    Val(i128),
    Panic(Reason),
    Crash,
    Len(usize),
}

fn accepts(w: Want, g: Got) -> bool {
    match (w, g) {
        (Want::Val(a), Got::Val(b)) => a == b,
        (Want::Panic(a), Got::Panic(b)) => a == b,
        (Want::Either(a, _), Got::Val(b)) => a == b,
        (Want::Either(_, a), Got::Panic(b)) => a == b,
        _ => false,
    }
}

fn fmt_reason(r: Reason) -> String {
    match r {
        Reason::Overflow => "Overflow".into(),
        Reason::DivByZero => "DivByZero".into(),
        Reason::OutOfBounds => "OutOfBounds".into(),
        Reason::Other(n) => format!("reason-{n}"),
    }
}

fn fmt_want(w: Want) -> String {
    match w {
        Want::Val(v) => format!("value {v}"),
        Want::Panic(r) => format!("panic {}", fmt_reason(r)),
        Want::Either(v, r) => format!("either {v} {}", fmt_reason(r)),
    }
}

fn fmt_got(g: Got) -> String {
    match g {
        Got::Val(v) => format!("value {v}"),
        Got::Panic(r) => format!("panic {}", fmt_reason(r)),
        Got::Crash => "crash".into(),
        Got::Len(n) => format!("len {n}"),
    }
}

// ------------------------------------------------------------------ oracle 1: Rust's own operators

fn opt<T: Into<i128>>(o: Option<T>) -> Want {
    match o {
        Some(v) => Want::Val(v.into()),
        None => Want::Panic(Reason::Overflow),
    }
}

/// `a op b` in the native Rust type `$t` (operands are in range, so `as` is exact);
/// `b` of a shift is the `u8` amount.
macro_rules! native_bin {
    ($t:ty, $op:expr, $a:expr, $b:expr) => {{
        let a = $a as $t;
        match $op {
            "shl" => opt(a.checked_shl($b as u8 as u32)),
            "shr" => opt(a.checked_shr($b as u8 as u32)),
            op => {
                let b = $b as $t;
                match op {
                    "add" => opt(a.checked_add(b)),
                    "sub" => opt(a.checked_sub(b)),
                    "mul" => opt(a.checked_mul(b)),
                    "div" => {
                        if b == 0 { Want::Panic(Reason::DivByZero) } else { opt(a.checked_div(b)) }
                    }
                    "rem" => {
                        if b == 0 {
                            Want::Panic(Reason::DivByZero)
                        } else {
                            match a.checked_rem(b) {
                                Some(v) => Want::Val(v as i128),
                                None => Want::Either(0, Reason::Overflow),
                            }
                        }
                    }
                    "and" => Want::Val((a & b) as i128),
                    "or" => Want::Val((a | b) as i128),
                    "xor" => Want::Val((a ^ b) as i128),
                    "lt" => Want::Val((a < b) as i128),
                    "gt" => Want::Val((a > b) as i128),
                    "le" => Want::Val((a <= b) as i128),
                    "ge" => Want::Val((a >= b) as i128),
                    "eq" => Want::Val((a == b) as i128),
                    "ne" => Want::Val((a != b) as i128),
                    o => panic!("harness: unknown binary operator {o}"),
                }
            }
        }
    }};
}

fn native_binary(op: &str, t: Ty, a: i128, b: i128) -> Want {
    if t.boolean {
        let (a, b) = (a != 0, b != 0);
        return Want::Val(match op {
            "and" => a & b,
            "or" => a | b,
            "xor" => a ^ b,
            "eq" => a == b,
            "ne" => a != b,
            o => panic!("harness: operator {o} on bool"),
        } as i128);
    }
    match t.name {
        "u8" => native_bin!(u8, op, a, b),
        "u16" => native_bin!(u16, op, a, b),
        "u32" | "usize" => native_bin!(u32, op, a, b),
        "u64" => native_bin!(u64, op, a, b),
        "i8" => native_bin!(i8, op, a, b),
        "i16" => native_bin!(i16, op, a, b),
        "i32" => native_bin!(i32, op, a, b),
        "i64" => native_bin!(i64, op, a, b),
        n => panic!("harness: type {n}"),
    }
}

macro_rules! native_un_signed {
    ($t:ty, $op:expr, $a:expr) => {{
        let a = $a as $t;
        match $op {
            "neg" => opt(a.checked_neg()),
            "not" => Want::Val((!a) as i128),
            o => panic!("harness: unknown unary operator {o}"),
        }
    }};
}
macro_rules! native_un_unsigned {
    ($t:ty, $op:expr, $a:expr) => {{
        let a = $a as $t;
        match $op {
            "not" => Want::Val((!a) as i128),
            "neg" => opt(a.checked_neg()),
            o => panic!("harness: unknown unary operator {o}"),
        }
    }};
}

fn native_unary(op: &str, t: Ty, a: i128) -> Want {
    if t.boolean {
        assert_eq!(op, "not");
        return Want::Val((a == 0) as i128);
    }
    match t.name {
        "u8" => native_un_unsigned!(u8, op, a),
        "u16" => native_un_unsigned!(u16, op, a),
        "u32" | "usize" => native_un_unsigned!(u32, op, a),
        "u64" => native_un_unsigned!(u64, op, a),
        "i8" => native_un_signed!(i8, op, a),
        "i16" => native_un_signed!(i16, op, a),
        "i32" => native_un_signed!(i32, op, a),
        "i64" => native_un_signed!(i64, op, a),
        n => panic!("harness: type {n}"),
    }
}

macro_rules! cast_to {
    ($v:expr, $to:expr) => {
        match $to.name {
            "u8" => ($v as u8) as i128,
            "u16" => ($v as u16) as i128,
            "u32" | "usize" => ($v as u32) as i128,
            "u64" => ($v as u64) as i128,
            "i8" => ($v as i8) as i128,
            "i16" => ($v as i16) as i128,
            "i32" => ($v as i32) as i128,
            "i64" => ($v as i64) as i128,
            n => panic!("harness: type {n}"),
        }
    };
}

/// Rust's `as` (DESIGN §7: `int as bool`, not valid Rust, = the low bit; usize = u32).
fn native_cast(from: Ty, to: Ty, a: i128) -> Want {
    if to.boolean {
        return Want::Val(a & 1);
    }
    Want::Val(match from.name {
        "bool" => {
            let v = a != 0;
            cast_to!(v, to)
        }
        "u8" => cast_to!(a as u8, to),
        "u16" => cast_to!(a as u16, to),
        "u32" | "usize" => cast_to!(a as u32, to),
        "u64" => cast_to!(a as u64, to),
        "i8" => cast_to!(a as i8, to),
        "i16" => cast_to!(a as i16, to),
        "i32" => cast_to!(a as i32, to),
        "i64" => cast_to!(a as i64, to),
        n => panic!("harness: type {n}"),
    })
}

// ------------------------------------------------------------------ oracle 2: exact integers

fn ranged(t: Ty, v: Option<i128>) -> Want {
    match v {
        Some(v) if t.contains(v) => Want::Val(v),
        _ => Want::Panic(Reason::Overflow),
    }
}

/// the property's wording: the mathematically exact result when representable, else a panic
fn exact_binary(op: &str, t: Ty, a: i128, b: i128) -> Want {
    match op {
        "add" => ranged(t, a.checked_add(b)),
        "sub" => ranged(t, a.checked_sub(b)),
        "mul" => ranged(t, a.checked_mul(b)),
        "div" if b == 0 => Want::Panic(Reason::DivByZero),
        "rem" if b == 0 => Want::Panic(Reason::DivByZero),
        "div" => ranged(t, Some(a / b)),
        "rem" => {
            if t.signed && a == t.min() && b == -1 {
                Want::Either(0, Reason::Overflow)
            } else {
                Want::Val(a % b)
            }
        }
        "and" => Want::Val(a & b),
        "or" => Want::Val(a | b),
        "xor" => Want::Val(a ^ b),
        "shl" | "shr" => {
            if b >= t.bits as i128 {
                Want::Panic(Reason::Overflow)
            } else if op == "shl" {
                Want::Val(t.wrap(a << b))
            } else {
                Want::Val(a >> b)
            }
        }
        "lt" => Want::Val((a < b) as i128),
        "gt" => Want::Val((a > b) as i128),
        "le" => Want::Val((a <= b) as i128),
        "ge" => Want::Val((a >= b) as i128),
        "eq" => Want::Val((a == b) as i128),
        "ne" => Want::Val((a != b) as i128),
        o => panic!("harness: unknown binary operator {o}"),
    }
}

fn exact_unary(op: &str, t: Ty, a: i128) -> Want {
    match op {
        "neg" => ranged(t, Some(-a)),
        "not" if t.boolean => Want::Val(1 - a),
        "not" => Want::Val(t.wrap(!a)),
        o => panic!("harness: unknown unary operator {o}"),
    }
}

fn exact_cast(from: Ty, to: Ty, a: i128) -> Want {
    let _ = from;
    if to.boolean { Want::Val(a & 1) } else { Want::Val(to.wrap(a)) }
}

// ------------------------------------------------------------------ the job

struct Spec {
    t: Ty,
    u: Option<Ty>,
    r: Ty,
    op: String,
    shape: String,
    lit: Option<i128>,
}

impl Spec {
    /// expectation for the variable values (x, y) (y unused unless shape vv)
    fn want(&self, x: i128, y: i128) -> Want {
        let (w1, w2) = match self.shape.as_str() {
            "vv" | "vc" | "cv" => {
                let (a, b) = match self.shape.as_str() {
                    "vv" => (x, y),
                    "vc" => (x, self.lit.unwrap()),
                    _ => (self.lit.unwrap(), x),
                };
                (native_binary(&self.op, self.t, a, b), exact_binary(&self.op, self.t, a, b))
            }
            "un" => (native_unary(&self.op, self.t, x), exact_unary(&self.op, self.t, x)),
            "cast" => (native_cast(self.t, self.r, x), exact_cast(self.t, self.r, x)),
            s => panic!("harness: shape {s}"),
        };
        if w1 != w2 {
            panic!(
                "harness: oracle self-check failed: {} {} {} {x} {y}: native {w1:?} exact {w2:?}",
                self.op, self.shape, self.t.name
            );
        }
        w1
    }
    /// (type of variable x, type of variable y if any)
    fn var_tys(&self) -> (Ty, Option<Ty>) {
        match self.shape.as_str() {
            "vv" => (self.t, Some(self.u.unwrap())),
            "cv" => (self.u.unwrap(), None),
            _ => (self.t, None),
        }
    }
}

fn decode(out: &[bool], r: Ty) -> Got {
    const REC: usize = 161;
    if out.len() != REC + r.bits as usize {
        return Got::Len(out.len());
    }
    if out[0] {
        let mut n: u64 = 0;
        for b in &out[1..33] {
            n = (n << 1) | (*b as u64);
        }
        Got::Panic(match n {
            1 => Reason::Overflow,
            2 => Reason::DivByZero,
            3 => Reason::OutOfBounds,
            n => Reason::Other(n),
        })
    } else {
        Got::Val(r.decode(&out[REC..]))
    }
}

/// the crate's own decoder, used as a cross-check of `decode` on a few tuples per job
fn decode_official(p: &GarbleProgram, out: &[bool]) -> Option<Got> {
    match catch_unwind(AssertUnwindSafe(|| p.parse_output(out))) {
        Ok(Ok(Literal::True)) => Some(Got::Val(1)),
        Ok(Ok(Literal::False)) => Some(Got::Val(0)),
        Ok(Ok(Literal::NumUnsigned(n, _))) => Some(Got::Val(n as i128)),
        Ok(Ok(Literal::NumSigned(n, _))) => Some(Got::Val(n as i128)),
        Ok(Err(garble_lang::eval::EvalError::Panic(e))) => {
            use garble_lang::circuit::PanicReason as P;
            Some(Got::Panic(match e.reason {
                P::Overflow => Reason::Overflow,
                P::DivByZero => Reason::DivByZero,
                P::OutOfBounds => Reason::OutOfBounds,
            }))
        }
        _ => None,
    }
}

fn num(s: &Sexp) -> i128 {
    s.atom().parse::<i128>().unwrap_or_else(|_| panic!("harness: bad number {s:?}"))
}

fn all_values(t: Ty) -> Vec<i128> {
    assert!(t.bits <= 16, "harness: mode all needs a type of at most 16 bits");
    (t.min()..=t.max()).collect()
}

struct FormResult {
    n: usize,
    bad: usize,
    shown: Vec<String>,
}

impl FormResult {
    fn fmt(&self) -> String {
        if self.bad == 0 {
            format!("(ok {})", self.n)
        } else {
            format!("(bad {} {} {})", self.bad, self.n, self.shown.join(" "))
        }
    }
}

pub fn job_opprog(job: &Sexp) -> String {
    let src = job.field("src").args()[0].text();
    let dedup = job.field("dedup").args()[0].atom() == "1";
    let reg = job.field("reg").args()[0].usize();
    let tys = job.field("tys").args();
    let ty = |s: &Sexp| parse_ty(s.atom());
    let spec = Spec {
        t: ty(&tys[0]).expect("harness: operand type"),
        u: ty(&tys[1]),
        r: ty(&tys[2]).expect("harness: result type"),
        op: job.field("op").args()[0].atom().to_string(),
        shape: job.field("shape").args()[0].atom().to_string(),
        lit: match job.try_field("lit").map(|f| f.args()[0].atom()) {
            None | Some("none") => None,
            Some(s) => Some(s.parse::<i128>().expect("harness: literal")),
        },
    };
    let maxrep = job.try_field("maxrep").map(|f| f.args()[0].usize()).unwrap_or(300);
    let mode = job.field("mode").args()[0].atom().to_string();
    let (tx, ty_) = spec.var_tys();

    // operand tuples (y = 0 where the program has one variable)
    let mut tuples: Vec<(i128, i128)> = vec![];
    match mode.as_str() {
        "all" => {
            let xs = all_values(tx);
            match ty_ {
                Some(ty_) => {
                    let ys = all_values(ty_);
                    assert!(xs.len() * ys.len() <= 1 << 24, "harness: mode all too large");
                    for &x in &xs {
                        for &y in &ys {
                            tuples.push((x, y));
                        }
                    }
                }
                None => tuples.extend(xs.iter().map(|&x| (x, 0))),
            }
        }
        "list" => {
            let xs: Vec<i128> =
                job.try_field("xs").map(|f| f.args().iter().map(num).collect()).unwrap_or_default();
            match ty_ {
                Some(_) => {
                    let ys: Vec<i128> = job
                        .try_field("ys")
                        .map(|f| f.args().iter().map(num).collect())
                        .unwrap_or_default();
                    for &x in &xs {
                        for &y in &ys {
                            tuples.push((x, y));
                        }
                    }
                    if let Some(f) = job.try_field("pairs") {
                        for p in f.args() {
                            let l = p.list();
                            tuples.push((num(&l[0]), num(&l[1])));
                        }
                    }
                }
                None => tuples.extend(xs.iter().map(|&x| (x, 0))),
            }
        }
        m => panic!("harness: mode {m}"),
    }
    for &(x, y) in &tuples {
        assert!(tx.contains(x), "harness: operand {x} outside {}", tx.name);
        if let Some(t) = ty_ {
            assert!(t.contains(y), "harness: operand {y} outside {}", t.name);
        }
    }
    if let Some(l) = spec.lit {
        let lt = if spec.shape == "vc" { spec.u.unwrap_or(spec.t) } else { spec.t };
        assert!(lt.contains(l), "harness: literal {l} outside {}", lt.name);
    }

    let opts = CompileOptions {
        circuit_kind: CircuitKind::Ssa,
        consts: Default::default(),
        optimize_duplicate_gates: dedup,
    };
    let mut prog = match catch_unwind(AssertUnwindSafe(|| garble_lang::compile_with_options(&src, opts)))
    {
        Err(_) => return "(compile-crash)".into(),
        Ok(Err(e)) => {
            use garble_lang::CompileTimeError as C;
            let msg = match &e {
                garble_lang::Error::CompileTimeError(C::ScanErrors(_)) => "scan".to_string(),
                garble_lang::Error::CompileTimeError(C::ParseError(_)) => "parse".to_string(),
                garble_lang::Error::CompileTimeError(C::TypeError(_)) => "type".to_string(),
                other => format!("{other:?}").chars().take(80).collect(),
            };
            return format!("(compile-error {})", quote(msg.as_bytes()));
        }
        Ok(Ok(p)) => p,
    };
    let gates = match &prog.circuit {
        CircuitType::Ssa(c) => c.gates.len(),
        CircuitType::Register(c) => c.insts.len(),
    };

    let mut out = format!("(gates {gates})");
    let forms: &[&str] = match reg {
        0 => &["ssa"],
        1 => &["reg"],
        _ => &["ssa", "reg"],
    };
    for form in forms {
        if *form == "reg" {
            if catch_unwind(AssertUnwindSafe(|| prog.circuit.to_register())).is_err() {
                out.push_str(" (reg (convert-crash))");
                continue;
            }
        }
        let mut fr = FormResult { n: 0, bad: 0, shown: vec![] };
        for (k, &(x, y)) in tuples.iter().enumerate() {
            let mut ins = vec![tx.encode(x)];
            if let Some(t) = ty_ {
                ins.push(t.encode(y));
            }
            let want = spec.want(x, y);
            let got = match catch_unwind(AssertUnwindSafe(|| prog.circuit.eval(&ins))) {
                Err(_) => Got::Crash,
                Ok(bits) => {
                    let g = decode(&bits, spec.r);
                    if k < 4 || k + 1 == tuples.len() {
                        if let Some(g2) = decode_official(&prog, &bits) {
                            // unsigned 64-bit values print identically; signed come as i64
                            assert!(
                                g2 == g,
                                "harness: hand decoder {g:?} differs from parse_output {g2:?}"
                            );
                        }
                    }
                    g
                }
            };
            fr.n += 1;
            if !accepts(want, got) {
                fr.bad += 1;
                if fr.shown.len() < maxrep {
                    let ys = if ty_.is_some() { format!(" (y {y})") } else { String::new() };
                    fr.shown.push(format!(
                        "(mismatch (x {x}){ys} (got {}) (want {}))",
                        fmt_got(got),
                        fmt_want(want)
                    ));
                }
            }
        }
        out.push_str(&format!(" ({form} {})", fr.fmt()));
    }
    out
}
