//! `exhaust` jobs (property C08): one program text containing one `match` in `main`.
//!
//! `(exhaust <id> (src "<program>") (vals <value>...) ...model-only fields...)`
//!
//! Result payload (must be textually identical to the model runner's, except for the
//! `(missing ..)` field which only the real code can produce):
//!   `(pats <pattern>...)`   the arms' patterns as the *parser* produced them (untyped AST)
//!   `(verdict accepted | nonexh | (err scan|parse|type|compile) | crash)`
//!   `(missing (w <pattern>...)...)`  the witnesses of PatternsAreNotExhaustive, sorted
//!   `(run (<k> <b>)|(panic)|(evalerr)|crash ...)` circuit result per scrutinee value
//!
//! Pattern syntax: `(var x) (b 0|1) (nu n) (ns n) (ru lo hi) (rs lo hi) (tup p..)
//! (st S 0|1 (f p)..) (eu E V) (et E V p..)`.
//! Value syntax: `(b 0|1) (n <numtype> z) (tup v..) (st S (f v)..) (eu E V) (et E V v..)`.
use crate::sexp::*;
use garble_lang::ast::{ExprEnum, Pattern, PatternEnum, StmtEnum};
use garble_lang::check::TypeErrorEnum;
use garble_lang::literal::{Literal, VariantLiteral};
use garble_lang::token::{SignedNumType, UnsignedNumType};
use garble_lang::{CompileTimeError, Error};
use std::panic::{catch_unwind, AssertUnwindSafe};

pub fn pat_sx<T>(p: &Pattern<T>) -> String {
    match &p.0 {
        PatternEnum::Identifier(s) => format!("(var {s})"),
        PatternEnum::True => "(b 1)".to_string(),
        PatternEnum::False => "(b 0)".to_string(),
        PatternEnum::NumUnsigned(n, _) => format!("(nu {n})"),
        PatternEnum::NumSigned(n, _) => format!("(ns {n})"),
        PatternEnum::UnsignedInclusiveRange(a, b, _) => format!("(ru {a} {b})"),
        PatternEnum::SignedInclusiveRange(a, b, _) => format!("(rs {a} {b})"),
        PatternEnum::Tuple(ps) => {
            let mut s = String::from("(tup");
            for p in ps {
                s.push(' ');
                s.push_str(&pat_sx(p));
            }
            s.push(')');
            s
        }
        PatternEnum::Struct(n, fs) | PatternEnum::StructIgnoreRemaining(n, fs) => {
            let rest = matches!(&p.0, PatternEnum::StructIgnoreRemaining(_, _));
            let mut s = format!("(st {n} {}", if rest { 1 } else { 0 });
            for (f, p) in fs {
                s.push_str(&format!(" ({f} {})", pat_sx(p)));
            }
            s.push(')');
            s
        }
        PatternEnum::EnumUnit(e, v) => format!("(eu {e} {v})"),
        PatternEnum::EnumTuple(e, v, ps) => {
            let mut s = format!("(et {e} {v}");
            for p in ps {
                s.push(' ');
                s.push_str(&pat_sx(p));
            }
            s.push(')');
            s
        }
    }
}

fn lit_of(v: &Sexp) -> Literal {
    let l = v.list();
    match v.head() {
        "b" => {
            if l[1].atom() == "1" {
                Literal::True
            } else {
                Literal::False
            }
        }
        "n" => match l[1].atom() {
            "u8" => Literal::NumUnsigned(l[2].u64(), UnsignedNumType::U8),
            "u16" => Literal::NumUnsigned(l[2].u64(), UnsignedNumType::U16),
            "u32" => Literal::NumUnsigned(l[2].u64(), UnsignedNumType::U32),
            "u64" => Literal::NumUnsigned(l[2].u64(), UnsignedNumType::U64),
            "usize" => Literal::NumUnsigned(l[2].u64(), UnsignedNumType::Usize),
            "i8" => Literal::NumSigned(l[2].i64(), SignedNumType::I8),
            "i16" => Literal::NumSigned(l[2].i64(), SignedNumType::I16),
            "i32" => Literal::NumSigned(l[2].i64(), SignedNumType::I32),
            "i64" => Literal::NumSigned(l[2].i64(), SignedNumType::I64),
            t => panic!("harness: bad num type {t}"),
        },
        "tup" => Literal::Tuple(l[1..].iter().map(lit_of).collect()),
        "st" => Literal::Struct(
            l[1].atom().to_string(),
            l[2..]
                .iter()
                .map(|f| (f.list()[0].atom().to_string(), lit_of(&f.list()[1])))
                .collect(),
        ),
        "eu" => Literal::Enum(
            l[1].atom().to_string(),
            l[2].atom().to_string(),
            VariantLiteral::Unit,
        ),
        "et" => Literal::Enum(
            l[1].atom().to_string(),
            l[2].atom().to_string(),
            VariantLiteral::Tuple(l[3..].iter().map(lit_of).collect()),
        ),
        h => panic!("harness: bad value head {h}"),
    }
}

fn out_sx(l: &Literal) -> String {
    match l {
        Literal::Tuple(fs) if fs.len() == 2 => match (&fs[0], &fs[1]) {
            (Literal::NumUnsigned(k, _), Literal::NumUnsigned(b, _)) => format!("({k} {b})"),
            _ => format!("(other {})", quote(format!("{l}").as_bytes())),
        },
        _ => format!("(other {})", quote(format!("{l}").as_bytes())),
    }
}

/// the patterns of the (single) match that is the last statement of `main`, from the
/// untyped AST (what the parser produced)
fn parsed_pats(src: &str) -> String {
    let r = catch_unwind(AssertUnwindSafe(|| {
        let toks = match garble_lang::scan::scan(src) {
            Ok(t) => t,
            Err(_) => return "(pats scan-error)".to_string(),
        };
        let prg = match toks.parse() {
            Ok(p) => p,
            Err(_) => return "(pats parse-error)".to_string(),
        };
        let Some(main) = prg.fn_defs.get("main") else {
            return "(pats no-main)".to_string();
        };
        let Some(last) = main.body.last() else {
            return "(pats no-match)".to_string();
        };
        if let StmtEnum::Expr(e) = &last.inner {
            if let ExprEnum::Match(_, clauses) = &e.inner {
                let mut s = String::from("(pats");
                for (p, _) in clauses {
                    s.push(' ');
                    s.push_str(&pat_sx(p));
                }
                s.push(')');
                return s;
            }
        }
        "(pats no-match)".to_string()
    }));
    r.unwrap_or_else(|_| "(pats crash)".to_string())
}

static LAST_PANIC: std::sync::Mutex<String> = std::sync::Mutex::new(String::new());

/// runs `f` under catch_unwind and records the panic site (`file:line`) of the real code
fn guarded<R>(f: impl FnOnce() -> R) -> Result<R, String> {
    let old = std::panic::take_hook();
    std::panic::set_hook(Box::new(|info| {
        let loc = info
            .location()
            .map(|l| {
                let f = l.file();
                let f = f.rsplit('/').next().unwrap_or(f);
                format!("{f}:{}", l.line())
            })
            .unwrap_or_default();
        *LAST_PANIC.lock().unwrap() = loc;
    }));
    let r = catch_unwind(AssertUnwindSafe(f));
    std::panic::set_hook(old);
    r.map_err(|_| LAST_PANIC.lock().unwrap().clone())
}

pub fn job_exhaust(job: &Sexp) -> String {
    let src = job.field("src").list()[1].text();
    let vals: Vec<Sexp> = job.field("vals").args().to_vec();
    let pats = parsed_pats(&src);
    let checked = guarded(|| garble_lang::check(&src));
    let mut missing = String::new();
    let verdict = match &checked {
        Err(site) => format!("(crash {site})"),
        Ok(Ok(_)) => "accepted".to_string(),
        Ok(Err(Error::CompileTimeError(CompileTimeError::ScanErrors(_)))) => "(err scan)".to_string(),
        Ok(Err(Error::CompileTimeError(CompileTimeError::ParseError(_)))) => "(err parse)".to_string(),
        Ok(Err(Error::CompileTimeError(CompileTimeError::TypeError(errs)))) => {
            let mut ws: Vec<String> = vec![];
            let mut nonexh = false;
            let mut other = false;
            for e in errs.iter() {
                match &*e.0 {
                    TypeErrorEnum::PatternsAreNotExhaustive(stacks) => {
                        nonexh = true;
                        for st in stacks.iter() {
                            let mut s = String::from("(w");
                            for p in st.iter() {
                                s.push(' ');
                                s.push_str(&pat_sx(p));
                            }
                            s.push(')');
                            ws.push(s);
                        }
                    }
                    _ => other = true,
                }
            }
            ws.sort();
            if other {
                "(err type)".to_string()
            } else if nonexh {
                missing = format!(" (missing {})", ws.join(" "));
                "nonexh".to_string()
            } else {
                "(err type)".to_string()
            }
        }
        Ok(Err(_)) => "(err compile)".to_string(),
    };
    let mut run = String::from("(run");
    if verdict == "accepted" {
        let compiled = catch_unwind(AssertUnwindSafe(|| garble_lang::compile(&src)));
        match compiled {
            Ok(Ok(prg)) => {
                for v in &vals {
                    let r = catch_unwind(AssertUnwindSafe(|| {
                        let mut ev = prg.evaluator();
                        if ev.set_literal(lit_of(v)).is_err() {
                            return "(evalerr literal)".to_string();
                        }
                        match ev.run() {
                            Err(_) => "(evalerr run)".to_string(),
                            Ok(out) => match out.into_literal() {
                                Ok(l) => out_sx(&l),
                                Err(garble_lang::eval::EvalError::Panic(_)) => {
                                    "(panic)".to_string()
                                }
                                Err(_) => "(evalerr output)".to_string(),
                            },
                        }
                    }));
                    run.push(' ');
                    run.push_str(&r.unwrap_or_else(|_| "crash".to_string()));
                }
            }
            Ok(Err(_)) => run.push_str(" compile-error"),
            Err(_) => run.push_str(" compile-crash"),
        }
    }
    run.push(')');
    format!("{pats} (verdict {verdict}){missing} {run}")
}
