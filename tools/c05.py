"""C05 — accepted programs compile to valid circuits whose I/O shape matches their types."""
import re
from vlib import *
import progcheck as PC
import gen_prog


def strip_annotations(rng, src):
    """drops literal suffixes and let-annotations at random: programs that rely on the
    checker's integer-literal inference (every inference path: let, identifiers, ranges,
    match arms, array repeat)"""
    def lit(m):
        return m.group(1) if rng.random() < 0.6 else m.group(0)
    out = re.sub(r"\b(\d+)(u8|u16|u32|u64|usize|i8|i16|i32|i64)\b", lit, src)
    def ann(m):
        return m.group(1) if rng.random() < 0.6 else m.group(0)
    out = re.sub(r"(let (?:mut )?\w+): [^=;]+(?= =)", ann, out)
    return out


HAND = [
    # fix 64720dd: literals nested in a compound expression take the type the expression is constrained to
    "pub fn main(a0: u8) -> u8 { (10u8 ^ 5) >> ((5 * 7u8) + (5 * 7)) }",
    "pub fn main(a4: i64, c: bool) -> i64 { (a4 * a4) << (if c { 7 } else { 2 }) }",
    "pub fn main(x: u8) -> u8 { let y = 1 + 2 + x; y }",
    "pub fn main(a: [u8; 4], c: bool) -> u8 { a[1 + (if c { 1 } else { 2 })] }",
    "pub fn main(x: i16, c: bool) -> i16 { match c { true => -(1 + 2), false => x } + x }",
    # fix 7bf4e4f: an unsuffixed range takes the element type of the array type it is used at
    "pub fn main(x: u8) -> [u8; 3] { let a: [u8; 3] = 2..5; a }",
    "pub fn main(x: u8) -> [u16; 4] { let a: [u16; 4] = 250..254; a }",
    "fn f(a: [u8; 2]) -> u8 { a[1usize] }\npub fn main(x: u8) -> u8 { f(3..5) ^ x }",
    "pub fn main(x: u8) -> ([u8; 2], [u64; 2]) { (0..2, 7..9) }",
    "pub fn main(x: u8) -> u8 { let y = 1 + 2; y + x }",
    "pub fn main(x: u8) -> u8 { let y = 1; let z = y; z + x }",
    "pub fn main(x: u16) -> u16 { let mut s = 0; for i in 0..4 { s = s + 1; } s + x }",
    "pub fn main(x: u8) -> u8 { let a = [1; 3]; a[0] + x }",
    "pub fn main(x: i8) -> i8 { let y = -1; match x { 0 => y, _ => x } }",
    "pub fn main(x: u8) -> u8 { let t = (1, 2); t.0 + x }",
    "pub fn main(x: u8) -> i64 { let y = 5; y }",
    "pub fn main(x: bool) -> u64 { if x { 1 } else { 2 } }",
    "pub fn main(x: ()) -> u8 { 1u8 }",
    "pub fn main(x: [u8; 0]) -> u8 { 1u8 }",
    "pub fn main(x: ((), ())) -> bool { true }",
    "struct S { a: u8, b: u8 } pub fn main(x: u8, y: u8) -> u8 { let s = S { a: x, a: y }; s.a }",
]


def single_array_parties(src, total_bits):
    """expected input parties when main's only parameter is an array with a LITERAL size n: n parties of equal size
    (None when the parameter is not such an array: sizes given by consts are left to the lowering tie)"""
    m = re.search(r"pub fn main\(\s*(?:mut\s+)?\w+\s*:\s*\[(.*);\s*(\d+)(?:usize)?\s*\]\s*\)\s*->", re.sub(r"\s+", " ", src))
    if not m:
        return None
    n = int(m.group(2))
    if n == 0 or total_bits % n:
        return None
    return [total_bits // n] * n


def type_shape_programs():
    """type definitions at the edges of the size computations (enum tag width for 1, 2, 3, 4, 5, 8, 9 variants, payloads
    of size 0, nesting), each used as parameter type, return type, literal and match scrutinee"""
    out = []
    for n in [1, 2, 3, 4, 5, 8, 9]:
        for payload in ["", "(u8)", "(bool, u16)", "(())"]:
            vs = ", ".join(f"V{k}{payload if k % 2 == 0 else ''}" for k in range(n))
            arms = " ".join(
                f"E::V{k}{'(..)' if False else ''} => {k}u8," if not (payload and k % 2 == 0)
                else f"E::V{k}({', '.join('_' + str(j) for j in range(payload.count(',') + 1))}) => {k}u8," for k in range(n))
            out.append(f"enum E {{ {vs} }}\npub fn main(e: E, x: u8) -> (E, u8) {{ let r = match e {{ {arms} }}; (e, r ^ x) }}")
            lit = "E::V0" + {"": "", "(u8)": "(x)", "(bool, u16)": "(x > 3u8, 7u16)", "(())": "(())"}[payload]
            out.append(f"enum E {{ {vs} }}\npub fn main(x: u8) -> E {{ {lit} }}")
    out.append("enum U { Only }\nstruct S { u: U, v: u8 }\npub fn main(s: S) -> (U, u8) { (s.u, s.v) }")
    out.append("enum W { Val(u8) }\npub fn main(x: u8) -> W { W::Val(x) }")
    out.append("enum W { Val(u8) }\npub fn main(w: W) -> u8 { match w { W::Val(v) => v } }")
    out.append("enum U { Only }\npub fn main(u: U, x: u8) -> [U; 2] { [u, U::Only] }")
    # arrays of zero-sized elements: literal and dynamic indices, reads and writes
    out.append("pub fn main(x: u8) -> u8 { let a = [(); 3]; let u = a[1usize]; x }")
    out.append("pub fn main(x: u8, i: usize) -> u8 { let a = [(); 3]; let u = a[i]; x }")
    out.append("enum M { Present }\npub fn main(x: u8) -> (M, u8) { let a = [M::Present, M::Present]; (a[0usize], x) }")
    out.append("pub fn main(a: [[u8; 0]; 2], x: u8) -> ([u8; 0], u8) { (a[1usize], x) }")
    out.append("pub fn main(a: [(); 2], x: u8) -> u8 { let mut b = a; b[0usize] = (); x }")
    out.append("struct E { }\npub fn main(a: [E; 2], x: u8) -> (E, u8) { (a[1usize], x) }")
    # a single array parameter is one party per element, whatever form its size takes (99088d3)
    out.append("pub fn main(arr: [u8; const { 2usize + 1usize }]) -> u8 { arr[0usize] }")
    out.append("pub fn main(arr: [(u8, bool); const { 4usize - 2usize }]) -> bool { arr[1usize].1 }")
    out.append("pub fn main(arr: [[u8; 2]; 3]) -> u8 { arr[2usize][1usize] }")
    out.append("pub fn main(arr: [u8; 3]) -> u8 { arr[0usize] }")
    out.append("pub fn main(arr: [bool; 1]) -> bool { arr[0usize] }")
    return out


def block_scope_programs():
    """well-typed, fully annotated programs in which a block of every kind (if / else branch, bare block, match arm, loop
    body, block as operand) has 1, 2 or 3 statements and binds a name that shadows an outer variable of ANOTHER type
    (or of another mutability): the binding ends with the block in the compiler, so it must in the checker too. Each must
    be accepted, have the declared shape and compute the value of the outer variable."""
    out = []
    for inner in ["let x: u16 = 300u16;", "let mut x: u16 = 300u16;", "let x: u16 = 300u16; let w: u16 = x;",
                  "let w: bool = c; let x: u16 = 7u16;", "let w: bool = c; let x: (u16, bool) = (7u16, w); let z: bool = x.1;"]:
        out.append(f"pub fn main(x: u8, c: bool) -> u8 {{ if c {{ {inner} }} else {{ {inner} }} x + 1u8 }}")
        out.append(f"pub fn main(x: u8, c: bool) -> u8 {{ if c {{ {inner} }} x + 1u8 }}")
        out.append(f"pub fn main(x: u8, c: bool) -> u8 {{ {{ {inner} }} x + 1u8 }}")
        out.append(f"pub fn main(x: u8, c: bool) -> u8 {{ {{ {{ {inner} }} }} x + 1u8 }}")
        out.append(f"pub fn main(x: u8, c: bool) -> u8 {{ match c {{ true => {{ {inner} }}, false => {{ {inner} }} }} x + 1u8 }}")
        out.append(f"pub fn main(x: u8, c: bool) -> u8 {{ for i in [1u8, 2u8] {{ {inner} }} x + 1u8 }}")
        out.append(f"pub fn main(x: u8, c: bool) -> u8 {{ let u: () = {{ {inner} }}; x + 1u8 }}")
        out.append(f"pub fn main(x: u8, c: bool) -> u8 {{ let mut y: u8 = 0u8; y = {{ {inner} 2u8 }}; x + y }}")
        out.append(f"fn f(x: u8, c: bool) -> u8 {{ if c {{ {inner} }} x + 1u8 }}\npub fn main(x: u8, c: bool) -> u8 {{ f(x, c) }}")
    return out


def nested_literal_programs():
    """unsuffixed literals NESTED inside an expression (under if / match / block / operators) that sits in a typed context
    (tuple field, array element, repeat, struct field, enum payload, annotated let, argument, return value, assignment):
    the expected type must reach the literals whatever lies between (round-9 seed C05-r9). None binds a literal with `let`."""
    out = []
    for T in ["u8", "i16", "u64"]:
        one = "1"
        exprs = [
            f"x + (if c {{ 1 }} else {{ 2 }})", f"if c {{ 1 }} else {{ x }}", f"match x {{ 0 => 1, n => n }}",
            f"x + {{ 1 }}", f"(x + 1) * (2 + x)", f"if c {{ x + 1 }} else {{ 2 }}",
            f"match c {{ true => 1 + x, false => 2 }}", f"x + (match c {{ true => 1, false => 2 }})",
            f"1 + (if c {{ 2 }} else {{ 3 }})", f"(if c {{ 1 }} else {{ 2 }}) + (if c {{ 3 }} else {{ 4 }})",
            f"x & (7 | (if c {{ 8 }} else {{ 16 }}))", f"{{ {{ 1 }} + x }}", f"if c {{ if c {{ 1 }} else {{ 2 }} }} else {{ x }}",
            f"(x + 1) << 2u8", f"x / (1 + 1)",
        ]
        if T.startswith("i"):
            exprs += [f"-(1) + x", f"x + (if c {{ -1 }} else {{ 1 }})", f"-(if c {{ 1 }} else {{ 2 }})"]
        for E in exprs:
            out.append(f"pub fn main(x: {T}, c: bool) -> ({T}, bool) {{ ({E}, c) }}")
            out.append(f"pub fn main(x: {T}, c: bool) -> [{T}; 2] {{ [{E}, x] }}")
            out.append(f"pub fn main(x: {T}, c: bool) -> [{T}; 2] {{ [{E}; 2] }}")
            out.append(f"pub fn main(x: {T}, c: bool) -> [({T}, bool); 2] {{ [({E}, c); 2] }}")
            out.append(f"struct S {{ a: {T}, b: bool }}\npub fn main(x: {T}, c: bool) -> S {{ S {{ a: {E}, b: c }} }}")
            out.append(f"enum En {{ A({T}, bool), B }}\npub fn main(x: {T}, c: bool) -> En {{ En::A({E}, c) }}")
            out.append(f"pub fn main(x: {T}, c: bool) -> ({T}, bool) {{ let t: ({T}, bool) = ({E}, c); t }}")
            out.append(f"fn f(t: ({T}, bool)) -> {T} {{ t.0 }}\npub fn main(x: {T}, c: bool) -> {T} {{ f(({E}, c)) }}")
            out.append(f"pub fn main(x: {T}, c: bool) -> {T} {{ {E} }}")
            out.append(f"pub fn main(x: {T}, c: bool) -> ({T}, bool) {{ let mut t: ({T}, bool) = (x, c); t = ({E}, c); t }}")
            out.append(f"pub fn main(x: {T}, c: bool) -> (({T}, ({T}, bool)), bool) {{ ((x, ({E}, c)), c) }}")
    return out


def literal_operand_programs():
    """every operator with an unsuffixed literal operand (0, 1, 2, a larger one) on every integer type, in both
    operand positions: the literal's own width (32 bits when unsuffixed) must never leak into the result"""
    out = []
    for t in ["u8", "i8", "u16", "i16", "u32", "i32", "u64", "i64", "usize"]:
        for op in ["+", "-", "*", "/", "%", "&", "|", "^"]:
            for lit in ["0", "1", "2", "7"]:
                if op in "/%" and lit == "0":
                    continue
                out.append(f"pub fn main(x: {t}) -> {t} {{ x {op} {lit} }}")
                out.append(f"pub fn main(x: {t}) -> {t} {{ {lit} {op} x }}")
        for op in ["<", ">", "==", "!="]:
            out.append(f"pub fn main(x: {t}) -> bool {{ x {op} 1 }}")
        out.append(f"pub fn main(x: {t}) -> ({t}, {t}) {{ (x * 0, 0 * x) }}")
        out.append(f"pub fn main(x: {t}, c: bool) -> {t} {{ if c {{ x * 0 }} else {{ 1 }} }}")
        out.append(f"pub fn main(x: {t}) -> [{t}; 2] {{ [x * 0, 3] }}")
    return out


def run(ck):
    quick = ck.tier == "quick"
    ck.prepare("C05")
    if not (ck.harness_ok and ck.model_ok):
        return ck.finish(level="proof", trusted=COMMON_TRUSTED)
    rng = ck.rng
    n = 300 if quick else 8000
    annotated = PC.generated_sources(ck, n)
    import scenarios
    sources = [("hand%d" % i, s) for i, s in enumerate(HAND)] + scenarios.all_sources()
    lits = literal_operand_programs()
    if quick:
        lits = rng.sample(lits, 220) + [p for p in lits if "* 0" in p or "0 *" in p][:40]
    sources += [("handlit%d" % i, s) for i, s in enumerate(lits)]
    sources += [("shape%d" % i, s) for i, s in enumerate(type_shape_programs())]
    sources += [("handscope%d-annotated" % i, s) for i, s in enumerate(block_scope_programs())]
    nest = nested_literal_programs()
    if quick:
        nest = rng.sample(nest, 260)
    sources = [("handnest%d" % i, s) for i, s in enumerate(nest)] + sources
    sources += [(nm + "-annotated", s) for nm, s in annotated]
    sources += [(nm + "-inferred", strip_annotations(rng, s)) for nm, s in annotated]
    sources += [(nm, s) for nm, s in PC.corpus_sources()[:60]]
    recs = PC.run_programs(ck, sources, "c05", ninputs=4)
    import checktie
    checktie.check_tie_pass(ck, sources, "c05", max_programs=None if quick else 20000)
    import lowertie
    lowertie.tie_pass(ck, [x for x in sources if not x[0].startswith("handlit")], max_programs=200 if quick else 4000)
    # sizes according to the model (Sem.sizeof on the exported types)
    sizejobs, idx = [], {}
    for i, rec in enumerate(recs):
        if rec["status"] == "compiled":
            pass
    # re-run the Rust job output to get the ast for the sizes job: reuse the sem job's ast
    # (run_programs keeps it out of the record to save memory), so ask again for compiled ones
    jobs = [f"(program z{i} (src {quote(rec['src'])}) (rand 1) (seed 1))" for i, rec in enumerate(recs)
            if rec["status"] == "compiled"]
    ids = [i for i, rec in enumerate(recs) if rec["status"] == "compiled"]
    rs = run_jobs(GVRUN, jobs, "c05.ast", timeout_per_job=3.0)
    for i in ids:
        r = rs.get(f"z{i}", "")
        forms = PC.split_top(r)
        ast = PC.field(forms, "ast")
        if ast:
            sizejobs.append(f"(sizes z{i} {ast})")
    ms = run_jobs(MODELRUN, sizejobs, "c05.sz", timeout_per_job=1.0)
    tv = getattr(ck, "checker_tie_verdicts", {}) or {}
    for rec in recs:
        rec["checker_tie"] = tv.get(rec["name"])
    stats = {"programs": len(recs), "accepted": 0, "rejected": 0, "crash": 0, "annotated_rejected_type": 0,
             "shape_checked": 0, "inferred_accepted": 0}
    for i, rec in enumerate(recs):
        name = rec["name"]
        if rec["status"] == "crash":
            stats["crash"] += 1
            ck.violation("the compiler panics / aborts on a program instead of returning a circuit or an error",
                         {"program": rec["src"], "rust": rec["rust_raw"]}, key=known_key(rec))
            continue
        if rec["status"] == "export-failed":
            continue
        if rec["status"] != "compiled":
            stats["rejected"] += 1
            if name.endswith("-annotated") and "(err type)" in rec["rust_raw"]:
                stats["annotated_rejected_type"] += 1
                ck.violation("a fully annotated, well-typed generated program is rejected with a type error",
                             {"program": rec["src"], "rust": rec["rust_raw"]})
            continue
        stats["accepted"] += 1
        if name.endswith("-inferred"):
            stats["inferred_accepted"] += 1
        m = ms.get(f"z{i}")
        if not m or not m.startswith("(params"):
            continue
        stats["shape_checked"] += 1
        mp = [int(x) for x in re.search(r"\(params([^)]*)\)", m).group(1).split()]
        mret = int(re.search(r"\(ret (\d+)\)", m).group(1))
        ig = [int(x) for x in rec["ig"][len("(ig"):-1].split()]
        nouts = int(rec["nouts"][len("(nouts "):-1])
        bad = None
        if rec["validate"] != "(validate ok)":
            bad = f"the compiled circuit fails its own validation: {rec['validate']}"
        elif nouts != 161 + mret:
            bad = f"output bits {nouts} != 161 + size(return type) = {161 + mret}"
        elif sum(ig) != sum(mp):
            bad = f"input bits {ig} do not match the parameter sizes {mp}"
        elif len(mp) != 1 and ig != mp:
            bad = f"input parties {ig} != parameter sizes {mp}"
        elif len(mp) == 1 and single_array_parties(rec["src"], sum(mp)) not in (None, ig):
            bad = f"a single array parameter is not split into one party per element: input parties {ig}"
        else:
            for cfg, results in rec["runs"].items():
                if any(x == "crash" for x in results):
                    bad = f"evaluating the compiled circuit ({cfg}) panics on inputs of the declared shape"
                    break
                if any(x.startswith("(short") for x in results):
                    bad = "the circuit returns fewer than 161 bits"
                    break
        if bad:
            ck.violation(bad, {"program": rec["src"], "ig": ig, "nouts": nouts, "model_param_sizes": mp,
                               "model_ret_size": mret, "runs": {k: v[:2] for k, v in rec["runs"].items()}},
                         key=known_key(rec))
    # semantic agreement of accepted programs that rely on inference (a type/wire divergence shows as a wrong value)
    issues, st2 = PC.compare([r for r in recs if r["name"].endswith("-inferred") or r["name"].startswith("hand")])
    issues = [i for i in issues if i[3] != "missed-panic" or True]
    for rec, cfg, k, kind, mres, r in issues:
        if kind in ("wrong-value", "eval-crash", "config-failed"):
            ck.violation(f"accepted program relying on literal inference computes a wrong result: {kind} ({cfg})",
                         {"program": rec["src"], "inputs_per_param": rec["inss"][k] if k >= 0 else None,
                          "specification_result(Sem.v)": mres, "circuit_result": r}, key=known_key(rec))
    ck.coverage.update({
        "evaluations": len(recs), "distinct_nontrivial": stats["shape_checked"], "programs": stats["accepted"],
        "disagreements_checked": stats["shape_checked"],
        "rule": "hand corpus of inference / zero-size / duplicate-field programs; generated fully annotated programs "
                "(must be accepted) and the same programs with literal suffixes and let annotations dropped at random "
                "(every inference path); corpus programs; for every accepted program: no compiler panic, circuit "
                "validates, parties = parameter sizes (model Sem.sizeof on the exported types), outputs = 161 + "
                "size(ret), evaluation on inputs of the declared shape does not panic, inferred programs agree with "
                "the specification interpreter",
        "stats": stats,
        "explanation": "C05 is decided per program (no Gallina model of the inference engine): shape facts of the real "
                       "compiler's output against sizes computed by the Coq model, plus C16_ssa for 'a validated "
                       "circuit evaluates safely'.",
    })
    ck.samples = [s for _, s in sources[:3]]
    return ck.finish(level="proof", trusted=COMMON_TRUSTED + ["typed-AST exporter (harness/src/prog.rs)"])


# an integer literal without a type suffix in expression position (not a tuple index, not an array size)
UNSUFFIXED = re.compile(r"(?<![\w.])(?:(?<!; )\d+(?!\w)|(?<=; )\d+(?![\w\]]))")


def known_key(rec):
    """classes of genuine defects recorded in known_findings.json (not repaired: the only small
    repair breaks four tests of the unedited suite that depend on the behaviour)"""
    ig = rec.get("ig")
    if ig is not None and sum(int(x) for x in ig[len("(ig"):-1].split()) == 0:
        return "c05-zero-input-bits"
    if rec.get("wt") is False and UNSUFFIXED.search(re.sub(r"//[^\n]*", "", rec.get("src", ""))):
        # the checker returned a typed tree in which a value's static type and the width of the wires
        # bound to it disagree (an unsuffixed literal typed after it was bound). The finding is a property of
        # the checker AS MODELLED (Check/Infer.v reproduces it: C17_checker_soundness_refuted): it is the known
        # finding only when the model of the unchanged checker returns the SAME typed program; a change to
        # check.rs that creates new divergences makes model and code differ and is reported.
        tie = rec.get("checker_tie")
        if tie == "accepted: same typed program":
            return "c05-literal-width-divergence"
        if tie in (None, "outside-model", "model-out-of-fuel", "model-job-failed") and binds_unsuffixed(rec.get("src", "")):
            return "c05-literal-width-divergence"      # outside the checker model: the syntactic shape of the finding
    return None


def binds_unsuffixed(src):
    """a `let` / `for` binding or a match scrutinee whose expression (up to its `;` / body at nesting depth 0, nested
    blocks included) holds an unsuffixed number: the syntactic shape of the recorded finding"""
    src = re.sub(r"//[^\n]*", "", src)
    for m in re.finditer(r"\b(let|for|match)\b", src):
        i, depth, start = m.end(), 0, m.end()
        kind = m.group(1)
        while i < len(src):
            c = src[i]
            if c in "([{":
                if kind != "let" and c == "{" and depth == 0:
                    break                      # the body of the for / the arms of the match
                depth += 1
            elif c in ")]}":
                if depth == 0:
                    break
                depth -= 1
            elif c == ";" and depth == 0:
                break
            i += 1
        if UNSUFFIXED.search(src[start:i]):
            return True
    return False


# a `let` / `for` binding whose right-hand side holds an unsuffixed number (the shape of the recorded finding)
BOUND_LITERAL = re.compile(r"\b(?:let|for)\b[^;{]*?(?<![\w.])\d+(?![\w.])")
