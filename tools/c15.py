"""C15 — circuits contain no useless gates; pure data movement costs zero AND gates."""
import re
from vlib import *
import c04
import progcheck as PC
import gen_prog


def movement_program(rng):
    """programs that only copy, rearrange, destructure or re-pack their input bits at constant
    positions (let / tuple / struct / enum construction and destructuring, constant-index reads and
    writes, loops with constant trip counts, casts between equal-width types)"""
    k = rng.randint(2, 4)
    t = rng.choice(["u8", "u16", "i8", "u32", "bool"])
    same = {"u8": "i8", "i8": "u8", "u16": "i16", "u32": "i32", "bool": "bool"}[t]
    progs = [
        f"pub fn main(a: [{t}; {k}]) -> [{t}; {k}] {{ let mut r: [{t}; {k}] = a; let mut i: usize = 0usize; for e in a {{ r[{k-1}usize] = e; }} r[0usize] = a[{k-1}usize]; r }}",
        f"pub fn main(a: ({t}, {t}), b: {t}) -> ({t}, ({t}, {t})) {{ let (x, y) = a; (y, (b, x)) }}",
        f"struct S {{ p: {t}, q: {t} }} pub fn main(s: S, c: {t}) -> S {{ let S {{ p, q }} = s; S {{ p: q, q: c }} }}",
        f"enum E {{ A({t}), B }} pub fn main(x: {t}, y: {t}) -> (E, E) {{ (E::A(y), E::A(x)) }}",
        f"pub fn main(a: [{t}; {k}], b: [{t}; {k}]) -> [[{t}; {k}]; 2] {{ let mut r: [[{t}; {k}]; 2] = [a, b]; r[0usize] = b; r[1usize][0usize] = a[0usize]; r }}",
        f"pub fn main(a: [({t}, {t}); {k}]) -> [({t}, {t}); {k}] {{ let mut r: [({t}, {t}); {k}] = a; let mut j: usize = 0usize; for e in a {{ let (x, y) = e; r[0usize] = (y, x); }} r }}",
    ]
    if t != "bool":
        progs.append(f"pub fn main(a: {t}, b: {t}) -> ({same}, {same}) {{ (b as {same}, a as {same}) }}")
        progs.append(f"pub fn main(a: [{t}; {k}]) -> [{same}; {k}] {{ let mut r: [{same}; {k}] = [0{same}; {k}]; let mut i: usize = 0usize; for e in a {{ r[0usize] = e as {same}; }} r }}")
    return rng.choice(progs)


# ---------------------------------------------------------------------------------------------
# Builder / build layer: the clauses below are THEOREMS about the Coq model (Props/C15.v:
# C15_all_used, C15_no_constant_operand, C15_no_self_operand, C15_and_unique, C15_const_gates,
# C15_and_count_le, C15_and_free_requests_zero_and, C15_const_requests_no_gate,
# C15_double_negation_is_free; re-checked by ck.prepare).  Here they are recomputed on the REAL
# builder's output as the oracle pass: the property's own clauses (c04.structural_props) are
# violations; the clauses that go beyond the property text can only fail when the model no longer
# describes the code, so they are reported as correspondence breaks.

REQ_COST = {"xor": 1, "and": 1, "not": 0, "or": 3, "eq": 1, "mux": 3, "adder": 7}   # Builder/StructSpec.v req_cost
                                                                                   # (adder = xor,and,xor,and,or)

def theorem_clauses(ssa, dedup):
    """Clauses proved for the model beyond the property text (final numbering)."""
    ig = [int(x) for x in sx_field(ssa, "ig")[1:]]
    gates = sx_field(ssa, "gates")[1:]
    n = sum(ig)
    bad = []
    if len(gates) < 2 or gates[0] != ["x", "0", "0"] or gates[1] != ["n", str(n)]:
        bad.append(f"the first two gates are not Xor(0,0), Not({n})")
    for i, g in enumerate(gates[2:], 2):
        ops = [int(x) for x in g[1:]]
        if any(o in (n, n + 1) for o in ops):
            bad.append(f"gate {n + i} {g} has a constant operand")
        if dedup and g[0] == "x" and ops[0] == ops[1]:
            bad.append(f"XOR gate {n + i} has the same wire twice (dedup on)")
    return bad


def wires_of(res):
    t = sx_parse("(" + res + ")")[0]
    w = sx_field(t, "wires")
    return None if w is None else [int(x) for x in w[1:]]


def request_oracles(reqs, wires, ssa):
    """and-count bound, AND-free sequences, double negation, constant-only requests."""
    bad = []
    def res(o):
        return wires[int(o[1:])] if isinstance(o, str) and o.startswith("h") else int(o)
    first = []          # first handle index of each request
    h = 0
    free = True
    all_const = True
    for k, ops in reqs:
        first.append(h)
        rv = [res(o) for o in ops]
        if k in ("and", "or"):
            free = free and (rv[0] <= 1 or rv[1] <= 1)
        elif k == "mux":
            free = free and (rv[0] <= 1 or rv[1] == rv[2])
        elif k == "adder":
            free = False
        all_const = all_const and all(v <= 1 for v in rv)
        if k == "not" and isinstance(ops[0], str) and ops[0].startswith("h"):
            src = int(ops[0][1:])
            # which request produced handle src?
            for j in range(len(first) - 1):
                kj, oj = reqs[j]
                if first[j] == src and kj == "not" and wires[h] != res(oj[0]):
                    bad.append(f"not(not x) returned wire {wires[h]} instead of {res(oj[0])} (requests {j},{len(first)-1})")
        h += 2 if k == "adder" else 1
    gates = sx_field(ssa, "gates")[1:]
    ands = sum(1 for g in gates if g[0] == "a")
    cost = sum(REQ_COST[k] for k, _ in reqs)
    if ands > cost:
        bad.append(f"{ands} AND gates exceed the per-request bound {cost}")
    if free and ands:
        bad.append(f"an AND-free request sequence built {ands} AND gates")
    if all_const and (len(gates) != 2 or any(w > 1 for w in wires)):
        bad.append("requests on constants only created a gate or returned a non-constant wire")
    return bad, free, all_const


# the closed examples of Props/C15.v (vm_compute there), run against the real builder
FIXED = [
    ("d0", True, [3], [("and", [2, 3]), ("xor", ["h0", 4]), ("and", [3, 4]), ("not", ["h1"])], ["h3"],
     "(gates (x 0 0) (n 3) (a 0 1) (x 5 2) (n 6))"),
    ("d1", False, [2], [("and", [2, 3]), ("and", [3, 2])], ["h0", "h1"],
     "(gates (x 0 0) (n 2) (a 0 1) (a 1 0))"),
    ("d2", False, [2], [("and", [2, 3]), ("and", [2, 3]), ("xor", ["h0", "h1"])], ["h2"],
     "(gates (x 0 0) (n 2) (x 1 1) (a 0 4))"),
    ("d3", True, [3], [("xor", [3, 4]), ("and", [2, 3]), ("and", [2, 4]), ("xor", ["h1", "h2"])], ["h0", "h3"],
     "(gates (x 0 0) (n 3) (x 1 2) (x 1 2) (a 0 6))"),
    ("d4", True, [2], [("xor", [2, 3]), ("not", ["h0"]), ("mux", [1, "h0", "h1"]), ("and", [1, "h2"]),
                       ("or", ["h0", 0]), ("mux", [0, 2, "h1"])], ["h1", "h2", "h3", "h4", "h5"],
     "(gates (x 0 0) (n 2) (x 0 1) (n 4))"),
    ("d5", True, [3], [("and", [2, 3]), ("and", [2, 4]), ("xor", ["h0", "h1"])], ["h0", "h1", "h2"],
     "(gates (x 0 0) (n 3) (a 0 1) (a 0 2) (x 1 2) (a 0 7))"),
    ("d6", True, [2], [("not", [2]), ("not", ["h0"]), ("not", ["h1"]), ("xor", [2, 3]), ("not", ["h3"]),
                       ("not", ["h4"])], ["h0", "h1", "h2", "h4", "h5"],
     "(gates (x 0 0) (n 2) (n 0) (x 0 1) (n 5))"),
]


def layer_jobs(ck, quick):
    """Request sequences aimed at the request-level theorems: AND-free sequences, requests on
    constants only, negation chains."""
    import gen_builder as GB
    rng = ck.rng
    jobs, meta = [], {}
    dist = {"fixed_examples": 0, "and_free": 0, "const_only": 0, "negation_chains": 0}
    for jid, dedup, inputs, reqs, outs, _ in FIXED:
        jobs.append(GB.fmt_job(jid, dedup, inputs, reqs, outs)); meta[jid] = (sum(inputs), reqs, outs, dedup)
        dist["fixed_examples"] += 1

    def seq(kind, n, L):
        reqs = []
        inputs = list(range(2, 2 + n))
        def opnd(const_only=False):
            pool = [0, 1] if const_only else ([0, 1] + inputs * 2)
            if reqs and rng.random() < 0.6:
                return "h%d" % rng.randint(max(0, len(reqs) - 6), len(reqs) - 1)
            return rng.choice(pool)
        while len(reqs) < L:
            if kind == "const":
                k = rng.choice(["xor", "and", "not", "or", "eq", "mux"])
                reqs.append((k, [opnd(True) for _ in range(GB.ARITY[k])]))
            elif kind == "free":
                k = rng.choice(["xor", "xor", "not", "eq", "and", "or", "mux", "mux"])
                if k in ("and", "or"):
                    ops = [opnd(), rng.choice([0, 1])]
                    rng.shuffle(ops)
                elif k == "mux":
                    if rng.random() < 0.25:
                        d = opnd(); ops = [opnd(), d, d]
                    else:
                        ops = [rng.choice([0, 1]), opnd(), opnd()]
                else:
                    ops = [opnd() for _ in range(GB.ARITY[k])]
                reqs.append((k, ops))
            else:   # negation chains inside arbitrary traffic
                if reqs and rng.random() < 0.5:
                    reqs.append(("not", ["h%d" % (len(reqs) - 1)] if rng.random() < 0.7 else [opnd()]))
                else:
                    k = rng.choice(["xor", "and", "not", "or", "eq", "mux"])
                    reqs.append((k, [opnd() for _ in range(GB.ARITY[k])]))
        return reqs

    for kind, key, cnt in (("free", "and_free", 400 if quick else 20000), ("const", "const_only", 100 if quick else 3000),
                           ("neg", "negation_chains", 300 if quick else 20000)):
        for i in range(cnt):
            n = rng.choice([1, 2, 3, 4])
            L = rng.choice([2, 4, 8, 16, 30])
            reqs = seq(kind, n, L)
            outs = ["h%d" % j for j in range(len(reqs))]
            if rng.random() < 0.5:
                outs = [rng.choice(outs) for _ in range(rng.randint(1, 4))]
            dedup = rng.random() < 0.7
            jid = f"{key[0]}{i}"
            jobs.append(GB.fmt_job(jid, dedup, [n], reqs, outs)); meta[jid] = (n, reqs, outs, dedup)
            dist[key] += 1
    return jobs, meta, dist


def run(ck):
    quick = ck.tier == "quick"
    ck.prepare("C15")
    if not (ck.harness_ok and ck.model_ok):
        return ck.finish(level="proof", trusted=COMMON_TRUSTED)
    # 1. builder level (shares the C04 jobs): structural clauses on every built circuit
    jobs, meta, dist, rs, ml = c04.run_builder_jobs(ck, "c15", quick)
    ljobs, lmeta, ldist = layer_jobs(ck, quick)
    lrs, lml = run_both(ljobs, "c15x", timeout_per_job=0.5)
    jobs = jobs + ljobs
    meta.update(lmeta); rs.update(lrs); ml.update(lml); dist.update(ldist)
    expected = {f[0]: f[5] for f in FIXED}
    checked = 0
    mism = 0
    n_free = n_const = 0
    for j in jobs:
        jid = job_id(j)
        r, m = rs.get(jid, ""), ml.get(jid, "")
        rcmp = re.sub(r"\s*\(truth .*\)$", "", r)
        if rcmp != m:
            mism += 1
            if mism <= 3:
                ck.violation("model and implementation disagree (returned wires / built circuit)",
                             {"job": j, "rust": rcmp[:3000], "model": m[:3000], "correspondence": "builder jobs"},
                             found_input=False)
        ssa, _, _ = c04.circuit_of(r)
        if ssa is None:
            if jid in lmeta:
                ck.violation("the real builder did not build a circuit for a well-formed request sequence",
                             {"job": j, "rust": r[:2000]})
            continue
        checked += 1
        n, reqs, outs, dedup = meta[jid]
        for bad in c04.structural_props(ssa, dedup)[:1]:
            ck.violation("built circuit violates a structural clause: " + bad, {"job": j, "rust": r[:3000]})
        # clauses proved for the model that go beyond the property text: a failure means the model
        # no longer describes the code (correspondence break with a concrete job attached)
        for bad in theorem_clauses(ssa, dedup)[:1]:
            ck.violation("built circuit contradicts a theorem proved for the builder model: " + bad,
                         {"job": j, "rust": r[:3000]}, found_input=False)
        wires = wires_of(r)
        if wires is not None:
            rb, free, allc = request_oracles(reqs, wires, ssa)
            n_free += free; n_const += allc
            for bad in rb[:1]:
                ck.violation("request-level theorem of the builder model fails on the real builder: " + bad,
                             {"job": j, "rust": r[:3000]}, found_input=False)
        if jid in expected and expected[jid] not in r:
            ck.violation("closed example of Props/C15.v: the real builder's circuit differs from the model's",
                         {"job": j, "rust": r[:3000], "expected_gates": expected[jid]}, found_input=False)
    ck.obligation("correspondence: built circuits equal the model's (builder jobs)", mism == 0, f"{mism} differing jobs")
    ck.obligation("generator health: AND-free and constant-only request sequences are produced",
                  n_free >= 100 and n_const >= 50, f"and_free={n_free} const_only={n_const}")
    # 2. compiled programs: structural clauses with dedup on
    srcs = PC.corpus_sources()
    ck.rng.shuffle(srcs)
    import scenarios
    srcs = scenarios.all_sources() + [s for s in srcs if len(s[1]) < 1500][:40 if quick else 300] + \
        PC.generated_sources(ck, 60 if quick else 1500) + PC.generated_sources(ck, 40 if quick else 1000, style="panic")
    cj = [f"(compile p{i} (src {quote(s)}))" for i, (_, s) in enumerate(srcs)]
    cr = run_jobs(GVRUN, cj, "c15.c", timeout_per_job=3.0)
    compiled = 0
    for i, (_, s) in enumerate(srcs):
        r = cr.get(f"p{i}", "")
        if not r.startswith("(ssa "):
            continue
        compiled += 1
        ssa = sx_parse(r)[0]
        for bad in c04.structural_props(ssa, True)[:1]:
            ck.violation("compiled circuit violates a structural clause: " + bad, {"program": s})
    # 3. data-movement programs: zero AND gates
    mv = [movement_program(ck.rng) for _ in range(60 if quick else 1000)]
    import lowertie
    trecs = lowertie.tie_pass(ck, srcs[:80 if quick else 1500] + [("mv%d" % i, s) for i, s in enumerate(mv[:40 if quick else 600])],
                              max_programs=120 if quick else 2100)
    mvr = [r for r in trecs if r["name"].startswith("mv") and r["status"] == "equal"]
    mv_proved = sum(1 for r in mvr if r.get("kfree") == "ok")
    ck.obligation("the generated data-movement programs are in the class for which zero AND gates is a THEOREM "
                  "(FreeLower.data_movement_zero_and via the extracted klower_main): at least 90% of the tied ones",
                  mv_proved >= 0.9 * max(1, len(mvr)), f"{mv_proved}/{len(mvr)}")
    ck.coverage["movement_programs_in_proved_class"] = f"{mv_proved}/{len(mvr)}"
    mj = [f"(compile m{i} (src {quote(s)}))" for i, s in enumerate(mv)]
    mr = run_jobs(GVRUN, mj, "c15.m", timeout_per_job=3.0)
    mv_ok = 0
    for i, s in enumerate(mv):
        r = mr.get(f"m{i}", "")
        if not r.startswith("(ssa "):
            continue
        mv_ok += 1
        ands = r.count("(a ")
        if ands:
            ck.violation(f"a pure data-movement program compiles to {ands} AND gates", {"program": s})
    ck.obligation("generator health: data-movement programs are accepted", mv_ok >= 0.8 * len(mv), f"{mv_ok}/{len(mv)}")
    ck.coverage.update({
        "evaluations": len(jobs) + len(srcs) + len(mv), "distinct_nontrivial": checked + compiled + mv_ok,
        "rule": "builder request sequences (as C04) + compiled corpus/generated programs: every gate except the two "
                "constant gates reaches an output, no AND has a constant operand or the same wire twice, with dedup no "
                "two ANDs share an operand pair (recomputed in Python on the Rust circuit); data-movement programs "
                "(destructuring, re-packing, constant-index reads/writes, constant-trip loops, equal-width casts) must "
                "have zero AND gates",
        "built_circuits_checked": checked, "compiled_programs_checked": compiled, "movement_programs": mv_ok,
        "and_free_sequences": n_free, "constant_only_sequences": n_const,
        "builder_layer": "theorems of Props/C15.v (all_used, no_constant_operand, no_self_operand, and_unique, "
                         "and_count_le, and_free_requests_zero_and, const_requests_no_gate, double_negation_is_free) "
                         "recomputed on the real builder's output for every builder job, plus the closed examples d0..d6",
        "input_distribution": dist,
    })
    ck.samples = [mv[0], jobs[0][:300]]
    return ck.finish(level="proof", trusted=COMMON_TRUSTED)
