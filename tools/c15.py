"""C15 — circuits contain no useless gates; pure data movement costs zero AND gates."""
import re
from vlib import *
import c04
import progcheck as PC
import gen_prog


def movement_program(rng):
    """programs that only copy, rearrange, destructure or re-pack their input bits at constant
    positions (let / tuple / struct / enum construction and destructuring, constant-index reads and
    writes, loops with constant trip counts, casts between equal-width types)"""
    k = rng.randint(2, 4)
    t = rng.choice(["u8", "u16", "i8", "u32", "bool"])
    same = {"u8": "i8", "i8": "u8", "u16": "i16", "u32": "i32", "bool": "bool"}[t]
    progs = [
        f"pub fn main(a: [{t}; {k}]) -> [{t}; {k}] {{ let mut r: [{t}; {k}] = a; let mut i: usize = 0usize; for e in a {{ r[{k-1}usize] = e; }} r[0usize] = a[{k-1}usize]; r }}",
        f"pub fn main(a: ({t}, {t}), b: {t}) -> ({t}, ({t}, {t})) {{ let (x, y) = a; (y, (b, x)) }}",
        f"struct S {{ p: {t}, q: {t} }} pub fn main(s: S, c: {t}) -> S {{ let S {{ p, q }} = s; S {{ p: q, q: c }} }}",
        f"enum E {{ A({t}), B }} pub fn main(x: {t}, y: {t}) -> (E, E) {{ (E::A(y), E::A(x)) }}",
        f"pub fn main(a: [{t}; {k}], b: [{t}; {k}]) -> [[{t}; {k}]; 2] {{ let mut r: [[{t}; {k}]; 2] = [a, b]; r[0usize] = b; r[1usize][0usize] = a[0usize]; r }}",
        f"pub fn main(a: [({t}, {t}); {k}]) -> [({t}, {t}); {k}] {{ let mut r: [({t}, {t}); {k}] = a; let mut j: usize = 0usize; for e in a {{ let (x, y) = e; r[0usize] = (y, x); }} r }}",
    ]
    if t != "bool":
        progs.append(f"pub fn main(a: {t}, b: {t}) -> ({same}, {same}) {{ (b as {same}, a as {same}) }}")
        progs.append(f"pub fn main(a: [{t}; {k}]) -> [{same}; {k}] {{ let mut r: [{same}; {k}] = [0{same}; {k}]; let mut i: usize = 0usize; for e in a {{ r[0usize] = e as {same}; }} r }}")
    return rng.choice(progs)


def run(ck):
    quick = ck.tier == "quick"
    ck.prepare("C15")
    if not (ck.harness_ok and ck.model_ok):
        return ck.finish(trusted=COMMON_TRUSTED)
    # 1. builder level (shares the C04 jobs): structural clauses on every built circuit
    jobs, meta, dist, rs, ml = c04.run_builder_jobs(ck, "c15", quick)
    checked = 0
    mism = 0
    for j in jobs:
        jid = job_id(j)
        r, m = rs.get(jid, ""), ml.get(jid, "")
        if re.sub(r"\s*\(truth .*\)$", "", r) != m:
            mism += 1
        ssa, _, _ = c04.circuit_of(r)
        if ssa is None:
            continue
        checked += 1
        n, reqs, outs, dedup = meta[jid]
        for bad in c04.structural_props(ssa, dedup)[:1]:
            ck.violation("built circuit violates a structural clause: " + bad, {"job": j, "rust": r[:3000]})
    ck.obligation("correspondence: built circuits equal the model's (builder jobs)", mism == 0, f"{mism} differing jobs")
    # 2. compiled programs: structural clauses with dedup on
    srcs = PC.corpus_sources()
    ck.rng.shuffle(srcs)
    srcs = [s for s in srcs if len(s[1]) < 1500][:40 if quick else 300] + PC.generated_sources(ck, 60 if quick else 1500)
    cj = [f"(compile p{i} (src {quote(s)}))" for i, (_, s) in enumerate(srcs)]
    cr = run_jobs(GVRUN, cj, "c15.c", timeout_per_job=3.0)
    compiled = 0
    for i, (_, s) in enumerate(srcs):
        r = cr.get(f"p{i}", "")
        if not r.startswith("(ssa "):
            continue
        compiled += 1
        ssa = sx_parse(r)[0]
        for bad in c04.structural_props(ssa, True)[:1]:
            ck.violation("compiled circuit violates a structural clause: " + bad, {"program": s})
    # 3. data-movement programs: zero AND gates
    mv = [movement_program(ck.rng) for _ in range(60 if quick else 1000)]
    mj = [f"(compile m{i} (src {quote(s)}))" for i, s in enumerate(mv)]
    mr = run_jobs(GVRUN, mj, "c15.m", timeout_per_job=3.0)
    mv_ok = 0
    for i, s in enumerate(mv):
        r = mr.get(f"m{i}", "")
        if not r.startswith("(ssa "):
            continue
        mv_ok += 1
        ands = r.count("(a ")
        if ands:
            ck.violation(f"a pure data-movement program compiles to {ands} AND gates", {"program": s})
    ck.obligation("generator health: data-movement programs are accepted", mv_ok >= 0.8 * len(mv), f"{mv_ok}/{len(mv)}")
    ck.coverage.update({
        "evaluations": len(jobs) + len(srcs) + len(mv), "distinct_nontrivial": checked + compiled + mv_ok,
        "rule": "builder request sequences (as C04) + compiled corpus/generated programs: every gate except the two "
                "constant gates reaches an output, no AND has a constant operand or the same wire twice, with dedup no "
                "two ANDs share an operand pair (recomputed in Python on the Rust circuit); data-movement programs "
                "(destructuring, re-packing, constant-index reads/writes, constant-trip loops, equal-width casts) must "
                "have zero AND gates",
        "built_circuits_checked": checked, "compiled_programs_checked": compiled, "movement_programs": mv_ok,
        "input_distribution": dist,
    })
    ck.samples = [mv[0], jobs[0][:300]]
    return ck.finish(trusted=COMMON_TRUSTED)
