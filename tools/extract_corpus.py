#!/usr/bin/env python3
"""Extracts Garble programs from /repo/tests/*.rs string literals, garble_examples and the
docs into /verif/corpus/programs/*.garble (run once; the corpus is committed)."""
import os, re, sys, hashlib, glob
REPO = "/repo"
out = os.path.join(os.path.dirname(os.path.dirname(os.path.abspath(__file__))), "corpus", "programs")
os.makedirs(out, exist_ok=True)
progs = []
def unescape(s):
    return bytes(s, "utf-8").decode("unicode_escape") if "\\" in s else s
for f in sorted(glob.glob(REPO + "/tests/*.rs")):
    src = open(f).read()
    for m in re.finditer(r'r#"(.*?)"#', src, re.S):
        progs.append((os.path.basename(f), m.group(1)))
    for m in re.finditer(r'(?<![r#])"((?:[^"\\]|\\.)*)"', src, re.S):
        t = m.group(1)
        if "fn main" in t:
            t = re.sub(r'\\\n\s*', '', t)
            try:
                t = unescape(t)
            except Exception:
                continue
            progs.append((os.path.basename(f), t))
for f in sorted(glob.glob(REPO + "/garble_examples/**/*.garble.rs", recursive=True)):
    progs.append((os.path.basename(f), open(f).read()))
for f in sorted(glob.glob(REPO + "/garble_docs/**/*.md", recursive=True)) + [REPO + "/README.md"]:
    src = open(f).read()
    for m in re.finditer(r"```rust\n(.*?)```", src, re.S):
        if "fn " in m.group(1):
            progs.append((os.path.basename(f), m.group(1)))
seen = set()
n = 0
for origin, p in progs:
    if "fn " not in p:
        continue
    h = hashlib.sha256(p.encode()).hexdigest()[:10]
    if h in seen:
        continue
    seen.add(h)
    n += 1
    name = re.sub(r"[^a-z0-9]+", "_", origin.lower()).strip("_")
    open(os.path.join(out, f"{name}_{h}.garble"), "w").write(p)
print(n, "programs")
