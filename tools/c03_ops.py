"""C03 part (C): OPERATOR-LEVEL SEARCH.  This is TESTING / SEARCH, NOT PROOF.

For every integer type, every binary and unary operator in the shapes var-op-var,
var-op-literal, literal-op-var, the bool operators, and every cast pair the type checker
accepts, a one-operator program is compiled by the real compiler (duplicate-gate optimisation
on and off), and the SSA circuit and its register-circuit conversion are evaluated on

  * ALL 2^16 operand pairs of the 8-bit types (all 256 / 65536 values of one-variable
    programs over 8 / 16-bit types),
  * for wider types a boundary set B = {0,1,2,3,MAX,MAX-1,MIN,MIN+1,-1,-2,2^k,2^k+-1,-(2^k)..}
    crossed with itself, operand pairs whose exact sum / difference / product / quotient sits on
    an overflow boundary (divisor pairs of +-2^(n-1), +-2^(n-1)+-1, 2^n, 2^n+-1), all shift
    amounts 0..=255, and seeded random operands (ck.rng),

and every result is compared inside the Rust harness (harness/src/opprog.rs) with Rust's own
checked_add/sub/mul/div/rem/shl/shr/neg, `! & | ^`, comparisons and `as`.

Interface:  run_ops(ck, quick) -> dict   (see the end of the file for the keys).
Standalone: python3 tools/c03_ops.py [quick|thorough] [seed]
"""
import math, os, sys, time
sys.path.insert(0, os.path.dirname(os.path.abspath(__file__)))
import vlib

INT_TYPES = ["u8", "u16", "u32", "u64", "usize", "i8", "i16", "i32", "i64"]
ALL_TYPES = ["bool"] + INT_TYPES
BITS = {"bool": 1, "u8": 8, "u16": 16, "u32": 32, "u64": 64, "usize": 32,
        "i8": 8, "i16": 16, "i32": 32, "i64": 64}
BINOPS = [("add", "+"), ("sub", "-"), ("mul", "*"), ("div", "/"), ("rem", "%"),
          ("and", "&"), ("or", "|"), ("xor", "^"), ("shl", "<<"), ("shr", ">>"),
          ("lt", "<"), ("gt", ">"), ("le", "<="), ("ge", ">="), ("eq", "=="), ("ne", "!=")]
SYM = dict(BINOPS)
CMP = {"lt", "gt", "le", "ge", "eq", "ne"}
BOOL_BINOPS = ["and", "or", "xor", "eq", "ne"]
HEAVY = {"mul", "div", "rem"}          # circuits quadratic in the width

LABEL = ("SEARCH (testing), not proof: one-operator programs compiled by the real compiler and "
         "evaluated on enumerated / boundary-directed / random operands, compared in the harness with "
         "Rust's checked_* and `as`; exhaustive only where stated (8-bit pairs, 8/16-bit single operands)")


def signed(t):
    return t[0] == "i"


def tmin(t):
    return -(1 << (BITS[t] - 1)) if signed(t) else 0


def tmax(t):
    return (1 << (BITS[t] - 1)) - 1 if signed(t) else (1 << BITS[t]) - 1


def inr(t, v):
    return tmin(t) <= v <= tmax(t)


def t_wrap(t, v):
    n = BITS[t]
    v &= (1 << n) - 1
    return v - (1 << n) if signed(t) and v >> (n - 1) else v


def lit_text(t, v):
    if t == "bool":
        return "true" if v else "false"
    return f"{v}{t}"          # negative: -2i8 (one token; operators are always surrounded by blanks)


# ------------------------------------------------------------------ number theory (divisor pairs)

def _is_prime(n):
    if n < 2:
        return False
    for p in (2, 3, 5, 7, 11, 13, 17, 19, 23, 29, 31, 37):
        if n % p == 0:
            return n == p
    d, s = n - 1, 0
    while d % 2 == 0:
        d //= 2; s += 1
    for a in (2, 3, 5, 7, 11, 13, 17, 19, 23, 29, 31, 37):   # deterministic below 3.3e24
        x = pow(a, d, n)
        if x in (1, n - 1):
            continue
        for _ in range(s - 1):
            x = x * x % n
            if x == n - 1:
                break
        else:
            return False
    return True


def _rho(n):
    if n % 2 == 0:
        return 2
    c = 1
    while True:
        x = y = 2
        d = 1
        while d == 1:
            x = (x * x + c) % n
            y = (y * y + c) % n
            y = (y * y + c) % n
            d = math.gcd(abs(x - y), n)
        if d != n:
            return d
        c += 1


def factor(n):
    if n == 1:
        return {}
    if _is_prime(n):
        return {n: 1}
    d = _rho(n)
    f = factor(d)
    for p, e in factor(n // d).items():
        f[p] = f.get(p, 0) + e
    return f


_DIV_CACHE = {}


def divisors(n):
    if n not in _DIV_CACHE:
        ds = [1]
        for p, e in factor(n).items():
            ds = [d * p ** k for d in ds for k in range(e + 1)]
        _DIV_CACHE[n] = sorted(ds)
    return _DIV_CACHE[n]


# ------------------------------------------------------------------ operand sets

def boundary(t):
    """B of DESIGN Appendix E for type t (all k)."""
    n = BITS[t]
    vals = {0, 1, 2, 3, tmax(t), tmax(t) - 1, tmax(t) - 2, tmin(t), tmin(t) + 1, tmin(t) + 2}
    if signed(t):
        vals |= {-1, -2, -3}
    for k in range(n + 1):
        for d in (-1, 0, 1):
            vals.add((1 << k) + d)
            if signed(t):
                vals.add(-(1 << k) + d)
    return sorted(v for v in vals if inr(t, v))


CORNER = lambda t: [v for v in (0, 1, 2, 3, tmax(t), tmax(t) - 1, tmin(t), tmin(t) + 1, -1, -2) if inr(t, v)]


def rand_val(rng, t):
    """log-uniform magnitude, random sign (so that products / quotients of all sizes occur)."""
    n = BITS[t]
    r = rng.random()
    if r < 0.25:
        return rng.randint(tmin(t), tmax(t))
    k = rng.randint(0, n)
    v = rng.getrandbits(k) if k else 0
    if signed(t) and rng.random() < 0.5:
        v = -v
    return v if inr(t, v) else rng.randint(tmin(t), tmax(t))


def product_targets(t):
    n = BITS[t]
    ts = [1 << (n - 1), (1 << (n - 1)) - 1, (1 << (n - 1)) + 1, 1 << n, (1 << n) - 1, (1 << n) + 1]
    if signed(t):
        ts += [-(1 << (n - 1)), -(1 << (n - 1)) - 1, -(1 << (n - 1)) + 1, -(1 << n), -(1 << n) + 1, -(1 << n) - 1]
    return ts


def target_pairs(t):
    """operand pairs whose exact product / sum / difference / quotient is on a boundary."""
    n = BITS[t]
    out = []
    # products: every divisor pair (both signs) of the targets
    for tg in product_targets(t):
        for d in divisors(abs(tg)):
            e = abs(tg) // d
            cands = [(d, e)] if tg > 0 else []
            if signed(t):
                cands += [(-d, -e)] if tg > 0 else [(-d, e), (d, -e)]
            out += [(x, y) for x, y in cands if inr(t, x) and inr(t, y)]
    B = boundary(t)
    sums = [tmax(t), tmax(t) + 1, tmin(t), tmin(t) - 1, 0, -1, (1 << n) - 1, 1 << n]
    for a in B:
        for s in sums:
            for y in (s - a, a - s):                 # a + y = s ; a - y = s
                if inr(t, y):
                    out.append((a, y))
        if a != 0:
            for tg in (tmax(t), tmin(t), tmax(t) + 1, tmin(t) - 1):
                q = tg // a                           # products just inside / outside the range
                for y in (q - 1, q, q + 1):
                    if inr(t, y):
                        out += [(a, y), (y, a)]
    return out


def pair_set(rng, t, cap, n_random):
    """corner x corner (always kept), boundary-target pairs, B x B (sampled down to `cap`), random."""
    corners = [(x, y) for x in CORNER(t) for y in CORNER(t)]
    targets = target_pairs(t)
    B = boundary(t)
    cross = [(x, y) for x in B for y in B]
    rnd = [(rand_val(rng, t), rand_val(rng, t)) for _ in range(n_random)]
    keep = list(dict.fromkeys(corners))
    rest = list(dict.fromkeys(targets + cross))
    room = max(0, cap - len(keep) - len(rnd))
    if len(rest) > room:
        # products exactly on +-2^(n-1) are the known hard spot: keep all of them, sample the rest
        n = BITS[t]
        hot = [p for p in rest if abs(p[0] * p[1]) in ((1 << (n - 1)), (1 << n))]
        cold = [p for p in rest if abs(p[0] * p[1]) not in ((1 << (n - 1)), (1 << n))]
        rest = hot + rng.sample(cold, max(0, min(len(cold), room - len(hot))))
    return list(dict.fromkeys(keep + rest + rnd))


def single_set(rng, t, n_random):
    return list(dict.fromkeys(boundary(t) + [rand_val(rng, t) for _ in range(n_random)]))


def literals(rng, t, quick):
    """boundary literals of type t (value list)."""
    n = BITS[t]
    core = [0, 1, 2, 3, tmax(t), tmax(t) - 1, n - 1, n, n + 1]
    if signed(t):
        core += [tmin(t), tmin(t) + 1, -1, -2, -3, -(n - 1), -n, -(n + 1)]
    ks = list(range(2, n))
    if n == 8 or not quick:
        pk = ks
    else:
        pk = sorted(set([2, n // 2, n - 2, n - 1] + rng.sample(ks, 2)))
    extra = []
    for k in pk:
        extra.append(1 << k)
        if signed(t):
            extra.append(-(1 << k))
    k = rng.choice(ks)
    extra += [(1 << k) + 1, (1 << k) - 1]
    if n == 8:
        extra += list(range(-7, 8)) if signed(t) else list(range(0, 8))   # every rewritten multiplier
    elif not quick:
        extra += list(range(-(n - 1), n)) if signed(t) else list(range(0, n))
    else:
        extra += [rng.randint(4, n - 2), -rng.randint(4, n - 2)]
    return [v for v in dict.fromkeys(core + extra) if inr(t, v)]


def untyped_literals(rng, t, op, lits_t, quick):
    """literals written without a type suffix (the compiler then sizes the constant-multiplication
    rewrite by 32 bits whatever the operand type): (right-hand list, left-hand list)."""
    n = BITS[t]
    if op == "mul":
        if n == 8 or not quick:
            vs = list(range(-40, 41))
        else:
            vs = [1, 2, 3, 4, 8, 16, 31, 32, 33, -1, -2, -3, -4, -8, -16, -31, -32, -33,
                  rng.randint(5, 30), -rng.randint(5, 30)]
        vs = [v for v in vs if inr(t, v)]
        return vs, vs
    core = [v for v in (0, 1, 2, tmax(t), tmin(t), -1, -2) if inr(t, v)]
    rest = [v for v in lits_t if v not in core]
    vs = core + (rest if not quick else rng.sample(rest, min(3, len(rest))))
    if op in ("shl", "shr"):
        return ([0, 1, n - 1, n, 255] if quick else SHIFT_LITS), vs
    return vs, vs


SHIFT_LITS = [0, 1, 2, 3, 7, 8, 9, 15, 16, 17, 31, 32, 33, 63, 64, 65, 127, 128, 255]


# ------------------------------------------------------------------ jobs

class Job:
    __slots__ = ("jid", "src", "dedup", "T", "U", "R", "op", "shape", "lit", "untyped", "compound", "mode", "xs", "ys", "pairs")

    def text(self, maxrep):
        f = [f"(opprog {self.jid} (src {vlib.quote(self.src)}) (dedup {int(self.dedup)}) (reg 2)",
             f"(tys {self.T} {self.U or '-'} {self.R}) (op {self.op}) (shape {self.shape})",
             f"(lit {self.lit if self.lit is not None else 'none'}) (mode {self.mode})"]
        if self.mode == "list":
            f.append("(xs " + " ".join(map(str, self.xs)) + ")")
            if self.shape == "vv":
                f.append("(ys " + " ".join(map(str, self.ys)) + ")")
                if self.pairs:
                    f.append("(pairs " + " ".join(f"({x} {y})" for x, y in self.pairs) + ")")
        f.append(f"(maxrep {maxrep}))")
        return " ".join(f)

    def ntuples(self):
        vt = self.U if self.shape == "cv" else self.T
        if self.mode == "all":
            n = 1 << BITS[vt]
            return n * (1 << BITS[self.U]) if self.shape == "vv" else n
        if self.shape == "vv":
            return len(self.xs) * len(self.ys) + len(self.pairs)
        return len(self.xs)


def make_jobs(ck, quick):
    rng = ck.rng
    jobs = []

    def add(src, T, U, R, op, shape, lit, mode, xs=(), ys=(), pairs=(), untyped=False, compound=None):
        for dedup in (True, False):
            j = Job()
            j.jid = f"o{len(jobs)}"
            j.src, j.dedup, j.T, j.U, j.R, j.op, j.shape, j.lit, j.mode = src, dedup, T, U, R, op, shape, lit, mode
            j.untyped, j.compound = untyped, compound
            j.xs, j.ys, j.pairs = list(xs), list(ys), list(pairs)
            jobs.append(j)

    n_rand_pairs = 400 if quick else 4000
    n_rand_single = 64 if quick else 1024
    for T in INT_TYPES:
        n = BITS[T]
        small = n == 8
        # the same operand pair set is used for every operator of the type
        light_pairs = None if small else pair_set(rng, T, 80000 if quick else 200000, n_rand_pairs)
        cap_heavy = {16: 20000, 32: 6000, 64: 2500} if quick else {16: 200000, 32: 60000, 64: 25000}
        heavy_pairs = None if small else pair_set(rng, T, cap_heavy[n], n_rand_pairs)
        singles = None if small else single_set(rng, T, n_rand_single)
        all_single = small or (n == 16 and not quick)
        lits_T = literals(rng, T, quick)
        for op, sym in BINOPS:
            shift = op in ("shl", "shr")
            U = "u8" if shift else T
            R = "bool" if op in CMP else T
            # var op var
            src = f"pub fn main(x: {T}, y: {U}) -> {R} {{ x {sym} y }}"
            if small:
                add(src, T, U, R, op, "vv", None, "all")
            elif shift:
                xs = singles if not quick else list(dict.fromkeys(boundary(T) + rng.sample(singles, 16)))
                add(src, T, U, R, op, "vv", None, "list", xs=xs, ys=range(256))
            else:
                add(src, T, U, R, op, "vv", None, "list", pairs=heavy_pairs if op in HEAVY else light_pairs)
            # var op LIT / LIT op var, literal with type suffix and (a subset) without
            right = [(l, False) for l in (SHIFT_LITS if shift else lits_T)]
            left = [(l, False) for l in lits_T]
            un_r, un_l = untyped_literals(rng, T, op, lits_T, quick)
            right += [(l, True) for l in un_r]
            left += [(l, True) for l in un_l]
            for lit, ut in right:
                src = f"pub fn main(x: {T}) -> {R} {{ x {sym} {lit if ut else lit_text(U, lit)} }}"
                if all_single:
                    add(src, T, U, R, op, "vc", lit, "all", untyped=ut)
                else:
                    add(src, T, U, R, op, "vc", lit, "list", xs=singles, untyped=ut)
            for lit, ut in left:
                src = f"pub fn main(x: {U}) -> {R} {{ {lit if ut else lit_text(T, lit)} {sym} x }}"
                if shift or all_single:
                    add(src, T, U, R, op, "cv", lit, "all", untyped=ut)
                else:
                    add(src, T, U, R, op, "cv", lit, "list", xs=singles, untyped=ut)
        # multiplication of a compound operand by a small constant: (x + x) * c == x * 2c exactly
        # (an overflow of x + x implies one of the product), guards the constant-multiplication
        # rewrite against evaluating / panicking on its operand more than once
        for c in ([3, 5] + ([-3] if signed(T) else [])):
            for src in (f"pub fn main(x: {T}) -> {T} {{ (x + x) * {lit_text(T, c)} }}",
                        f"pub fn main(x: {T}) -> {T} {{ {lit_text(T, c)} * (x + x) }}"):
                if n <= 16:
                    add(src, T, T, T, "mul", "vc", 2 * c, "all", compound=c)
                else:
                    add(src, T, T, T, "mul", "vc", 2 * c, "list", xs=singles, compound=c)
        # unary
        for op, sym in (("neg", "-"), ("not", "!")):
            if op == "neg" and not signed(T):
                continue
            src = f"pub fn main(x: {T}) -> {T} {{ {sym}x }}"
            if n <= 16:
                add(src, T, None, T, op, "un", None, "all")
            else:
                add(src, T, None, T, op, "un", None, "list", xs=singles)
    # bool operators
    for op in BOOL_BINOPS:
        sym = SYM[op]
        add(f"pub fn main(x: bool, y: bool) -> bool {{ x {sym} y }}", "bool", "bool", "bool", op, "vv", None,
            "list", xs=[0, 1], ys=[0, 1])
        for lit in (0, 1):
            add(f"pub fn main(x: bool) -> bool {{ x {sym} {lit_text('bool', lit)} }}", "bool", "bool", "bool", op,
                "vc", lit, "list", xs=[0, 1])
            add(f"pub fn main(x: bool) -> bool {{ {lit_text('bool', lit)} {sym} x }}", "bool", "bool", "bool", op,
                "cv", lit, "list", xs=[0, 1])
    add("pub fn main(x: bool) -> bool { !x }", "bool", None, "bool", "not", "un", None, "list", xs=[0, 1])
    # casts: every ordered pair (the type checker decides which it accepts)
    for T in ALL_TYPES:
        for R in ALL_TYPES:
            src = f"pub fn main(x: {T}) -> {R} {{ x as {R} }}"
            if T == "bool":
                add(src, T, None, R, "cast", "cast", None, "list", xs=[0, 1])
            elif BITS[T] <= 16:
                add(src, T, None, R, "cast", "cast", None, "all")
            else:
                add(src, T, None, R, "cast", "cast", None, "list", xs=single_set(rng, T, n_rand_single * 4))
    return jobs


# ------------------------------------------------------------------ classification of mismatches

def classify(j, x, y, got, want):
    """known-finding key of a mismatch, or None."""
    T = j.T
    if j.op == "cast":
        if signed(T) and j.R != "bool" and BITS[j.R] >= 4 * BITS[T] and x < 0:
            return "C03:sext-4x"
        return None
    # (independent of the duplicate-gate option: the carry of `x + x` is the input wire x[0] itself)
    if j.compound is not None and got[0] == "value" and want[0] == "panic":
        return "C03:const-mul-rewrite-operand-recompiled"
    if not signed(T):
        return None
    n = BITS[T]
    MIN = tmin(T)
    if j.shape == "vv":
        a, b = x, y
    elif j.shape == "vc":
        a, b = x, j.lit
    elif j.shape == "cv":
        a, b = j.lit, x
    else:
        a, b = x, None
    if j.op == "neg" and a == MIN and got == ["value", str(MIN)]:
        return "C03:neg-min"
    if j.op == "div" and a == MIN and b == -1 and got == ["value", str(MIN)]:
        return "C03:signed-div-min-by-minus-one"
    if j.op == "mul":
        lit = j.lit if j.shape in ("vc", "cv") else None
        if j.compound is not None:
            lit, x = j.compound, t_wrap(T, 2 * x)
            a, b = x, lit
        rewritten = lit is not None and lit != 0 and abs(lit) < (32 if j.untyped else n)
        if rewritten and lit < 0:
            if lit == -1 and x == MIN and got == ["value", str(MIN)]:
                return "C03:signed-mul-by-minus-one-min"
            if x * -lit == (1 << (n - 1)) and got[0] == "panic" and want == ["value", str(MIN)]:
                return "C03:const-mul-rewrite-intermediate-overflow"
            if x * -lit == MIN and got == ["value", str(MIN)] and want[0] == "panic":
                return "C03:const-mul-rewrite-intermediate-overflow"
            return None
        if not rewritten and a * b == (1 << (n - 1)) and got == ["value", str(MIN)] and want[0] == "panic":
            return "C03:signed-mul-product-2^(n-1)"
    return None


WHAT = {
    "C03:sext-4x": "sign extension by >= 4x the source width fills only the top old_size bits",
    "C03:neg-min": "unary minus of the minimum value returns it without an Overflow panic",
    "C03:signed-div-min-by-minus-one": "MIN / -1 returns MIN without an Overflow panic",
    "C03:signed-mul-by-minus-one-min": "x * -1 (constant rewrite to -x) at x = MIN returns MIN without an Overflow panic",
    "C03:signed-mul-product-2^(n-1)": "signed product of exactly +2^(n-1) returns MIN without an Overflow panic",
    "C03:const-mul-rewrite-operand-recompiled": "e * c (small constant c) is rewritten to e + ... + e and compiles the "
        "operand expression c times; the repeated panic condition of e (the same wire each time) makes "
        "push_panic_if restore an earlier panic record (DESIGN 6-1), dropping the Overflow panics of the additions",
    "C03:const-mul-rewrite-intermediate-overflow": "multiplication by a small negative constant is rewritten to "
        "-(x+...+x): panics when the intermediate sum is 2^(n-1) although the product MIN is representable, and "
        "returns MIN without a panic when the intermediate sum is MIN (product 2^(n-1))",
}


def parse_form(f):
    """(ok N) | (bad NBAD N (mismatch ..)..) | (convert-crash) -> (n, nbad, mismatches)"""
    if f[0] == "ok":
        return int(f[1]), 0, []
    if f[0] == "bad":
        mm = []
        for m in f[3:]:
            x = int(vlib.sx_field(m, "x")[1])
            yf = vlib.sx_field(m, "y")
            y = int(yf[1]) if yf else None
            mm.append((x, y, vlib.sx_field(m, "got")[1:], vlib.sx_field(m, "want")[1:]))
        return int(f[2]), int(f[1]), mm
    return 0, 1, [(None, None, f, ["evaluable"])]


def run_ops(ck, quick, tag="c03ops", maxrep=300, per_class_reports=4, unclassified_reports=12):
    """Generates the opprog jobs, runs them on the real code, reports every mismatch through
    ck.violation (classified ones with their known-finding key) and returns the coverage dict."""
    t0 = time.time()
    jobs = make_jobs(ck, quick)
    order = list(jobs)
    ck.rng.shuffle(order)                       # balance the shards
    texts = {j.jid: j.text(maxrep) for j in jobs}
    rs = vlib.run_jobs(vlib.GVRUN, [texts[j.jid] for j in order], tag, timeout_per_job=2.0, base_timeout=120)
    cov = {"label": LABEL, "jobs": len(jobs), "programs": len(set(j.src for j in jobs)),
           "programs_by_op": {}, "programs_by_type": {}, "programs_by_shape": {},
           "tuples_evaluated": 0, "tuples_by_mode": {"all": 0, "list": 0},
           "gates_max": 0, "compile_errors": 0, "mismatches": 0, "mismatch_classes": {}, "unclassified": 0,
           "cast_pairs_accepted": [], "cast_pairs_rejected": [], "witnesses": {}, "failed_jobs": 0,
           "untyped_literal_programs": len(set(j.src for j in jobs if j.untyped)),
           "untyped_literal_programs_rejected": 0}
    seen_src = set()
    reported = {}
    for j in jobs:
        if j.src not in seen_src:
            seen_src.add(j.src)
            for k, v in (("programs_by_op", j.op), ("programs_by_type", j.T), ("programs_by_shape", j.shape)):
                cov[k][v] = cov[k].get(v, 0) + 1
        r = rs.get(j.jid, "(no-result)")
        opts = {"optimize_duplicate_gates": j.dedup}
        try:
            t = vlib.sx_parse("(" + r + ")")[0]
        except Exception:
            t = [[r]]
        ce = vlib.sx_field(t, "compile-error")
        if ce is not None or (t and t[0] == ["compile-crash"]):
            if j.op == "cast" and ce is not None and (j.T != "bool" and j.R == "bool"):
                # `int as bool` is not Rust; a checker that rejects it is within the property
                if j.dedup:
                    cov["cast_pairs_rejected"].append(f"{j.T}->{j.R}")
                continue
            if j.untyped and ce is not None:
                # programs relying on literal type inference: a rejection is outside C03
                cov["untyped_literal_programs_rejected"] += 1
                continue
            cov["compile_errors"] += 1
            ck.violation("a one-operator program of the documented language does not compile",
                         {"program": j.src, "options": opts, "result": r[:300]}, key=None)
            continue
        if vlib.sx_field(t, "ssa") is None:
            cov["failed_jobs"] += 1
            ck.violation("the harness could not run an operator program (crash / timeout)",
                         {"program": j.src, "options": opts, "job": texts[j.jid][:600], "result": r[:600]},
                         key=None, found_input=True)
            continue
        if j.op == "cast" and j.dedup:
            cov["cast_pairs_accepted"].append(f"{j.T}->{j.R}")
        g = vlib.sx_field(t, "gates")
        cov["gates_max"] = max(cov["gates_max"], int(g[1]))
        for form in ("ssa", "reg"):
            f = vlib.sx_field(t, form)
            n, nbad, mm = parse_form(f[1])
            cov["tuples_evaluated"] += n
            cov["tuples_by_mode"][j.mode] += n
            cov["mismatches"] += nbad
            listed = 0
            for x, y, got, want in mm:
                key = classify(j, x, y, got, want) if x is not None else None
                listed += 1
                ckey = key or "unclassified"
                cov["mismatch_classes"][ckey] = cov["mismatch_classes"].get(ckey, 0) + 1
                if key is None:
                    cov["unclassified"] += 1
                replay = {"program": j.src, "options": opts, "circuit": form, "x": x, "y": y,
                          "literal": j.lit if j.compound is None else j.compound, "literal_has_type_suffix": (not j.untyped) if j.lit is not None else None,
                          "got": " ".join(got), "want": " ".join(want),
                          "types": [j.T, j.U, j.R], "op": j.op, "shape": j.shape,
                          "job": texts[j.jid][:20000]}
                lim = per_class_reports if key else unclassified_reports
                if reported.get(ckey, 0) < lim:
                    reported[ckey] = reported.get(ckey, 0) + 1
                    cov["witnesses"].setdefault(ckey, []).append(replay)
                    what = ("operator result differs from Rust's checked arithmetic / `as`: " +
                            (WHAT[key] if key else f"{j.op} on {j.T}, shape {j.shape}"))
                    ck.violation(what, replay, key=key)
            if nbad > listed:
                # more mismatches than the harness listed: they could not be classified
                cov["mismatch_classes"]["not-listed"] = cov["mismatch_classes"].get("not-listed", 0) + nbad - listed
    cov["cast_pairs_accepted"].sort()
    cov["cast_pairs_rejected"].sort()
    cov["wall_s"] = round(time.time() - t0, 2)
    cov["samples"] = [texts[jobs[i].jid][:400] for i in (0, len(jobs) // 3, 2 * len(jobs) // 3, len(jobs) - 1)]
    cov["rule"] = ("TESTING/SEARCH (not proof). Programs: 9 integer types x 16 binary operators x {x op y, x op LIT, "
                   "LIT op x} (boundary literals incl. negative, MIN, MAX, powers of two, every multiplier the "
                   "constant-multiplication rewrite handles at 8 bits), unary - and !, bool & | ^ == != !, all 100 "
                   "cast pairs; each with duplicate-gate optimisation on and off, SSA and register circuit. "
                   "Operands: all 2^16 pairs at 8 bits, all values of 8/16-bit single-operand programs "
                   "(16-bit var/literal shapes only in the thorough tier), otherwise boundary set x boundary set, "
                   "boundary-target pairs (sum, difference, product, quotient on the overflow boundary), shift "
                   "amounts 0..=255, seeded random; expectation = Rust checked_* / `as` computed in the harness "
                   "(cross-checked against exact integer arithmetic).")
    return cov


# keys of the returned dict:
#   label, rule            text: what was done; says explicitly that this is testing/search, not proof
#   jobs, programs         number of harness jobs (program x dedup) / distinct program texts
#   programs_by_op/type/shape   distinct programs per operator name / left operand type / shape
#   tuples_evaluated       operand tuples evaluated (summed over SSA and register circuit)
#   tuples_by_mode         the same split into exhaustive ("all") and listed operands
#   gates_max              largest SSA circuit seen
#   cast_pairs_accepted / cast_pairs_rejected   "T->R" strings
#   compile_errors, failed_jobs                  programs that did not compile / jobs without a result
#   mismatches             total number of wrong results (0 on a correct tree)
#   mismatch_classes       known-finding key (or "unclassified"/"not-listed") -> count
#   unclassified           mismatches outside every known class
#   witnesses              class -> first few replay dicts
#   samples, wall_s

if __name__ == "__main__":
    tier = sys.argv[1] if len(sys.argv) > 1 else "quick"
    seed = int(sys.argv[2]) if len(sys.argv) > 2 else int(os.environ.get("VERIF_SEED", "1"))
    ok, out = vlib.build_harness()
    if not ok:
        print(out[-3000:]); sys.exit(2)
    ck = vlib.Check("C03", tier, seed)
    cov = run_ops(ck, tier == "quick")
    import json
    wit = cov.pop("witnesses")
    print(json.dumps(cov, indent=1)[:6000])
    for k, ws in wit.items():
        for w in ws[:4]:
            print("WITNESS", k, json.dumps(w))
    print(f"violations recorded: {len(ck.violations)}  known hits: {[k['key'] for k in ck.known_hits]}")
    sys.exit(1 if ck.violations else 0)
