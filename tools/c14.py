"""C14 — no shared mutable state: copies independent, control flow merges variables right."""
from vlib import *
import c01

KINDS = ("wrong-value", "spurious-panic", "missed-panic", "wrong-panic", "eval-crash", "config-failed", "other")


def run(ck):
    return c01.run_prog_property(
        ck, "C14", "C14", KINDS, 300, 8000, ["mutation"],
        "variable state after mutation / control flow differs from the source semantics",
        "Mutation-heavy programs (let mut, op-assignment through nested array/tuple/struct accessors with constant "
        "and input-dependent indices, shadowing, mutation inside nested blocks, branches, arms, loops and callees) "
        "against the by-value interpreter Lang/Sem.v, whose environment lemmas (Props/C14.v) state the frame "
        "properties: assignment changes exactly the innermost declaring binding; a scope's bindings end with it.")
