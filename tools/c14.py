"""C14 — no shared mutable state: copies independent, control flow merges variables right."""
from vlib import *
import c01

KINDS = ("wrong-value", "spurious-panic", "missed-panic", "wrong-panic", "eval-crash", "config-failed", "other")


# every clause of the property as a small program, always run (the generator's random programs come on top)
SCENARIOS = [
    ("copy-array", "pub fn main(a: [u8; 3], v: u8) -> ([u8; 3], [u8; 3]) { let mut b = a; b[1] = v; let mut c = b; c[2] = v + 1u8; (a, b) }"),
    ("copy-struct", "struct P { x: u8, y: (u8, bool) }\npub fn main(p: P, v: u8) -> (u8, u8, u8) { let mut q = p; q.y.0 = v; let r = q; q.x = v; (p.y.0, q.y.0, r.x) }"),
    ("copy-into-tuple", "pub fn main(a: u8, v: u8) -> (u8, (u8, u8)) { let mut x = a; let t = (x, x); x = v; (x, t) }"),
    ("callee-param-collides", "fn double(x: u8) -> u8 { x + x }\npub fn main(a: u8, b: u8) -> u8 { let x = a; let y = double(b); x ^ y }"),
    ("callee-param-collides-main-param", "fn f(b: u8, a: u8) -> u8 { a ^ (b & 15u8) }\npub fn main(a: u8, b: u8) -> (u8, u8, u8) { let r = f(a, b); (a, b, r) }"),
    ("callee-mutation-invisible", "fn inc(mut n: u8) -> u8 { n = n ^ 1u8; n }\npub fn main(a: u8, b: u8) -> (u8, u8) { let mut n = a; n = n ^ 2u8; let m = inc(b); (n, m) }"),
    ("callee-local-collides", "fn g(v: u8) -> u8 { let t = v ^ 3u8; let mut u = t; u = u & 7u8; u }\npub fn main(a: u8, b: u8) -> (u8, u8, u8) { let t = a; let mut u = b; let r = g(a ^ b); u = u ^ 1u8; (t, u, r) }"),
    ("callee-array-by-value", "fn z(mut arr: [u8; 2]) -> u8 { arr[0] = 0u8; arr[1] }\npub fn main(arr: [u8; 2]) -> (u8, [u8; 2]) { let r = z(arr); (r, arr) }"),
    ("call-in-branch", "fn h(mut x: u8) -> u8 { x = x | 1u8; x }\npub fn main(c: bool, a: u8) -> (u8, u8) { let mut x = a; let y = if c { h(x & 6u8) } else { x = x ^ 8u8; h(3u8) }; (x, y) }"),
    ("if-merge", "pub fn main(c: bool, a: u8, b: u8) -> (u8, u8) { let mut x = a; let mut y = b; if c { x = b; } else { y = a; } (x, y) }"),
    ("if-merge-nested-shadow", "pub fn main(c: bool, d: bool, a: u8) -> (u8, u8) { let mut x = a; let y = 7u8; if c { let y = 9u8; if d { x = y; } } else { let x = y; } (x, y) }"),
    ("if-no-else", "pub fn main(c: bool, a: [u8; 2]) -> [u8; 2] { let mut r = a; if c { r[0] = r[1]; r[1] = 0u8; } r }"),
    ("match-merge", "enum E { A, B(u8), C(u8, u8) }\npub fn main(e: E, a: u8) -> (u8, u8) { let mut x = a; let mut y = 0u8; match e { E::A => { x = 1u8; } E::B(v) => { y = v; } E::C(v, w) => { x = v; y = w; } } (x, y) }"),
    ("match-arm-binding-shadows", "pub fn main(t: (bool, u8), x: u8) -> (u8, u8) { let r = match t { (true, x) => x ^ 1u8, (false, y) => x ^ y }; (r, x) }"),
    ("loop-carried", "pub fn main(a: [u8; 4]) -> (u8, u8) { let mut acc = 0u8; let mut last = 0u8; for e in a { acc = acc ^ e; last = e; } (acc, last) }"),
    ("loop-shadow-per-iteration", "pub fn main(a: [u8; 3], s: u8) -> (u8, u8) { let mut acc = s; let k = 1u8; for e in a { let k = k ^ e; acc = acc ^ k; } (acc, k) }"),
    ("loop-index-mutation", "pub fn main(a: [u8; 3], i: usize) -> [u8; 3] { let mut r = a; for j in 0usize..2usize { if j == i { r[j] = r[j + 1usize]; } } r }"),
    ("dynamic-index-write", "pub fn main(a: [(u8, bool); 3], i: usize, v: u8) -> ([(u8, bool); 3], u8) { let mut r = a; r[i].0 = v; (r, a[0].0 ^ a[1].0 ^ a[2].0) }"),
    ("block-scope-ends", "pub fn main(a: u8, b: u8) -> (u8, u8) { let x = a; let mut y = b; { let x = b; y = x ^ 1u8; { let y = a; } } (x, y) }"),
    ("mul-literal-effectful-operand", "pub fn main(x: u8) -> (u8, u8) { let mut a = x & 15u8; let r = ({ a = a + 1u8; a }) * 3u8; (r, a) }"),
    ("mul-literal-left-effectful-operand", "pub fn main(x: i8) -> (i8, i8) { let mut a = x & 7i8; let r = -2i8 * ({ a = a + 1i8; a }); (r, a) }"),
    ("assign-zero-sized-element", "pub fn main(i: usize) -> u8 { let mut a = [(); 3]; a[i] = (); 1u8 }"),
    ("loop-zero-sized-elements", "enum U { Only }\npub fn main(x: u8, u: [U; 3]) -> u8 { let mut c = x; for e in u { c = c ^ 1u8; } c }"),
    ("loop-unit-elements", "pub fn main(x: u8) -> u8 { let mut c = x; for e in [(), ()] { c = c + 1u8; } c }"),
    ("assign-index-effect", "pub fn main(mut a: [u8; 3], v: u8) -> [u8; 3] { a[{ a[1usize] = 7u8; 0usize }] = v; a }"),
    ("assign-nested-index-effect", "pub fn main(mut a: [[u8; 2]; 2], v: u8) -> [[u8; 2]; 2] { a[0usize][{ a[1usize][1usize] = 7u8; 0usize }] = v; a }"),
    ("assign-index-effect-other-var", "pub fn main(mut a: [u8; 3], v: u8) -> ([u8; 3], usize) { let mut i = 0usize; a[{ i = i + 2usize; i }] = v; (a, i) }"),
    ("assign-index-and-value-effects", "pub fn main(mut a: [u8; 4], v: u8) -> [u8; 4] { a[{ a[3usize] = a[3usize] ^ 1u8; 1usize }] = { a[2usize] = v; a[3usize] }; a }"),
    ("short-circuit-and-assignment", "pub fn main(c: bool, a: u8) -> (bool, u8) { let mut x = a; let r = c && ({ x = 5u8; true }); (r, x) }"),
    ("short-circuit-or-assignment", "pub fn main(c: bool, a: u8) -> (bool, u8) { let mut x = a; let r = c || ({ x = x ^ 9u8; a > 7u8 }); (r, x) }"),
    ("short-circuit-nested-assignment", "pub fn main(c: bool, d: bool, a: u8) -> (bool, u8, u8) { let mut x = a; let mut y = 1u8; let r = (c && ({ x = 5u8; d })) || ({ y = x; c }); (r, x, y) }"),
    ("short-circuit-branch-assignment", "pub fn main(c: bool, a: u8) -> u8 { let mut x = a; let r = c && (if a > 2u8 { x = 5u8; true } else { false }); x }"),
    ("short-circuit-no-effect", "fn side(mut q: u8) -> bool { q = q ^ 255u8; q > 9u8 }\npub fn main(c: bool, q: u8) -> (bool, u8) { let r = c && side(q); (r, q) }"),
]


def scenario_sources(ck):
    return list(SCENARIOS)


def run(ck):
    return c01.run_prog_property(
        ck, "C14", "C14", KINDS, 300, 8000, ["mutation"],
        "variable state after mutation / control flow differs from the source semantics",
        "Mutation-heavy programs (let mut, op-assignment through nested array/tuple/struct accessors with constant "
        "and input-dependent indices, shadowing, mutation inside nested blocks, branches, arms, loops and callees) "
        "against the by-value interpreter Lang/Sem.v, whose environment lemmas (Props/C14.v) state the frame "
        "properties: assignment changes exactly the innermost declaring binding; a scope's bindings end with it.",
        extra_sources=scenario_sources)
