"""Gadget requests on wire lists for the `builder` job kind (C03) and their independent
evaluation on integers.  Bit vectors are MSB first.  The evaluation here is written from
the mathematical meaning of each gadget (sum mod 2^n and carries, two's complement,
borrow / signed overflow, quotient / remainder, comparisons) and shares no code with the
Coq model or the Rust implementation."""
import gen_builder as GB

# kind -> number of result handles for width n
def nres(kind, n):
    return {"eqc": 1, "addc": n + 2, "negc": n, "subc": n + 1, "udiv": 2 * n, "sdiv": 2 * n,
            "gt": 1, "cmp": 2, "mult": 2, "condswap": 2}[kind]


BINARY_LIST = ("eqc", "addc", "subc", "udiv", "sdiv", "gt", "cmp")


def fmt_ops(ops):
    return "(" + " ".join(map(str, ops)) + ")"


def fmt_req(req):
    """req = (kind, dict) for gadget requests, (kind, [ops]) for the simple ones."""
    k, p = req
    if isinstance(p, list):
        return "(%s %s)" % (k, " ".join(map(str, p)))
    if k == "negc":
        return "(negc %s)" % fmt_ops(p["a"])
    if k in ("eqc", "addc", "udiv", "sdiv"):
        return "(%s %s %s)" % (k, fmt_ops(p["a"]), fmt_ops(p["b"]))
    if k == "subc":
        return "(subc %s %s %d)" % (fmt_ops(p["a"]), fmt_ops(p["b"]), p["signed"])
    if k == "gt":
        return "(gt %d %s %s)" % (p["bits"], fmt_ops(p["a"]), fmt_ops(p["b"]))
    if k == "cmp":
        return "(cmp %d %s %d %s %d)" % (p["bits"], fmt_ops(p["a"]), p["sx"], fmt_ops(p["b"]), p["sy"])
    if k in ("mult", "condswap"):
        return "(%s %s)" % (k, " ".join(map(str, p["w"])))
    if k == "ext":
        return "(ext %s %d %d)" % (fmt_ops(p["a"]), p["signed"], p["bits"])
    raise ValueError(k)


def fmt_job(jid, dedup, inputs, reqs, outs, truth):
    return "(builder %s (dedup %d) (inputs %s) (reqs %s) (outs %s)%s)" % (
        jid, 1 if dedup else 0, " ".join(map(str, inputs)), " ".join(fmt_req(r) for r in reqs),
        " ".join(map(str, outs)), " (truth 1)" if truth else "")


# ------------------------------------------------------------------ integer meaning

def to_signed(v, n):
    return v - (1 << n) if n > 0 and v >> (n - 1) else v


def bits_of(v, n):
    """n bits of v (taken mod 2^n), MSB first"""
    return [(v >> (n - 1 - i)) & 1 for i in range(n)]


def trunc_div(a, b):
    q = abs(a) // abs(b)
    return -q if (a < 0) != (b < 0) else q


def meaning(kind, p, x, y, n):
    """Expected result bits (list of 0/1, in handle order) for operand values x, y (unsigned
    readings of the n-bit operand lists)."""
    M = 1 << n
    if kind == "eqc":
        return [1 if x == y else 0]
    if kind == "addc":
        s = x + y
        half = 1 << (n - 1) if n >= 1 else 1
        carry_prev = ((x % half) + (y % half)) // half if n >= 2 else 0
        return bits_of(s % M, n) + [s // M, carry_prev]
    if kind == "negc":
        return bits_of((M - x) % M, n)
    if kind == "subc":
        if p["signed"]:
            d = to_signed(x, n) - to_signed(y, n)
            ov = 0 if -(M >> 1) <= d < (M >> 1) else 1
            return bits_of(d % M, n) + [ov]
        return bits_of((x - y) % M, n) + [1 if x < y else 0]
    if kind == "udiv":
        if y == 0:   # as the gadget defines it: every quotient bit set, remainder = dividend
            return bits_of(M - 1, n) + bits_of(x, n)
        return bits_of(x // y, n) + bits_of(x % y, n)
    if kind == "sdiv":
        sx, sy = to_signed(x, n), to_signed(y, n)
        if sy == 0:  # as the gadget defines it
            return bits_of(1 if sx < 0 else M - 1, n) + bits_of(x, n)
        q = trunc_div(sx, sy)       # MIN / -1 = 2^(n-1): its n low bits are MIN again
        r = sx - q * sy
        return bits_of(q % M, n) + bits_of(r % M, n)
    if kind == "gt":
        return [1 if x > y else 0]
    if kind == "cmp":
        if p["sx"] or p["sy"]:
            x, y = to_signed(x, n), to_signed(y, n)
        return [1 if x < y else 0, 1 if x > y else 0]
    raise ValueError(kind)


def eval_requests(n_inputs, reqs):
    """Truth tables (python ints, bit k = assignment k) of every result handle, computed
    from the integer meaning.  Returns (handle tables, val function, number of assignments)."""
    n = n_inputs
    size = 1 << n
    mask = (1 << size) - 1
    tabs = {0: 0, 1: mask}
    for i in range(n):
        t = 0
        for k in range(size):
            if (k >> (n - 1 - i)) & 1:
                t |= 1 << k
        tabs[2 + i] = t
    hs = []

    def val(o):
        if isinstance(o, str):
            return hs[int(o[1:])]
        return tabs[int(o)]

    def value_at(ts, k):
        v = 0
        for t in ts:
            v = (v << 1) | ((t >> k) & 1)
        return v

    for kind, p in reqs:
        if isinstance(p, list):
            v = [val(o) for o in p]
            if kind == "xor": hs.append(v[0] ^ v[1])
            elif kind == "and": hs.append(v[0] & v[1])
            elif kind == "not": hs.append(v[0] ^ mask)
            elif kind == "or": hs.append(v[0] | v[1])
            elif kind == "eq": hs.append((v[0] ^ v[1]) ^ mask)
            elif kind == "mux": hs.append((v[0] & v[1]) | ((v[0] ^ mask) & v[2]))
            elif kind == "adder":
                hs.append(v[0] ^ v[1] ^ v[2])
                hs.append((v[0] & v[1]) | (v[2] & (v[0] ^ v[1])))
            else:
                raise ValueError(kind)
            continue
        if kind == "mult":
            x, y, z, c = [val(o) for o in p["w"]]
            xy = x & y
            hs.append(xy ^ z ^ c)
            hs.append((xy & z) | (c & (xy ^ z)))
            continue
        if kind == "condswap":
            s, x, y = [val(o) for o in p["w"]]
            hs.append((s & y) | ((s ^ mask) & x))
            hs.append((s & x) | ((s ^ mask) & y))
            continue
        if kind == "ext":
            # widening cast: zero extension keeps the unsigned value, sign extension the signed one
            a = [val(o) for o in p["a"]]
            w, nb = len(a), p["bits"]
            out = [0] * nb
            for k in range(size):
                x = value_at(a, k)
                v = to_signed(x, w) if (p["signed"] and w) else x
                for j, bit in enumerate(bits_of(v % (1 << nb), nb)):
                    if bit:
                        out[j] |= 1 << k
            hs.extend(out)
            continue
        a = [val(o) for o in p["a"]]
        b = [val(o) for o in p.get("b", [])]
        if kind in ("gt", "cmp"):
            a, b = a[:p["bits"]], b[:p["bits"]]
        if kind == "eqc" and len(a) != len(b):
            hs.append(0)
            continue
        w = len(a)
        out = [0] * nres(kind, w)
        for k in range(size):
            bits = meaning(kind, p, value_at(a, k), value_at(b, k), w)
            for j, bit in enumerate(bits):
                if bit:
                    out[j] |= 1 << k
        hs.extend(out)
    return hs, val, size


# ------------------------------------------------------------------ generators

def operand_list(rng, n, mode, inputs, nh, consts_p=0.25):
    """mode 'const': constants only; 'mixed': inputs / constants / earlier handles"""
    if mode == "const":
        return [rng.choice([0, 1]) for _ in range(n)]
    out = []
    for _ in range(n):
        r = rng.random()
        if r < consts_p:
            out.append(rng.choice([0, 1]))
        elif nh and r < consts_p + 0.3:
            out.append("h%d" % rng.randrange(nh))
        else:
            out.append(rng.choice(inputs))
    return out


def gadget_request(rng, kind, n, a, b):
    if kind == "negc":
        return (kind, {"a": a})
    if kind == "subc":
        return (kind, {"a": a, "b": b, "signed": rng.choice([0, 1])})
    if kind == "gt":
        return (kind, {"a": a, "b": b, "bits": n})
    if kind == "cmp":
        s = rng.choice([(0, 0), (1, 1), (1, 1), (0, 1), (1, 0)])
        return (kind, {"a": a, "b": b, "bits": n, "sx": s[0], "sy": s[1]})
    return (kind, {"a": a, "b": b})


def count_handles(reqs):
    nh = 0
    for k, p in reqs:
        if isinstance(p, list):
            nh += GB.NRES.get(k, 1)
        elif k in ("mult", "condswap"):
            nh += 2
        elif k == "ext":
            nh += p["bits"]
        else:
            w = p["bits"] if k in ("gt", "cmp") else len(p["a"])
            if k == "eqc":
                nh += 1
            else:
                nh += nres(k, w)
    return nh
