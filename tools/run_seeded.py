#!/usr/bin/env python3
"""Applies each seeded change to /repo (working tree only), runs the checks named for it, undoes it.
usage: run_seeded.py <dir> [<dir>...]   (each dir holds patch.diff and meta.json with "property")"""
import json, os, subprocess, sys, time
VERIF = os.path.dirname(os.path.dirname(os.path.abspath(__file__)))
def sh(cmd, **kw):
    return subprocess.run(cmd, shell=True, text=True, capture_output=True, **kw)
res = {}
for d in sys.argv[1:]:
    d = os.path.abspath(d.rstrip("/"))
    meta = json.load(open(os.path.join(d, "meta.json")))
    props = meta.get("checks") or [meta["property"]]
    assert sh("git -C /repo status --porcelain").stdout.strip() == "", "repo not clean"
    a = sh(f"git -C /repo apply {d}/patch.diff")
    if a.returncode != 0:
        res[d] = "patch does not apply"; print(d, res[d]); continue
    try:
        out = {}
        for p in props:
            t = time.time()
            r = sh(f"./check {p} --tier quick", cwd=VERIF, timeout=1500)
            viol = [l for l in r.stdout.splitlines() if l.startswith("VIOLATION")]
            what = ""
            if viol:
                path = viol[0].split("replay=")[1].split()[0]
                try:
                    what = json.load(open(path)).get("what", "")[:160]
                except Exception:
                    pass
            out[p] = {"rc": r.returncode, "violations": len(viol), "nfi": sum("no-failing-input-found" in v for v in viol),
                      "first": what, "s": round(time.time() - t)}
        res[d] = out
        print(os.path.basename(d), json.dumps(out))
    finally:
        sh("git -C /repo checkout -- .")
json.dump(res, open(os.path.join(VERIF, "work", "seeded_results.json"), "w"), indent=1)
