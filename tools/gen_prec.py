"""Parser oracle (C01): random expression TREES over u8 / i8 / bool variables, printed with the MINIMAL
parentheses that Rust's precedence and associativity require, evaluated by an independent Python
interpreter of the tree (checked arithmetic, left-to-right evaluation, short circuit). The real compiler
parses the text; its circuit must return what the tree denotes. A parser that groups operators differently
from Rust (precedence, associativity, `as`, unary operators, if / else-if chains and match as operands)
is caught on the first input that distinguishes the two groupings. The specification interpreter Sem.v cannot
see such defects (it reads the parser's output)."""

# precedence levels (higher binds tighter), Rust reference
PREC = {"||": 1, "&&": 2, "==": 3, "!=": 3, "<": 3, ">": 3, "<=": 3, ">=": 3, "|": 4, "^": 5, "&": 6, "<<": 7, ">>": 7,
        "+": 8, "-": 8, "*": 9, "/": 9, "%": 9}
P_AS, P_UNARY, P_ATOM = 10, 11, 12
CMP = ("==", "!=", "<", ">", "<=", ">=")
ARITH = ("+", "-", "*", "/", "%")
BITS = ("&", "|", "^")
RANGE = {"u8": (0, 255), "i8": (-128, 127)}


class Panic(Exception):
    pass


class Unspecified(Exception):
    """MIN % -1: either outcome is acceptable; the whole evaluation is not compared"""


def wrap(t, v):
    lo, hi = RANGE[t]
    v &= 0xFF
    return v - 256 if (t == "i8" and v > 127) else v


# tree: ("var", name, ty) ("lit", v, ty) ("bin", op, l, r, ty) ("un", op, e, ty) ("cast", e, ty)
#       ("if", [(cond, e)...], else_e, ty) ("match", scrut, [(lit or None, e)...], ty)
def ty(e):
    return e[-1]


def gen(rng, t, d, vars_):
    if d <= 0 or rng.random() < 0.18:
        cands = [v for v, vt in vars_ if vt == t]
        if cands and rng.random() < 0.7:
            return ("var", rng.choice(cands), t)
        if t == "bool":
            return ("lit", rng.random() < 0.5, t)
        lo, hi = RANGE[t]
        return ("lit", rng.choice([0, 1, 2, 3, 7, hi, lo if lo < 0 else 5, -1 if lo < 0 else 100]), t)
    r = rng.random()
    if t == "bool":
        if r < 0.30:
            ot = rng.choice(["u8", "i8"])
            return ("bin", rng.choice(CMP), gen(rng, ot, d - 1, vars_), gen(rng, ot, d - 1, vars_), t)
        if r < 0.55:
            return ("bin", rng.choice(["&&", "||"]), gen(rng, t, d - 1, vars_), gen(rng, t, d - 1, vars_), t)
        if r < 0.70:
            return ("bin", rng.choice(BITS + ("==", "!=")), gen(rng, t, d - 1, vars_), gen(rng, t, d - 1, vars_), t)
        if r < 0.82:
            return ("un", "!", gen(rng, t, d - 1, vars_), t)
    else:
        if r < 0.40:
            return ("bin", rng.choice(ARITH), gen(rng, t, d - 1, vars_), gen(rng, t, d - 1, vars_), t)
        if r < 0.55:
            return ("bin", rng.choice(BITS), gen(rng, t, d - 1, vars_), gen(rng, t, d - 1, vars_), t)
        if r < 0.65:
            return ("bin", rng.choice(["<<", ">>"]), gen(rng, t, d - 1, vars_), gen(rng, "u8", d - 1, vars_), t)
        if r < 0.73:
            return ("un", "-" if t == "i8" and rng.random() < 0.6 else "!", gen(rng, t, d - 1, vars_), t)
        if r < 0.82:
            src = rng.choice([x for x in ("u8", "i8", "bool") if x != t])
            return ("cast", gen(rng, src, d - 1, vars_), t)
    if rng.random() < 0.7:
        n = rng.choice([1, 2, 2, 3])
        return ("if", [(gen(rng, "bool", d - 1, vars_), gen(rng, t, d - 1, vars_)) for _ in range(n)],
                gen(rng, t, d - 1, vars_), t)
    st = rng.choice(["u8", "i8"])
    lo, hi = RANGE[st]
    lits = rng.sample([0, 1, 2, hi, lo if lo < 0 else 9], 2)
    return ("match", gen(rng, st, d - 1, vars_), [(l, gen(rng, t, d - 1, vars_)) for l in lits] + [(None, gen(rng, t, d - 1, vars_))], t)


def lit_src(v, t):
    if t == "bool":
        return "true" if v else "false"
    return f"{v}{t}"


def show(e, ctx=0, right=False):
    """text of e as an operand in a context of precedence ctx (parenthesised iff Rust needs it)"""
    k = e[0]
    if k == "var":
        return e[1]
    if k == "lit":
        s = lit_src(e[1], e[2])
        # a negative literal as the operand of `as` / a unary operator or after a binary minus: keep it readable and
        # unambiguous for both grammars
        return f"({s})" if (e[2] != "bool" and e[1] < 0 and ctx >= P_AS) else s
    if k == "bin":
        op = e[1]
        p = PREC[op]
        # left-associative: the right operand needs parentheses at equal precedence; comparisons do not chain
        lp = p + 1 if op in CMP else p
        s = f"{show(e[2], lp)} {op} {show(e[3], p + 1, True)}"
        return f"({s})" if p < ctx else s
    if k == "un":
        s = f"{e[1]}{show(e[2], P_UNARY)}"
        return f"({s})" if P_UNARY < ctx else s
    if k == "cast":
        s = f"{show(e[1], P_AS)} as {e[2]}"
        # `a as u8 < b` would be read as a generic by rustc; comparisons and shifts after a cast get parentheses
        return f"({s})" if (P_AS < ctx or 3 <= ctx <= 7) else s
    if k == "if":
        s = ""
        for i, (c, b) in enumerate(e[1]):
            s += ("if " if i == 0 else " else if ") + show(c, 0) + " { " + show(b, 0) + " }"
        s += " else { " + show(e[2], 0) + " }"
        # as a LEFT operand Rust's statement grammar is special; the generator only places it inside `let r = ..;`,
        # where it is an ordinary expression. Parenthesise when it is the left operand of a binary operator or the
        # operand of `as` / a unary operator (rustc requires it there); as a right operand it needs none.
        return f"({s})" if (ctx > 0 and not right) else s
    if k == "match":
        arms = ", ".join((lit_src(l, ty(e[1])) if l is not None else "_") + " => " + show(b, 0) for l, b in e[2])
        s = "match " + show(e[1], 0) + " { " + arms + " }"
        return f"({s})" if (ctx > 0 and not right) else s
    raise ValueError(k)


def checked(t, v):
    lo, hi = RANGE[t]
    if not lo <= v <= hi:
        raise Panic("Overflow")
    return v


def ev(e, env):
    k = e[0]
    if k == "var":
        return env[e[1]]
    if k == "lit":
        return e[1]
    if k == "un":
        v = ev(e[2], env)
        if e[1] == "!":
            return (not v) if ty(e) == "bool" else wrap(ty(e), ~v)
        return checked(ty(e), -v)
    if k == "cast":
        v = ev(e[1], env)
        if ty(e[1]) == "bool":
            return 1 if v else 0
        if ty(e) == "bool":
            return (v & 1) == 1
        return wrap(ty(e), v)
    if k == "if":
        for c, b in e[1]:
            if ev(c, env):
                return ev(b, env)
        return ev(e[2], env)
    if k == "match":
        s = ev(e[1], env)
        for l, b in e[2]:
            if l is None or l == s:
                return ev(b, env)
    if k == "bin":
        op, t = e[1], ty(e)
        if op == "&&":
            return ev(e[2], env) and ev(e[3], env)
        if op == "||":
            return ev(e[2], env) or ev(e[3], env)
        a = ev(e[2], env)
        b = ev(e[3], env)
        if op in CMP:
            return {"==": a == b, "!=": a != b, "<": a < b, ">": a > b, "<=": a <= b, ">=": a >= b}[op]
        if t == "bool":
            return {"&": a and b, "|": a or b, "^": a != b}[op]
        if op in ("<<", ">>"):
            if b >= 8:
                raise Panic("Overflow")
            return wrap(t, a << b) if op == "<<" else (a >> b)
        if op in ("/", "%"):
            if b == 0:
                raise Panic("DivByZero")
            if t == "i8" and a == -128 and b == -1:
                if op == "%":
                    raise Unspecified()
                raise Panic("Overflow")
            q = abs(a) // abs(b) * (1 if (a < 0) == (b < 0) else -1)
            return q if op == "/" else a - q * b
        if op in BITS:
            return wrap(t, {"&": a & b, "|": a | b, "^": a ^ b}[op])
        return checked(t, {"+": a + b, "-": a - b, "*": a * b}[op])
    raise ValueError(k)


def has_neg_mul_literal(e):
    """x * <negative literal> is the known finding const-mul-rewrite-intermediate-overflow: not generated"""
    if e[0] == "bin":
        if e[1] == "*" and any(x[0] == "lit" for x in (e[2], e[3])):
            return True
        return has_neg_mul_literal(e[2]) or has_neg_mul_literal(e[3])
    if e[0] in ("un", "cast"):
        return has_neg_mul_literal(e[2] if e[0] == "un" else e[1])
    if e[0] == "if":
        return any(has_neg_mul_literal(c) or has_neg_mul_literal(b) for c, b in e[1]) or has_neg_mul_literal(e[2])
    if e[0] == "match":
        return has_neg_mul_literal(e[1]) or any(has_neg_mul_literal(b) for _, b in e[2])
    return False


VARS = [("a", "u8"), ("b", "u8"), ("x", "i8"), ("y", "i8"), ("p", "bool"), ("q", "bool")]


def program(rng, depth=4):
    while True:
        t = rng.choice(["u8", "i8", "bool"])
        e = gen(rng, t, depth, VARS)
        if not has_neg_mul_literal(e):
            break
    src = "pub fn main(" + ", ".join(f"{v}: {vt}" for v, vt in VARS) + f") -> {t} {{ let r = {show(e)}; r }}"
    return e, t, src


def inputs(rng, n):
    out = []
    for _ in range(n):
        env = {}
        for v, vt in VARS:
            if vt == "bool":
                env[v] = rng.random() < 0.5
            else:
                lo, hi = RANGE[vt]
                env[v] = rng.choice([lo, hi, 0, 1, 2, 7, 8, rng.randint(lo, hi), rng.randint(lo, hi)])
        out.append(env)
    return out


def bits_of(v, t):
    if t == "bool":
        return "1" if v else "0"
    return format(v & 0xFF, "08b")


# ---- statements: compound assignments through accessor chains, if-statements, blocks -------------------------------
ASSIGN_OPS = ["+", "-", "*", "/", "%", "&", "|", "^", "<<", ">>"]
# the mutable state of a generated statement program: name -> (type text, initialiser text, leaf layout)
STATE = [
    ("m", "u8", "b"), ("n", "i8", "y"),
    ("ua", "[u8; 3]", "[a, b, 3u8]"), ("tu", "(u8, i8)", "(a, x)"), ("sa", "[i8; 2]", "[x, y]"),
    ("ne", "((u8, [i8; 2]), bool)", "((a, [x, y]), p)"),
]


def init_state(env):
    return {"m": env["b"], "n": env["y"], "ua": [env["a"], env["b"], 3], "tu": [env["a"], env["x"]],
            "sa": [env["x"], env["y"]], "ne": [[env["a"], [env["x"], env["y"]]], env["p"]]}


def targets(rng):
    """(source text, path into the state, element type)"""
    k3, k2 = rng.randint(0, 2), rng.randint(0, 1)
    us = rng.choice(["", "usize"])
    return rng.choice([
        ("m", ("m",), "u8"), ("n", ("n",), "i8"),
        (f"ua[{k3}{us}]", ("ua", k3), "u8"), ("ua[i]", ("ua", "i"), "u8"),
        ("tu.0", ("tu", 0), "u8"), ("tu.1", ("tu", 1), "i8"),
        (f"sa[{k2}{us}]", ("sa", k2), "i8"),
        ("ne.0.0", ("ne", 0, 0), "u8"), (f"ne.0.1[{k2}{us}]", ("ne", 0, 1, k2), "i8"),
    ])


def gen_stmt(rng, d):
    r = rng.random()
    if d > 0 and r < 0.2:
        c = gen(rng, "bool", 2, VARS)
        body = [gen_stmt(rng, d - 1) for _ in range(rng.choice([1, 1, 2]))]
        els = [gen_stmt(rng, d - 1) for _ in range(rng.choice([0, 0, 1, 2]))] if rng.random() < 0.5 else None
        return ("ifs", c, body, els)
    if d > 0 and r < 0.27:
        return ("blk", [gen_stmt(rng, d - 1) for _ in range(rng.choice([1, 2]))])
    text, path, t = targets(rng)
    op = rng.choice(ASSIGN_OPS + ["="])
    while True:
        rhs = gen(rng, "u8" if op in ("<<", ">>") else t, rng.choice([0, 1, 2]), VARS)
        if not (op == "*" and (rhs[0] == "lit" or has_neg_mul_literal(rhs))) and not has_neg_mul_literal(rhs):
            break
    return ("asg", text, path, t, op, rhs)


def show_stmt(s, last):
    if s[0] == "ifs":
        out = "if " + show(s[1], 0) + " { " + show_stmts(s[2]) + " }"
        if s[3] is not None:
            out += " else { " + show_stmts(s[3]) + " }"
        return out
    if s[0] == "blk":
        return "{ " + show_stmts(s[1]) + " }"
    _, text, path, t, op, rhs = s
    return f"{text} {op if op == '=' else op + '='} {show(rhs, 0)};"


def show_stmts(ss):
    return " ".join(show_stmt(s, k == len(ss) - 1) for k, s in enumerate(ss))


def _get(st, path, i):
    v = st[path[0]]
    for p in path[1:]:
        v = v[i if p == "i" else p]
    return v


def _set(st, path, i, val):
    if len(path) == 1:
        st[path[0]] = val
        return
    v = st[path[0]]
    for p in path[1:-1]:
        v = v[i if p == "i" else p]
    v[i if path[-1] == "i" else path[-1]] = val


def run_stmts(ss, st, env):
    for s in ss:
        if s[0] == "ifs":
            if ev(s[1], env):
                run_stmts(s[2], st, env)
            elif s[3] is not None:
                run_stmts(s[3], st, env)
        elif s[0] == "blk":
            run_stmts(s[1], st, env)
        else:
            _, text, path, t, op, rhs = s
            i = env["a"] % 3
            if op == "=":
                _set(st, path, i, ev(rhs, env))
            else:
                cur = _get(st, path, i)
                _set(st, path, i, ev(("bin", op, ("lit", cur, t), rhs, t), env))


def program_stmts(rng):
    ss = [gen_stmt(rng, 2) for _ in range(rng.choice([1, 2, 3, 4]))]
    decl = " ".join(f"let mut {n}: {t} = {init};" for n, t, init in STATE)
    ret_t = "(" + ", ".join(t for _, t, _ in STATE) + ")"
    src = ("pub fn main(" + ", ".join(f"{v}: {vt}" for v, vt in VARS) + f") -> {ret_t} {{ let i: usize = (a % 3u8) as usize; "
           + decl + " " + show_stmts(ss) + " (" + ", ".join(n for n, _, _ in STATE) + ") }")
    return ("stmts", ss), "stmts", src


def state_bits(st):
    return (bits_of(st["m"], "u8") + bits_of(st["n"], "i8") + "".join(bits_of(v, "u8") for v in st["ua"])
            + bits_of(st["tu"][0], "u8") + bits_of(st["tu"][1], "i8") + "".join(bits_of(v, "i8") for v in st["sa"])
            + bits_of(st["ne"][0][0], "u8") + "".join(bits_of(v, "i8") for v in st["ne"][0][1]) + bits_of(st["ne"][1], "bool"))


def result_bits(e, t, env):
    """bits the circuit must return (raises Panic / Unspecified)"""
    if t == "stmts":
        st = init_state(env)
        run_stmts(e[1], st, env)
        return state_bits(st)
    v = ev(e, env)
    return None if v is None else bits_of(v, t)
