"""C07 — the front end is total: any input text gives Ok or errors, never a crash or hang.

PROOF PART (Coq, coq/Props/C07.v): the scanner (scan.rs) and the index arithmetic of error
rendering (lib.rs::prettify_meta) are modelled completely; the model is tied to the Rust
code by `scan` and `pretty` jobs whose results must be textually equal.
SEARCH PART (no proof, no model): `front` jobs run the real compile / prettify / parse_arg
on enumerated perturbations of the corpus, token soup and noise in an isolated child with
a deadline; the parser and the type checker are NOT modelled in Coq (DESIGN.md §8)."""
import os, re, random
from vlib import *
import vlib

CORPUS = os.path.join(VERIF, "corpus", "programs")
MAX_DEPTH = 200          # DESIGN.md §7: nesting depth bound of the generator
DEADLINE_S = 5.0         # DESIGN.md §7: "promptly"
# corpus programs whose *valid* compilation is legitimately long (large circuits); they are
# scanned, but run through `front` only in the thorough tier
SLOW_FOR_FRONT = {"docs_computational_model-185", "docs_computational_model-184"}

KEYWORDS = "const struct enum fn let if else mut match as pub for in".split()
OPERATORS = ("( ) { } [ ] , ; . .. ..= ^ ^= & && &= | || |= ! != = == => : :: > >> >>= >= < << <<= <= "
             "% %= * *= + += / /= - -= ->").split()
TYPE_NAMES = "bool u8 u16 u32 u64 usize i8 i16 i32 i64".split()
BINOPS = "+ - * / % & | ^ && || == != < <= > >= << >>".split()
SUFFIXES = "i8 i16 i32 i64 usize u8 u16 u32 u64".split()
BOUNDARY = [0, 1, 127, 128, 255, 256, 32767, 32768, 65535, 65536, 2147483647, 2147483648, 4294967295,
            4294967296, 9223372036854775807, 9223372036854775808, 9223372036854775809,
            18446744073709551615, 18446744073709551616, 99999999999999999999, 10 ** 40]

TOKEN_RE = re.compile(
    r"(?P<ws>\s+)|(?P<lc>//[^\n]*)|(?P<bc>/\*.*?\*/)|(?P<word>[A-Za-z_0-9]+)"
    r"|(?P<op>\.\.=|>>=|<<=|\.\.|&&|\|\||==|!=|>=|<=|>>|<<|\+=|-=|\*=|/=|%=|\^=|&=|\|=|->|=>|::)"
    r"|(?P<ch>.)", re.S)


def tokenize(text):
    """(start, end) byte... char offsets of the tokens of `text` (whitespace/comments skipped)."""
    out = []
    for m in TOKEN_RE.finditer(text):
        if m.lastgroup in ("ws", "lc", "bc"):
            continue
        out.append((m.start(), m.end()))
    return out


def q(text):
    """quote the UTF-8 bytes of a python str"""
    return quote(text.encode("utf-8", "replace").decode("latin1"))


ACCESS_SEEDS = [
    ("seed-tuple-assign", "pub fn main(x: u8) -> u8 { let mut t = (x, x); t.1 = 1; t.0 += 2; t.1 }"),
    ("seed-nested-assign", "pub fn main(x: u8) -> u8 { let mut t = [((x, x, 2), true); 2]; t[1].0.2 = 1; t[0].0.1 }"),
    ("seed-struct-assign", "struct S { a: (u8, bool), b: [u8; 2] }\npub fn main(x: u8) -> u8 { let mut s = S { a: (x, true), b: [x; 2] }; s.a.0 = 1; s.b[1] = 2; s.a.0 + s.b[1] }"),
    ("seed-unit-assign", "pub fn main(x: u8) -> u8 { let mut t = (); let mut u = (x,); u.0 = 1; u.0 }"),
    ("seed-tuple-read", "pub fn main(x: (u8, u8, bool)) -> u8 { if x.2 { x.0 } else { x.1 } }"),
    ("seed-array-ops", "pub fn main(x: [u8; 3]) -> u8 { let mut a = x; a[2] = a[0]; let b = [a[1]; 2]; let c = a[0..2]; b[1] + c[1] }"),
    ("seed-enum-arity", "enum E { A, B(u8), C(u8, bool) }\npub fn main(x: u8) -> u8 { let e = E::C(x, true); match e { E::A => 0, E::B(y) => y, E::C(y, true) => y + 1, E::C(_, false) => 2 } }"),
    ("seed-call-arity", "fn f(a: u8, b: (u8, u8)) -> u8 { a + b.1 }\npub fn main(x: u8) -> u8 { f(x, (x, 1)) }"),
    ("seed-shift-cast", "pub fn main(x: u16) -> u8 { ((x >> 1u8) << 2u8) as u8 }"),
    ("seed-for-range", "pub fn main(x: u8) -> u8 { let mut r = x; for i in 0..3 { r = r + (i as u8); } for (a, b) in join([(1u8, x)], [(1u8, x, x)]) { r = a.1 + b.2; } r }"),
    ("seed-const-size", "const N: usize = 2;\npub fn main(x: [u8; N]) -> u8 { let mut y = [0u8; N]; y[1] = x[0]; y[1] }"),
    ("seed-match-tuple", "pub fn main(x: (u8, (bool, i8))) -> u8 { match x { (0, (true, _)) => 1, (1..5, (_, -3..=2)) => 2, (a, (_, _)) => a } }"),
]


def load_corpus():
    progs = []
    for f in sorted(os.listdir(CORPUS)):
        if f.endswith(".garble"):
            progs.append((f[:-7], open(os.path.join(CORPUS, f), encoding="utf-8").read()))
    return progs


# witnesses of the defects of the unchanged tree (DESIGN.md §6), always run first
REGRESS = [
    ("d12-unterminated-comment", "pub fn main(x: u8) -> u8 { x } /* unterminated"),
    ("d12-unterminated-nested", "/* a /* b */ c"),
    ("d12-slash-at-end", "/* /"),
    ("d13-empty-range-pattern", "pub fn main(x: u8) -> u8 { match x { 0..0 => 1, _ => 2 } }"),
    ("d13-empty-range-pattern-typed", "pub fn main(x: u8) -> u8 { match x { 0u8..0u8 => 1u8, _ => 2u8 } }"),
    ("d13-empty-signed-range", "pub fn main(x: i8) -> i8 { match x { -128i8..-128i8 => 1i8, _ => 2i8 } }"),
    ("d14-eof-after-brace", "pub fn main(x: u8) -> u8 { if x > 1 {"),
    ("d14-eof-after-fn-brace", "pub fn main(x: u8) -> u8 {"),
    ("d9-duplicate-struct-field",
     "struct S { a: u8, b: u8 }\npub fn main(x: u8, y: u8) -> u8 { let s = S { a: x, a: y }; s.a }"),
    ("d30-recursive-struct", "struct S { a: u8, s: S }\npub fn main(x: S) -> u8 { x.a }"),
    ("d30-recursive-enum", "enum E { A, B(E) }\npub fn main(x: E) -> u8 { 1u8 }"),
    ("d30-mutually-recursive", "struct S { t: T }\nstruct T { s: S }\npub fn main(x: S) -> u8 { 1u8 }"),
    ("d30-recursive-via-array", "struct S { a: [S; 2] }\npub fn main(x: S) -> u8 { 1u8 }"),
    ("n1-undeclared-array-size-const", "pub fn main(x: [u8; N]) -> u8 { 1u8 }"),
    ("n1-undeclared-array-size-const-in-struct", "struct S { a: [u8; N] }\npub fn main(x: S) -> u8 { 1u8 }"),
    ("n1-array-size-const-not-usize", "const N: bool = true;\npub fn main(x: [u8; N], y: u8) -> u8 { y }"),
    ("n2-match-eof-after-brace-clause", "pub fn main(x: i32) -> i32 { match x { 0 => {}"),
    ("n2-match-eof-after-nested-match", "pub fn main(x: i32) -> i32 { match x { 0 => match x { _ => 1 }"),
    ("n3-u64-match-binding", "pub fn main(x: u64) -> u64 { match x { y => y } }"),
    ("n3-i64-match-binding", "pub fn main(x: i64) -> i64 { match x { y => y } }"),
    ("n3-u64-enum-field-binding", "enum E { A, B(u64) }\npub fn main(e: E) -> u64 { match e { E::A => 0, E::B(x) => x } }"),
    ("d30-recursive-unused", "struct S { a: u8, s: S }\npub fn main(x: u8) -> u8 { x }"),
    # session 4 (audit sub-agent): 4d458c4, cae2f2a, d5d372c
    ("r4-const-of-undeclared-type", "const C: Foo = PARTY_0::C;\npub fn main(x: u8) -> u8 { let y = C; x }"),
    ("r4-const-of-struct-type", "struct S { a: u8 }\nconst C: S = PARTY_0::C;\npub fn main(x: u8) -> u8 { match C { _ => x } }"),
    ("r4-duplicate-variant-unit-tuple", "enum E { A, A(u8) }\npub fn main(x: E) -> u8 { match x { E::A(y) => y } }"),
    ("r4-duplicate-variant-two-payloads", "enum E { A(u8), A(u16) }\npub fn main(x: E) -> u16 { match x { E::A(y) => y } }"),
    ("r4-wide-tuple-let", "pub fn main(x: (" + ", ".join(["u8"] * 40) + ")) -> u8 { let y = x; 1u8 }"),
    ("r4-wide-bool-tuple-match", "pub fn main(x: (" + ", ".join(["bool"] * 40) + ")) -> u8 { match x { _ => 1u8 } }"),
    ("r4-wide-struct-one-field-pattern", "struct S { " + ", ".join("f%d: u8" % i for i in range(40)) + " }\n"
     "pub fn main(x: S) -> u8 { match x { S { f0: 0, .. } => 1u8, _ => 2u8 } }"),
    ("r4-usize-literal-too-large", "pub fn main(x: usize) -> bool { x == 4294967296usize }"),
    ("r4-usize-literal-max", "pub fn main(x: usize) -> bool { x == 4294967295usize }"),
    ("r4-diagonal-match", "pub fn main(t: (" + ", ".join(["bool"] * 24) + ")) -> u8 { match t { "
     + " ".join("(" + ", ".join("true" if j == i else "_" for j in range(24)) + ") => %du8," % i for i in range(24))
     + " (" + ", ".join(["false"] * 24) + ") => 99u8 } }"),
    ("r4-doubling-structs-let", "struct S0 { a: [u8; 1] }\n" + "".join("struct S%d { a: S%d, b: S%d }\n" % (i, i - 1, i - 1) for i in range(1, 13))
     + "pub fn main(x: S12, y: u8) -> u8 { let z = x; y }"),
]

LIT_POOL = ["0", "1", "255", "256", "-1", "-129", "true", "false", "1u8", "1i8", "300u8", "(1, 2)", "(1)", "()",
            "[1, 2, 3]", "[1; 3]", "[1; 18446744073709551615]", "[]", "[1,", "(", ")", "S { a: 1, b: 2 }",
            "S { a: 1, a: 2 }", "S { a: 1 }", "S {", "S { a: }", "E::A", "E::B(1)", "E::B(1, 2, 3)", "E::", "E::B(",
            "FooBarBaz { foo: 1, bar: 0, baz: true }", "Op::Div(10, 2)", "x", "1 2", "1..2", "0..0", "-", "--1",
            "99999999999999999999", "/* x", "1 /* x */", "é", "", " ", "1usize", "[[1, 2], [3, 4]]",
            "[(1, true), (2, false)]", "Score::Good(85u8)"]


# --------------------------------------------------------------------------- generators

def gen_soup(rng, n):
    toks = []
    for _ in range(n):
        r = rng.random()
        if r < 0.25: toks.append(rng.choice(KEYWORDS))
        elif r < 0.60: toks.append(rng.choice(OPERATORS))
        elif r < 0.75: toks.append(rng.choice(["x", "y", "main", "u8", "i32", "bool", "S", "E", "a_b", "_", "X9", "true", "usize"]))
        elif r < 0.90: toks.append(gen_number(rng, small=True))
        else: toks.append(rng.choice(["/* c */", "// c\n", "\n", "\t", "\r\n", "?", "#", "\"", "'", "é", "$"]))
    seps = [" ", " ", " ", "", "\n", "  "]
    return "".join(t + rng.choice(seps) for t in toks)


def gen_number(rng, small=False):
    if small:
        v = rng.choice([0, 1, 2, 3, 7, 10, 100, 127, 128, 255, 256])
    else:
        v = rng.choice(BOUNDARY) + rng.choice([0, 0, 1, -1])
        if v < 0: v = 0
    s = str(v)
    if not small and rng.random() < 0.15:
        s = "0" * rng.randrange(1, 30) + s
    if rng.random() < 0.4:
        s = "-" + s
    r = rng.random()
    if r < 0.6: s += rng.choice(SUFFIXES)
    elif r < 0.7: s += rng.choice(["u", "i", "u128", "i7", "x10", "_u8", "U8", "e5", "usiz", "usizee", "u8u8", "i64i"])
    return s


def gen_numbers(rng):
    return "".join(gen_number(rng) + rng.choice([" ", " ", "\n", ",", "+", "-", "..", ""]) for _ in range(rng.randrange(1, 12)))


def gen_comments(rng):
    parts = ["/*", "/*", "*/", "*/", "/", "*", "\n", "a", " ", "//", "x/*y", "*/z", "/**/", "/*/", "*/*", "\r\n", "1", "é"]
    return "".join(rng.choice(parts) for _ in range(rng.randrange(1, 25)))


def gen_ascii(rng):
    n = rng.randrange(0, 80)
    return "".join(chr(rng.choice([rng.randrange(32, 127), rng.randrange(32, 127), 10, 9, 13])) for _ in range(n))


def gen_bytes(rng):
    n = rng.randrange(0, 60)
    b = bytes(rng.randrange(0, 256) for _ in range(n))
    return b.decode("utf-8", "replace")          # a &str is always valid UTF-8


def gen_unicode(rng):
    pool = ["é", "中", "\U0001f600", " ", "\u0085", " ", "﻿", "a", " ", "\n", "/*", "*/", "1", "x"]
    return "".join(rng.choice(pool) for _ in range(rng.randrange(1, 30)))


def prefixes(text):
    toks = tokenize(text)
    return [text[:e] for (_, e) in toks] + [text[:s] for (s, _) in toks]


def small_numbers(text):
    return all(int(m) <= 1000 for m in re.findall(r"\d+", text))


def perturbations(rng, text, subst_pool, all_same_class=False):
    """every single-token deletion, duplication, adjacent swap and one substitution per token"""
    toks = tokenize(text)
    out = []
    for i, (s, e) in enumerate(toks):
        out.append(("del", text[:s] + text[e:]))
        out.append(("dup", text[:e] + " " + text[s:e] + text[e:]))
        if i + 1 < len(toks):
            s2, e2 = toks[i + 1]
            out.append(("swap", text[:s] + text[s2:e2] + text[e:s2] + text[s:e] + text[e2:]))
        out.append(("subst", text[:s] + rng.choice(subst_pool) + text[e:]))
        # same-class substitution keeps most programs parseable and reaches the type checker
        tok = text[s:e]
        words = sorted(set(text[a:b] for a, b in toks if re.fullmatch(r"[A-Za-z_]\w*", text[a:b])
                           and text[a:b] not in KEYWORDS))
        mnum = re.fullmatch(r"(\d+)(\w*)", tok)
        if mnum:
            cls = ["0", "1", "2", "3", "255", "256", "1u8", "1i8", "1u16", "1usize", "0i32", "true"]
            # the neighbours of every number: arities, indices, sizes and range bounds are where
            # `<` / `<=` decisions live
            nv = int(mnum.group(1))
            for c in ([str(nv + 1) + mnum.group(2)] + ([str(nv - 1) + mnum.group(2)] if nv > 0 else [])):
                out.append(("subst-neighbour", text[:s] + c + text[e:]))
        elif tok in TYPE_NAMES:
            cls = TYPE_NAMES
        elif tok in BINOPS:
            cls = BINOPS
        elif tok in KEYWORDS:
            cls = KEYWORDS
        elif re.fullmatch(r"[A-Za-z_]\w*", tok):
            cls = words + ["true", "false", "main", "x"]
        else:
            cls = None
        if cls:
            picks = cls if all_same_class else [rng.choice(cls) for _ in range(3)]
            for c in sorted(set(picks)):
                if c != tok:
                    out.append(("subst-same-class", text[:s] + c + text[e:]))
    return out


def nesting(depth):
    def prog(e, ty="u8"):
        return f"pub fn main(x: u8) -> {ty} {{ {e} }}"
    d = depth
    return [
        ("paren", prog("(" * d + "x" + ")" * d)),
        ("bang", "pub fn main(x: bool) -> bool { " + "!" * d + "x }"),
        ("neg", "pub fn main(x: i8) -> i8 { " + "-" * d + "x }"),
        ("block", prog("{" * d + "x" + "}" * d)),
        ("bracket", prog("[" * d + "x" + "]" * d)),
        ("if", prog("if x > 1 { " * d + "x" + " } else { 0 }" * d)),
        ("tuple", prog("(" * d + "x" + ", 1)" * d)),
        ("type", "pub fn main(x: " + "[" * d + "u8" + "; 1]" * d + ") -> u8 { 1 }"),
        ("binop", prog("x" + " + x" * d)),
        ("unclosed-paren", prog("(" * d + "x")),
        ("unclosed-brace", "pub fn main(x: u8) -> u8 " + "{" * d),
        ("comment", "/*" * d + " x " + "*/" * d + prog("x")),
        ("pattern", prog("match x { " + "(" * d + "_" + ")" * d + " => 1 }")),
    ]


# --------------------------------------------------------------------------- oracle helpers

LOC_RE = re.compile(r"(\d+) (\d+) (\d+) (\d+)\)")


def locs_of(payload):
    return [tuple(int(x) for x in m.groups()) for m in LOC_RE.finditer(payload)]


def loc_problem(loc, text):
    sl, sc, el, ec = loc
    nl = text.count("\n")
    if (sl, sc) > (el, ec):
        return f"start {sl}:{sc} after end {el}:{ec}"
    if el > nl:
        return f"end line {el} beyond the text ({nl} newlines)"
    return None


def is_failure(r):
    return r.startswith(("(crash", "(timeout", "(abort", "(no-result", "(harness-crash")) or "(crash" in r \
        or "(pretty-crash" in r


def known_class(r, text):
    """Known (recorded, not repaired) crash classes of the compile stage, identified by the
    panicking file, the kind of message and a textual feature of the input (line numbers are
    deliberately not part of the key)."""
    # an array size (type or repeat count) of 2^32 or more: usize has 32 bits in circuits, the checker accepts the
    # number and the compiler dies on it (capacity overflow / multiplication overflow / allocation / deadline)
    big = any(int(n) >= 2 ** 32 for n in re.findall(r";\s*(\d{10,20})(?:usize)?\s*\]", text))
    if big and (r.startswith(("(abort", "(timeout")) or "capacity overflow" in r or "with overflow" in r):
        return "compile-absurd-array-size"
    m = re.search(r"\(crash \"([a-z_]+\.rs):\d+\" \"((?:[^\"\\]|\\.)*)\"", r)
    if not m:
        # a `const { a - b }` array size with a < b wraps to a size near 2^32 (const arithmetic wraps by design,
        # compile.rs make_resolve_const_function): the compiler then dies allocating the wires (abort / deadline)
        if r.startswith(("(abort", "(timeout")) and re.search(r"const\s*\{[^}]*-[^}]*\}", text):
            return "compile-const-expr-array-size"
        return None
    f, msg = m.group(1), m.group(2)
    if f == "compile.rs" and "const {" in text.replace("const{", "const {"):
        return "compile-const-expr-array-size"
    if f == "compile.rs" and msg.startswith("assertion") and ("<<" in text or ">>" in text):
        return "compile-shift-amount-not-u8"
    return None


def canon_crash(r):
    return re.sub(r"\(crash(?: \"(?:[^\"\\]|\\.)*\")*\)", "(crash)", r)


def staged(run, jobs, first, chunk=6000, max_timeouts=3, max_aborts=8, only_first=False):
    """Runs `jobs` in stages (the first `first` jobs - the regression witnesses - alone, then
    chunks) and stops early once `max_timeouts` jobs have hit the deadline (or `max_aborts`
    have killed the process): every hanging input costs a full deadline, and a few concrete
    failing inputs are all a report needs.  `run(jobs, tag)` returns one dict or a tuple of
    dicts; skipped jobs get "(skipped)"."""
    out = None
    pos, n, stage = 0, len(jobs), 0
    timeouts = aborts = 0
    while pos < n:
        size = first if stage == 0 and first else chunk
        part = jobs[pos:pos + size]
        res = run(part, f"st{stage}")
        res = res if isinstance(res, tuple) else (res,)
        if out is None:
            out = tuple({} for _ in res)
        for o, r in zip(out, res):
            o.update(r)
        timeouts += sum(1 for v in res[0].values() if v.startswith("(timeout"))
        aborts += sum(1 for v in res[0].values() if v.startswith("(abort"))
        pos += size
        stage += 1
        if (timeouts >= max_timeouts or aborts >= max_aborts or only_first) and pos < n:
            for j in jobs[pos:]:
                for o in out:
                    o[job_id(j)] = "(skipped)"
            break
    return out if len(out) > 1 else out[0]


# --------------------------------------------------------------------------- the check

PEXPR_FIXED = [
    "a[1 + i]", "a[i + 1]", "a[(1 + i)]", "f(a, b + 1u8) * g()", "(a, b).0 + t.1", "s.f.g[i].0", "x <= y", "x >= y && y <= x",
    "if (if a { 1u8 } else { 2u8 }) == v { x } else { y }", "-x as u8", "!p as u8 + 1u8", "(x,)", "()", "a - -3i8", "a-1", "((a))",
    "if a { 1u8 } else if b { 2u8 } else { 3u8 } + 10u8", "1u8 + if p { a } else { b } * 3u8", "a as u16 as u8", "f(f(a))",
    "a[b[c]]", "x . 0 . 1", "a < b == c", "a == b == c", "a < b < c", "- - x", "!!p", "a as bool", "a as Foo", "f()", "f(a,)",
    "(a, b,)", "a + ", "+ a", "a b", "if a { b }", "if a { b } else", "x.0.1.2", "a[0][1]", "a[0usize]", "true && false || p",
    "a | b ^ c & d", "a << b >> c", "a * b / c % d", "a - b - c", "a && b && c", "a || b && c || d", "1u8 + 2u8 * 3u8 - 4u8",
]


def parser_tie_pass(ck, quick):
    """the Gallina model of the expression parser (Front/ParseExpr.v, proved to implement Rust's precedence and
    associativity: ParseExprProofs.parse_show_min) against the real parser: same untyped tree, or both refuse"""
    import gen_prec as GP
    rng = ck.rng
    texts = list(PEXPR_FIXED)
    for _ in range(250 if quick else 6000):
        e, t, src = GP.program(rng, rng.choice([1, 2, 3, 4]))
        texts.append(GP.show(e))
    # token-level damage: mostly refused by both
    for t in list(texts[len(PEXPR_FIXED):len(PEXPR_FIXED) + (80 if quick else 1500)]):
        toks = t.split(" ")
        if len(toks) > 2:
            k = rng.randrange(len(toks))
            texts.append(" ".join(toks[:k] + toks[k + 1:]))
            texts.append(" ".join(toks[:k] + [toks[k]] + toks[k:]))
            j = rng.randrange(len(toks))
            toks2 = list(toks); toks2[k], toks2[j] = toks2[j], toks2[k]
            texts.append(" ".join(toks2))
    jobs = [f"(pexpr p{i} (src {quote(t)}))" for i, t in enumerate(texts)]
    rs = run_jobs(GVRUN, jobs, "c07.pexpr.rs", timeout_per_job=1.0)
    ml = run_jobs(MODELRUN, jobs, "c07.pexpr.ml", timeout_per_job=1.0)
    cnt, bad = {}, 0
    for i, t in enumerate(texts):
        r, m = rs.get(f"p{i}", "(no-result)").strip(), ml.get(f"p{i}", "(no-result)").strip()
        if r == "(outside)" or m == "(outside)":
            kind = "outside-model"     # match / blocks with statements / struct, enum, array literals: not modelled
        elif r == m:
            kind = "same-tree" if r.startswith("(tree") else "both-refuse"
        else:
            kind = "differ"
            bad += 1
            if bad <= 3:
                ck.violation("the model of the expression parser (Front/ParseExpr.v) and src/parse.rs build different trees "
                             "for this text: the precedence theorems no longer speak about the code",
                             {"text": t, "rust": r[:300], "model": m[:300], "correspondence": "Front/ParseExpr.v parse_expr vs "
                              "garble_lang parser (untyped tree of `let rr = <text>;`)"}, found_input=False)
        cnt[kind] = cnt.get(kind, 0) + 1
    ck.obligation("correspondence Front/ParseExpr.v = src/parse.rs: the model of the expression parser builds the same "
                  "untyped tree as the real parser (or both refuse) on every generated and damaged expression text",
                  bad == 0, f"{bad} differ")
    ck.obligation("parser tie: at least half of the texts are trees compared node by node",
                  cnt.get("same-tree", 0) * 2 >= len(texts) - cnt.get("both-refuse", 0), str(cnt))
    ck.coverage["parser_model_tie"] = {"texts": len(texts), "by_kind": cnt}
    return len(texts)


def function_bodies(src):
    """the texts between the braces of every function body of a program (no comments, no `const { }` in signatures)"""
    if "//" in src or "/*" in src:
        return []
    out = []
    for m in re.finditer(r"\bfn\s+\w+\s*\(", src):
        i, depth = m.end(), 1
        while i < len(src) and depth:
            depth += {"(": 1, ")": -1}.get(src[i], 0)
            i += 1
        j = src.find("{", i)
        if j < 0 or "const" in src[i:j] or "fn " in src[i:j]:
            continue
        k, depth = j + 1, 1
        while k < len(src) and depth:
            depth += {"{": 1, "}": -1}.get(src[k], 0)
            k += 1
        if depth == 0:
            out.append(src[j + 1:k - 1])
    return out


PBLOCK_FIXED = [
    "", "x", "x;", "let a = 1; a", "let mut a: u8 = 1u8; a = a + 1u8; a", "let (a, b): (u8, (bool, [i8; 2])) = t; a",
    "a[i].0 = 1u8; a", "x += 1u8; x", "a[f(i)] *= 2u8; a", "s.k.1 >>= 1u8; s", "a[1] = 2u8; a[1usize] -= 2u8; a",
    "t.0.1[2].f ^= y; t", "x -= y - z; x", "x <<= y << z; x", "x %= if c { 1u8 } else { 2u8 }; x",
    "for i in 0..10 { x = x + i; } x", "for (a, b) in arr { s += a } s", "for i in join(a, b) { n += 1u8; } n",
    "if c { x = 1u8; } x", "if c { x = 1u8; } else { x = 2u8; } x", "if c { 1u8 } else { 2u8 }", "if c { 1u8 } else { 2u8 } + 1u8",
    "{ let y = 1u8; y } + 1u8", "{ x = 1u8; } x", "{ } x", "{ { } } x", "let u = { }; x", "let v = { x; y }; v",
    "match x { 0u8 => 1u8, 1u8..5u8 => 2u8, 5u8..=9u8 => 3u8, _ => 4u8 }", "match x { -3i8..2i8 => a, _ => b, }",
    "match t { (true, 0) => 1, (false, n) => n, (_, _) => 2 }", "match e { E::A => 1u8, E::B(x, (y, _)) => x + y, E::C(..) => 0u8 }",
    "match s { S { b, a: 3u8 } => b, S { a, .. } => a }", "match x { 0 => { y = 1u8; y } 1 => if c { 1u8 } else { 2u8 } _ => 3u8 }",
    "match x { 0 => { 1u8 } + 1u8, _ => 3u8 }", "match (match x { _ => y }) { _ => z }", "match x { 1..0 => a, _ => b }",
    "match x { 1u8..2u16 => a, _ => b }", "match x { 0u8 => 1u8 1u8 => 2u8 }", "let x = 1u8 x", "let = 1u8; x", "let mut (a, b) = t; a",
    "x = ; x", "x += ; x", "1 = x; x", "f(x) = 1; x", "x.0.a[1] x", "for in a { } x", "for i a { } x", "if c { x x", "x }", "{ x",
    "let a: [u8; 4] = [0u8; 4]; a", "let a: [u8; N] = b; a", "let a: [[u8; 2]; 3usize] = b; a", "let a: () = (); a", "let a: (u8,) = b; a",
    "x as u8; y", "x as (u8, u8)", "-x; y", "!x; !y", "x; ; y", ";", "x;;", "if c { a } b", "if c { a }; b", "match x { _ => a } b",
    "match x { _ => a }; b", "for i in a { } for j in b { } c", "let s = S { a: 1u8 }; s", "for i in S { a: 1u8 } { } x",
    "if S { a: 1u8 } == s { 1u8 } else { 2u8 }", "match S { a: 1u8 } { _ => 1u8 }", "x = y = z; x", "x == y; z", "a.0 += b.1 += c; a",
]


def block_tie_pass(ck, quick, corpus):
    """the Gallina model of the STATEMENT parser (Front/ParseExpr.v parse_stmt / parse_stmts / patterns / types / match,
    entry parse_block_text) against the real parser on function bodies: same untyped statements, or both refuse"""
    import gen_prec as GP
    import progcheck as PC
    rng = ck.rng
    bodies = [("fixed", t) for t in PBLOCK_FIXED]
    for _ in range(60 if quick else 1500):
        (_, ss), _, src = GP.program_stmts(rng)
        bodies.append(("oracle", GP.show_stmts(ss) + " (m, n, ua, tu, sa, ne)"))   # without the array-literal initialisers
    for _, src in PC.generated_sources(ck, 60 if quick else 1500):
        bodies += [("generated", b) for b in function_bodies(src)]
    for name, src in corpus:
        bodies += [("corpus", b) for b in function_bodies(src)]
    # token-level damage of real bodies
    base = [b for k, b in bodies if k in ("oracle", "generated", "corpus")]
    for b in rng.sample(base, min(len(base), 60 if quick else 1500)):
        toks = re.findall(r"\w+|[^\w\s]", b)
        if len(toks) > 3:
            k = rng.randrange(len(toks))
            bodies.append(("damaged", " ".join(toks[:k] + toks[k + 1:])))
            bodies.append(("damaged", " ".join(toks[:k] + [rng.choice([";", "{", "}", "=", "let", "mut", ",", "(", ")", "+=", "if", "else", "match", "=>", "for", "in", ".."])] + toks[k:])))
    jobs = [f"(pblock b{i} (src {quote(t)}))" for i, (_, t) in enumerate(bodies)]
    rs = run_jobs(GVRUN, jobs, "c07.pblock.rs", timeout_per_job=1.0)
    ml = run_jobs(MODELRUN, jobs, "c07.pblock.ml", timeout_per_job=1.0)
    cnt, bad = {}, 0
    for i, (kind0, t) in enumerate(bodies):
        r, m = rs.get(f"b{i}", "(no-result)").strip(), ml.get(f"b{i}", "(no-result)").strip()
        if r == "(outside)" or m == "(outside)":
            kind = "outside-model"     # struct / enum / array literals, range expressions, join loops: not modelled
        elif r == m:
            kind = "same-statements" if r.startswith("(stmts") else "both-refuse"
        else:
            kind = "differ"
            bad += 1
            if bad <= 3:
                ck.violation("the model of the statement parser (Front/ParseExpr.v) and src/parse.rs build different "
                             "statements for this function body",
                             {"body": t, "rust": r[:400], "model": m[:400], "correspondence": "Front/ParseExpr.v "
                              "parse_block_text vs garble_lang parser (untyped body of `pub fn main(zz: u8) -> u8 {<body>}`)"},
                             found_input=False)
        cnt[kind0 + ":" + kind] = cnt.get(kind0 + ":" + kind, 0) + 1
    same = sum(v for k, v in cnt.items() if k.endswith("same-statements"))
    ck.obligation("correspondence Front/ParseExpr.v = src/parse.rs on statements: the model of the statement / pattern / "
                  "type / match parser builds the same untyped function body as the real parser (or both refuse) on "
                  "every fixed, generated, corpus and damaged body", bad == 0, f"{bad} differ")
    ck.obligation("statement-parser tie: at least 100 bodies are compared statement by statement", same >= 100, str(cnt))
    ck.coverage["statement_parser_model_tie"] = {"bodies": len(bodies), "by_kind": cnt}
    return len(bodies)


PPROG_FIXED = [
    "", "pub", "pub fn main(x: u8) -> u8 { x }", "fn f(x: u8) -> u8 { x } pub fn main(mut acc: u8, s: S,) -> u8 { acc += f(s.a); acc }",
    "const N: usize = 4; const M: usize = max(PARTY_0::N, 2 + N) - 1usize; const B: bool = true; pub fn main(a: [u8; N]) -> [u8; M] { a }",
    "struct S { b: [u8; 2], a: (u8, bool), } enum E { A, B(u8, (u8, bool), [u8; 2]), C(), } pub fn main(s: S) -> E { E::B(s.a.0, s.a, s.b) }",
    "pub struct S { a: u8 } pub enum E { A } pub const C: u8 = 1u8; pub fn main(x: u8) -> u8 { x }",
    "fn f(x: u8) -> u8 { x } fn g(x: u8) -> u8 { x } fn f(y: u16) -> u16 { y } pub fn main(x: u8) -> u8 { g(x) }",
    "struct S { a: u8 } struct S { b: u16 } pub fn main(x: u8) -> u8 { x }", "enum E { A((u8, u8)) } pub fn main(x: u8) -> u8 { x }",
    "enum E { A([u8; 2]) } pub fn main(x: u8) -> u8 { x }", "enum E { } pub fn main(x: u8) -> u8 { x }", "pub pub fn main(x: u8) -> u8 { x }",
    "pub fn main(x: u8) { x }", "pub fn main(x: u8) -> u8 { x", "pub fn main(x u8) -> u8 { x }", "pub fn main(, x: u8) -> u8 { x }",
    "struct S { a: u8 b: u8 } pub fn main(x: u8) -> u8 { x }", "struct S(u8); pub fn main(x: u8) -> u8 { x }", "let x = 1; pub fn main(x: u8) -> u8 { x }",
    "const C: u8 = f(1); pub fn main(x: u8) -> u8 { x }", "const C: u8 = a * b; pub fn main(x: u8) -> u8 { x }", "const C: u8 = P::n(1); pub fn main(x: u8) -> u8 { x }",
    "const C: u8 = 1u8 pub fn main(x: u8) -> u8 { x }", "const C = 1u8; pub fn main(x: u8) -> u8 { x }", "pub fn main(x: u8) -> u8 { x };",
    "const C: usize = min(1, 2, max(3)) + P::X - 2; pub fn main(x: [u8; const { C + 1 }]) -> u8 { let y: [u8; const { max(C, 2) }] = z; (y as [u8; const { 1 }])[0] }",
    "pub fn main(x: [u8; const { f(1) }]) -> u8 { 0 }", "const C: i8 = -1i8; const D: i8 = -C; pub fn main(x: u8) -> u8 { x }", "const T: (u8, u8) = (1, 2); pub fn main(x: u8) -> u8 { x }",
]


def program_tie_pass(ck, quick, corpus):
    """the Gallina model of the WHOLE parser (items, consts, struct / enum / function definitions: parse_program_text)
    against the real parser on program texts: same untyped program (maps sorted by name), or both refuse"""
    import progcheck as PC
    import scenarios
    rng = ck.rng
    progs = [("fixed", t) for t in PPROG_FIXED]
    progs += [("corpus", src) for _, src in corpus]
    progs += [("generated", src) for _, src in PC.generated_sources(ck, 80 if quick else 2500)]
    progs += [("scenario", src) for _, src in scenarios.all_sources()]
    base = [t for _, t in progs[len(PPROG_FIXED):]]
    for t in rng.sample(base, min(len(base), 80 if quick else 2500)):
        toks = re.findall(r"\w+|[^\w\s]", t)
        if len(toks) > 3 and "//" not in t and "/*" not in t:
            k = rng.randrange(len(toks))
            progs.append(("damaged", " ".join(toks[:k] + toks[k + 1:])))
            progs.append(("damaged", " ".join(toks[:k] + [rng.choice([";", "{", "}", "=", "pub", "fn", "struct", "enum", "const", ",", "(", ")", ":", "->", "mut", "::"])] + toks[k:])))
    jobs = [f"(pprog g{i} (src {quote(t)}))" for i, (_, t) in enumerate(progs)]
    rs = run_jobs(GVRUN, jobs, "c07.pprog.rs", timeout_per_job=2.0)
    ml = run_jobs(MODELRUN, jobs, "c07.pprog.ml", timeout_per_job=2.0)
    cnt, bad = {}, 0
    for i, (kind0, t) in enumerate(progs):
        r, m = rs.get(f"g{i}", "(no-result)").strip(), ml.get(f"g{i}", "(no-result)").strip()
        if r == "(outside)" or m == "(outside)":
            kind = "outside-model"
        elif r == m:
            kind = "same-program" if r.startswith("(prog") else "both-refuse"
        else:
            kind = "differ"
            bad += 1
            if bad <= 3:
                k = next((j for j in range(min(len(r), len(m))) if r[j] != m[j]), 0)
                ck.violation("the model of the parser (Front/ParseExpr.v parse_program_text) and src/parse.rs build different "
                             "untyped programs for this text",
                             {"program": t, "rust": r[max(0, k - 150):k + 150], "model": m[max(0, k - 150):k + 150],
                              "correspondence": "Front/ParseExpr.v parse_program_text vs garble_lang parser"}, found_input=False)
        cnt[kind0 + ":" + kind] = cnt.get(kind0 + ":" + kind, 0) + 1
    same = sum(v for k, v in cnt.items() if k.endswith("same-program"))
    ck.obligation("correspondence Front/ParseExpr.v = src/parse.rs on whole programs: the model parser builds the same untyped "
                  "program (constants, struct / enum / function definitions, bodies) as the real parser, or both refuse, on "
                  "every fixed, corpus, scenario, generated and damaged program text", bad == 0, f"{bad} differ")
    ck.obligation("program-parser tie: at least 150 programs are compared item by item", same >= 150, str(cnt))
    ck.coverage["program_parser_model_tie"] = {"programs": len(progs), "by_kind": cnt}
    return len(progs)


def run(ck):
    quick = ck.tier == "quick"
    rng = ck.rng
    ck.prepare("C07")
    trusted = COMMON_TRUSTED + [
        "modelled in Coq: src/scan.rs completely (on the UTF-8 bytes; one char per non-continuation byte), "
        "token.rs token kinds, lib.rs::prettify_meta; usize = 64 bits, line/column/comment-level arithmetic unbounded "
        "(texts < 2^31 bytes)",
        "NOT modelled (search only, no proof): src/parse.rs, src/check.rs, src/compile.rs, src/literal.rs parsing; "
        "their crash/hang freedom is probed by `front` jobs on enumerated perturbations, not proved",
        "stack depth, allocation failure and wall-clock time are outside the model; nesting depth of generated "
        f"inputs <= {MAX_DEPTH}; numeric literals substituted into programs <= 1000 (array sizes and loop bounds are "
        "compile-time work)",
        "hook: verif_hooks::prettify_meta (thin wrapper around the private lib.rs function)",
    ]
    assumptions = ["the input is a Rust &str (valid UTF-8)",
                   f"'promptly' = {DEADLINE_S:.0f} s per job in the debug build; nesting depth <= {MAX_DEPTH}",
                   "parser and type checker: search only (partial claim)"]
    if not (ck.harness_ok and ck.model_ok):
        return ck.finish(trusted=trusted, extra_assumptions=assumptions)

    corpus = load_corpus()
    dist = {}

    def count(kind, n=1):
        dist[kind] = dist.get(kind, 0) + n

    # ------------------------------------------------------------------ 1. scan tie
    texts = []                                   # (kind, text)
    for name, t in REGRESS:
        texts.append(("regress", t))
    for name, t in corpus:
        texts.append(("corpus", t))
    pref_budget = 6000 if quick else 10 ** 6
    allpref = []
    for name, t in corpus:
        if len(t) <= 1500 or not quick:
            allpref += prefixes(t)
    rng.shuffle(allpref)
    for t in allpref[:pref_budget]:
        texts.append(("corpus-prefix", t))
    n_rand = 3000 if quick else 60000
    for _ in range(n_rand):
        texts.append(("token-soup", gen_soup(rng, rng.randrange(1, 40))))
    for _ in range(n_rand):
        texts.append(("numbers", gen_numbers(rng)))
    for _ in range(n_rand):
        texts.append(("comments", gen_comments(rng)))
    for _ in range(n_rand // 2):
        texts.append(("ascii", gen_ascii(rng)))
    for _ in range(n_rand // 2):
        texts.append(("bytes", gen_bytes(rng)))
    for _ in range(n_rand // 4):
        texts.append(("unicode", gen_unicode(rng)))
    for b in BOUNDARY:                           # every boundary value with every suffix, both signs
        for d in (-1, 0, 1):
            if b + d >= 0:
                for suf in SUFFIXES + ["", "u9"]:
                    texts.append(("numbers-boundary", f"{b + d}{suf} -{b + d}{suf}"))
    for kind, t in nesting(MAX_DEPTH):
        texts.append(("nesting", t))
    seen = set()
    stexts = []
    for kind, t in texts:
        if t not in seen:
            seen.add(t)
            stexts.append((kind, t))
            count("scan:" + kind)
    sjobs = [f"(scan s{i} {q(t)})" for i, (_, t) in enumerate(stexts)]
    rs, ml = staged(lambda js, tag: run_both(js, "c07s" + tag, timeout_per_job=0.05, base_timeout=10),
                    sjobs, first=len(REGRESS))
    skipped = sum(1 for v in rs.values() if v == "(skipped)")
    # a hanging scanner hangs the whole pipeline: the front search is then cut to its first stage
    scan_hangs = any(v.startswith("(timeout") for v in rs.values())
    mism = 0
    mism_list = []
    scan_fail = 0
    outcomes = {}
    err_kinds = {}
    pretty_src = []                              # (text, loc) for the pretty tie
    for i, (kind, t) in enumerate(stexts):
        jid = f"s{i}"
        r, m = rs.get(jid, "(no-result)"), ml.get(jid, "(no-result)")
        if r == "(skipped)":
            continue
        tag = r.split(" ")[0].strip("()")
        outcomes[tag] = outcomes.get(tag, 0) + 1
        for e in re.findall(r"\((\w+) \d+ \d+ \d+ \d+\)", r) if r.startswith("(err") else []:
            err_kinds[e] = err_kinds.get(e, 0) + 1
        # oracle: the property on the real scanner's result
        if is_failure(r):
            scan_fail += 1
            what = "scanner does not return (hang)" if "timeout" in r else "scanner crashes"
            ck.violation(f"{what} [{kind}]", {"job": sjobs[i], "text": t, "rust": r, "model": m})
        elif r == "(err )":
            ck.violation("scanner returns an empty error list", {"job": sjobs[i], "text": t, "rust": r})
        else:
            ls = locs_of(r)
            for loc in ls:
                p = loc_problem(loc, t)
                if p:
                    ck.violation("scanner reports an ill-formed location: " + p,
                                 {"job": sjobs[i], "text": t, "rust": r, "loc": loc})
                    break
            if ls and len(t) < 3000:
                pretty_src.append((t, ls[rng.randrange(len(ls))]))
                if rng.random() < 0.3:
                    pretty_src.append((t, ls[-1]))
        if m == "(out-of-fuel)":
            ck.violation("model runs out of fuel (scan_total would be false)", {"job": sjobs[i], "text": t, "model": m},
                         found_input=False)
        if r != m and not is_failure(r):
            mism += 1
            mism_list.append((len(t), i, t, r, m))
    for _, i, t, r, m in sorted(mism_list)[:3]:      # the shortest differing texts
        ck.violation("scan: model and implementation disagree (tokens / locations / errors)",
                     {"job": sjobs[i], "text": t, "rust": r, "model": m, "correspondence": "scan jobs"},
                     found_input=False)
    ck.obligation("correspondence: garble_lang::scan::scan equals the extracted Coq scanner on every generated text "
                  "(token kinds, values, locations, error kinds and locations)", mism == 0, f"{mism} differing jobs")

    # ------------------------------------------------------------------ 2. pretty tie
    pjobs, pmeta = [], []
    rng.shuffle(pretty_src)
    for t, loc in pretty_src[: (1500 if quick else 50000)]:
        pjobs.append((t, loc, "scanner-loc")); count("pretty:scanner-loc")
    ptexts = [t for _, t in corpus[:40]] + ["a", "a\n", "\n", "\n\n", "a\r\nb\r\n", "a\rb", "a\r", "\r\n", "é\né", "x\n\ny\n"]
    for _ in range(600 if quick else 20000):
        t = rng.choice(ptexts)
        nl = t.count("\n")
        mode = rng.random()
        if mode < 0.6:      # satisfies the hypothesis of prettify_safe
            el = rng.randrange(0, nl + 1); sl = rng.randrange(0, el + 1)
            kind = "random-valid"
        elif mode < 0.8:    # end line just past / far past the text: Rust may panic, model must agree
            el = nl + rng.randrange(0, 4); sl = rng.randrange(0, el + 2)
            kind = "random-past-end"
        else:
            sl = rng.randrange(0, nl + 3); el = rng.randrange(0, nl + 3)
            kind = "random-any"
        loc = (sl, rng.randrange(0, 12), el, rng.randrange(0, 12))
        pjobs.append((t, loc, kind)); count("pretty:" + kind)
    pj = [f"(pretty p{i} {q(t)} {l[0]} {l[1]} {l[2]} {l[3]})" for i, (t, l, _) in enumerate(pjobs)]
    prs, pml = run_both(pj, "c07p", timeout_per_job=0.05, base_timeout=10)
    pmism = 0
    pcrash_expected = 0
    for i, (t, loc, kind) in enumerate(pjobs):
        r, m = prs.get(f"p{i}", "(no-result)"), pml.get(f"p{i}", "(no-result)")
        good = loc_problem(loc, t) is None
        if is_failure(r):
            if good:   # the property: rendering a well-formed location never fails
                ck.violation("prettify_meta fails on a well-formed location",
                             {"job": pj[i], "text": t, "loc": loc, "rust": r, "model": m})
            else:
                pcrash_expected += 1
        if canon_crash(r) != m:
            pmism += 1
            if pmism <= 3:
                ck.violation("pretty: model and implementation disagree",
                             {"job": pj[i], "text": t, "rust": r, "model": m, "correspondence": "pretty jobs"},
                             found_input=False)
    ck.obligation("correspondence: lib.rs::prettify_meta equals the extracted Coq model (rendered text or panic) on "
                  "scanner-produced and random locations", pmism == 0, f"{pmism} differing jobs")

    # ------------------------------------------------------------------ 3. front search (no model)
    fjobs = []       # (kind, text, lits)

    def add_front(kind, text, lits=None):
        fjobs.append((kind, text, lits or []))

    for name, t in REGRESS:
        add_front("regress", t, LIT_POOL[:6])
    base = []
    for name, t in corpus:
        if quick and name in SLOW_FOR_FRONT:
            continue
        add_front("corpus", t, LIT_POOL)
        if len(t) <= 700 and small_numbers(t) and name not in SLOW_FOR_FRONT:
            base.append((name, t))
    rng.shuffle(base)
    # programs that exercise every index / arity / size decision of the checker, always perturbed
    base = [b for b in ACCESS_SEEDS] + base
    nbase = (60 + len(ACCESS_SEEDS)) if quick else len(base)
    subst_pool = KEYWORDS + OPERATORS + ["x", "y", "u8", "bool", "S", "0", "1", "2", "255", "256", "1u8", "-1", "-1i8",
                                        "true", "/*", "*/", "//", "?", "é", "_", "0..0", "main"]
    pert_budget = 60000 if quick else 10 ** 7
    perts = []
    for name, t in base[:nbase]:
        for p in prefixes(t):
            perts.append(("prefix", p))
        for k, p in perturbations(rng, t, subst_pool, all_same_class=not quick):
            perts.append((k, p))
    if len(perts) > pert_budget:
        nseed = sum(len(prefixes(t)) + len(perturbations(random.Random(0), t, subst_pool)) for _, t in ACCESS_SEEDS)
        head, rest = perts[:nseed], perts[nseed:]     # the seeds' perturbations are never cut
        rng.shuffle(rest)
        perts = head + rest[:max(0, pert_budget - len(head))]
    for k, p in perts:
        add_front("pert:" + k, p)
    for _ in range(5000 if quick else 10 ** 5):
        add_front("token-soup", gen_soup(rng, rng.randrange(1, 30)))
    for _ in range(2000 if quick else 30000):
        add_front("noise", rng.choice([gen_ascii, gen_bytes, gen_unicode, gen_comments, gen_numbers])(rng))
    # structured soup: a valid skeleton with a random token sequence as body / pattern / type
    for _ in range(8000 if quick else 100000):
        body = gen_soup(rng, rng.randrange(1, 12)).replace("/*", "").replace("*/", "")
        skel = rng.choice(["pub fn main(x: u8) -> u8 { %s }", "pub fn main(x: u8) -> u8 { match x { %s => 1, _ => 2 } }",
                           "pub fn main(x: %s) -> u8 { 1 }", "struct S { a: %s }\npub fn main(x: S) -> u8 { 1 }",
                           "enum E { A, B(%s) }\npub fn main(x: E) -> u8 { 1 }", "const C: usize = %s;\npub fn main(x: u8) -> u8 { x }",
                           "pub fn main(x: u8) -> u8 { let s = S { %s }; x }", "pub fn main(x: u8) -> u8 { for i in %s { } x }"])
        add_front("skeleton-soup", skel % body)
    for d in (1, 2, 3, 10, 50, MAX_DEPTH):
        for kind, t in nesting(d):
            add_front("nesting", t)
    # DESIGN.md §6-31 (known finding, recorded once): one probe beyond the bound
    # known finding compile-absurd-array-size, recorded once: two immediate panics
    add_front("absurd-array-size-probe", "pub fn main(b: bool) -> bool { b & [true; 18446744073709551615][1] }")
    add_front("absurd-array-size-probe", "pub fn main(p: [u8; 18446744073709551615], q: u8) -> u8 { q }")
    # the two other recorded classes, one deterministic probe each (so that every listed finding is reported on every run)
    add_front("const-expr-array-size-probe", "pub fn main(i: usize, arr: [i32; const { true + 3 }]) -> i32 { arr[i] }")
    add_front("shift-amount-probe", "pub fn main(a: u32, b: u32) -> u32 { b >> !0 }")
    add_front("deep-nesting-probe", "pub fn main(x: u8) -> u8 { " + "(" * 20000 + "x" + ")" * 20000 + " }")
    seen = set()
    fj = []
    for kind, t, lits in fjobs:
        key = (t, tuple(lits))
        if key in seen:
            continue
        seen.add(key)
        fj.append((kind, t, lits))
        count("front:" + kind)
    fjs = [f"(front f{i} {q(t)}" + (" (lits " + " ".join(q(l) for l in lits) + ")" if lits else "") + ")"
           for i, (kind, t, lits) in enumerate(fj)]
    frs = staged(lambda js, tag: run_jobs(GVRUN, js, "c07f" + tag, timeout_per_job=0.02,
                                          base_timeout=40 if quick else 120),
                 fjs, first=len(REGRESS), chunk=20000, only_first=scan_hangs)
    skipped += sum(1 for v in frs.values() if v == "(skipped)")
    stages = {}
    fails = 0
    reruns = 0
    unknown_fails = 0
    fail_sites = {}
    known_class_hits = {}
    max_ms = 0
    lit_results = {"ok": 0, "err": 0}
    for i, (kind, t, lits) in enumerate(fj):
        r = frs.get(f"f{i}", "(no-result)")
        if r == "(skipped)":
            continue
        replay = {"job": fjs[i], "text": t, "rust": r, "kind": kind}
        mm = re.search(r"\(ms (\d+)\)", r)
        if mm:
            max_ms = max(max_ms, int(mm.group(1)))
        st = re.match(r"\(compile (ok|\(err \w+|\(crash)", r)
        sk = st.group(1).replace("(", "").replace("err ", "err:") if st else r.split(" ")[0].strip("()")
        stages[sk] = stages.get(sk, 0) + 1
        if is_failure(r) and kind != "deep-nesting-probe" and ("timeout" in r or "abort" in r):
            # a deadline or a killed child inside a 16-way batch can be the machine's load, not the
            # input: the verdict is the job run alone with a deadline of its own (DEADLINE_S)
            r_alone = vlib._run_single(GVRUN, fjs[i], f"c07alone.{os.getpid()}", 4 * DEADLINE_S)
            reruns += 1
            if not is_failure(r_alone):
                r = r_alone
                replay["rust"] = r
        if is_failure(r):
            fails += 1
            if kind == "deep-nesting-probe":
                nv = len(ck.violations)
                ck.violation("nesting depth far beyond the generator bound overflows the parser stack", replay,
                             key="parser-stack-overflow-deep-nesting")
                unknown_fails += len(ck.violations) - nv
                continue
            kkey = known_class(r, t)
            if kkey and ck.match_known(kkey):
                ck.violation("known crash class " + kkey, replay, key=kkey)
                known_class_hits[kkey] = known_class_hits.get(kkey, 0) + 1
                continue
            site = re.search(r"\(crash (\"[^\"]*\")", r)
            what = ("front end does not return within the deadline (hang)" if "timeout" in r else
                    "front end kills the process (stack overflow / abort)" if "abort" in r else
                    f"front end panics at {site.group(1) if site else '?'}")
            ck.violation(f"{what} [{kind}]", replay)
            sk2 = site.group(1).strip('"') if site else r
            if sk2 not in fail_sites:
                fail_sites[sk2] = {"count": 0, "first": t[:400]}
            fail_sites[sk2]["count"] += 1
            unknown_fails += 1
            continue
        forms = sx_parse(r)
        fc = sx_field(forms, "compile")
        if fc and isinstance(fc[1], list) and fc[1][0] == "err":
            _, stage, n, flocs = fc[1]
            if int(n) == 0:
                ck.violation("front end returns an empty error list", replay)
            for l in flocs[1:]:
                p = loc_problem(tuple(int(x) for x in l), t)
                if p:
                    ck.violation(f"{stage} error with an ill-formed location: {p}", dict(replay, loc=l))
                    break
        fl = sx_field(forms, "lits")
        if fl:
            items = fl[1:]
            nparams = max(1, len(items) // max(1, len(lits)))
            for j, it in enumerate(items):
                lit = lits[j // nparams] if j // nparams < len(lits) else ""
                if it[0] == "ok":
                    lit_results["ok"] += 1
                elif it[0] == "err":
                    lit_results["err"] += 1
                    if int(it[1]) == 0:
                        ck.violation("literal parser returns an empty error list", dict(replay, literal=lit))
                    for l in it[2][1:]:
                        p = loc_problem(tuple(int(x) for x in l), lit)
                        if p:
                            ck.violation("literal parse error with an ill-formed location: " + p, dict(replay, literal=lit))
                            break
    ck.obligation("search (not a proof): compile / prettify / parse_arg of the real code return on every generated "
                  "text (no panic, abort or timeout other than listed known findings)",
                  unknown_fails == 0, f"{unknown_fails} failing jobs")
    n_eval = len(sjobs) + len(pj) + len(fjs)
    n_pexpr = parser_tie_pass(ck, quick) if (ck.harness_ok and ck.model_ok) else 0
    n_pblock = block_tie_pass(ck, quick, corpus) if (ck.harness_ok and ck.model_ok) else 0
    n_pprog = program_tie_pass(ck, quick, corpus) if (ck.harness_ok and ck.model_ok) else 0
    ck.coverage.update({
        "evaluations": n_eval,
        "distinct_nontrivial": len(set(t for _, t in stexts if len(t) >= 4)) + len(set(t for _, t, _ in fj if len(t) >= 4)),
        "rule": "scan tie: regression witnesses, every corpus program (211 programs extracted from tests/*.rs string "
                "literals, garble_examples, garble_docs), prefixes of corpus programs at token boundaries, random token "
                "soup, number-heavy strings (boundary values +-1 with every suffix, overflowing, leading zeros, junk "
                "suffixes), comment-heavy strings (nested, unterminated), printable ASCII, random bytes (as lossy UTF-8), "
                "non-ASCII text; pretty tie: locations produced by the real scanner plus random locations inside, at and "
                "beyond the end of the text; front search: every prefix and every single-token deletion / duplication / "
                "adjacent swap / substitution of sampled small corpus programs, token soup, soup inside valid skeletons, "
                "noise, nesting up to the stated depth; literal strings for parse_arg from a fixed adversarial pool. "
                "distinct = by text; non-trivial = at least 4 characters",
        "traces_validated_against_impl": len(sjobs) - mism + len(pj) - pmism,
        "input_distribution": dist,
        "scan_outcomes": outcomes, "scan_error_kinds": err_kinds,
        "pretty_jobs_where_rust_panics_as_the_model_predicts": pcrash_expected,
        "front_outcomes_by_stage": stages, "front_failures": fails, "front_failure_sites": fail_sites, "known_class_hits": known_class_hits, "front_max_ms": max_ms, "jobs_skipped_after_repeated_timeouts": skipped,
        "literal_parse_results": lit_results,
        "nesting_depth_bound": MAX_DEPTH,
        "proof_part": "scanner + prettify_meta: Coq theorems of Props/C07.v + scan/pretty correspondence",
        "search_part": "parser, type checker, compiler, literal parser: front jobs only (NOT proved; the claim for them "
                       "is partial)",
    })
    ck.samples = [sjobs[0], sjobs[len(sjobs) // 2][:300], pj[0][:300], fjs[len(fjs) // 2][:300], fjs[-2][:300]]
    return ck.finish(trusted=trusted, extra_assumptions=assumptions)


def replay(path):
    """./check C07 --replay <file>: re-runs the recorded job on the real code (and, for scan /
    pretty jobs, on the extracted model); exit 1 if the failure reproduces."""
    import json
    with BuildLock():           # the replay must see the current working tree of the repo
        ok, out = build_harness()
        ok2, out2 = build_ocaml()
    if not (ok and ok2):
        print("build failed:", (out + out2)[-2000:])
        return 2
    d = json.load(open(path))
    r = d.get("replay", {})
    job = r.get("job")
    if not job:
        print("no job recorded in", path, "(broken proof obligation?):", d.get("broken"))
        return 2
    rs = run_jobs(GVRUN, [job], "c07.replay.rs", timeout_per_job=DEADLINE_S, base_timeout=DEADLINE_S)
    rr = rs.get(job_id(job), "(no-result)")
    print("what :", d.get("what"))
    print("text :", repr(r.get("text", ""))[:2000])
    print("rust :", rr[:2000])
    bad = is_failure(rr)
    if job.startswith(("(scan ", "(pretty ")):
        ml = run_jobs(MODELRUN, [job], "c07.replay.ml")
        mm = ml.get(job_id(job), "(no-result)")
        print("model:", mm[:2000])
        if job.startswith("(scan "):
            bad = bad or canon_crash(rr) != mm or any(loc_problem(l, r.get("text", "")) for l in locs_of(rr))
        else:
            good = "loc" not in r or loc_problem(tuple(r["loc"]), r.get("text", "")) is None
            bad = (bad and good) or canon_crash(rr) != mm
    print("reproduces" if bad else "does not reproduce")
    return 1 if bad else 0
