"""C13 — join / join_iter compute exactly the sorted-merge join and hide match positions.

Three parts:
 (A) tie: `sortnet` jobs drive push_gt_circuit / push_sorter / push_bitonic_merger /
     push_bitonic_sorter of the real CircuitBuilder through the hook; the extracted model
     (Gadgets.v via SortJob.run_sops) must return the same element wires and the same built
     circuit; oracle: the Rust circuit's truth table against an independent reference of the
     compare-exchange network semantics, plus the property itself (sorted, permutation).
 (B) proofs: Props/C13.v (re-checked by ck.prepare).
 (C) program-level SEARCH (not proof): `joinprog` jobs compile for-join loops and `join`
     calls and compare the evaluated circuit with join_spec on every order type of two
     strictly ascending arrays per size pair, multi-bit keys, key 0, same-side duplicates."""
import re
from vlib import *
import gen_sort as GS
import gen_join as GJ


# ------------------------------------------------------------------ (A) sortnet

def make_sortnet_jobs(ck, quick):
    rng = ck.rng
    jobs, meta, dist = [], {}, {}
    k = 0

    def add(prefix, dedup, parts, elems, ops, cls):
        nonlocal k
        jid = f"{prefix}{k}"; k += 1
        jobs.append(GS.fmt_job(jid, dedup, parts, elems, ops))
        meta[jid] = (sum(parts), elems, ops, cls)
        dist[cls] = dist.get(cls, 0) + 1

    for dedup, parts, elems, ops in GS.corpus():
        add("k", dedup, parts, elems, ops, "corpus")
    # every length 1..8 (thorough: ..12) for sorter and merger on 1-bit keys with 1-bit payload... and flags
    for ne in range(1, 9 if quick else 13):
        L = 1 if ne > 6 else 2
        if ne * L <= (12 if quick else 16):
            elems = [[2 + e * L + i for i in range(L)] for e in range(ne)]
            add("s", True, [ne * L], elems, [("bsorter", 1)], "all-lengths")
            add("s", True, [ne * L], elems, [("merger", 1, 1)], "all-lengths")
            add("s", False, [ne * L], elems, [("merger", L, 0)], "all-lengths")
    n_rand = 700 if quick else 4000
    for _ in range(n_rand):
        add("r", *GS.random_job(rng, quick))
    for _ in range(120 if quick else 1500):
        add("m", *GS.malformed_job(rng))
    return jobs, meta, dist


def key_of(bits_list, bits):
    n = 0
    for b in bits_list[:bits]:
        n = (n << 1) | b
    return n


def down_up(ks):
    i = 0
    while i + 1 < len(ks) and ks[i] >= ks[i + 1]:
        i += 1
    return all(ks[j] <= ks[j + 1] for j in range(i, len(ks) - 1))


def up_down(ks):
    i = 0
    while i + 1 < len(ks) and ks[i] <= ks[i + 1]:
        i += 1
    return all(ks[j] >= ks[j + 1] for j in range(i, len(ks) - 1))


def check_sortnet(ck, job, r, m, n, elems, ops, cls, stats):
    """Oracle on the Rust result: truth table vs reference; property on single-network jobs."""
    try:
        v, extra, size = GS.ref_run(n, elems, ops)
        exp_crash = False
    except GS.RefCrash:
        exp_crash = True
    if r.strip() == "crash" or exp_crash:
        stats["crash"] += 1
        if (r.strip() == "crash") != exp_crash:
            ck.violation("a sorting-network request panics although the reference semantics is defined (or vice versa)",
                         {"job": job, "rust": r[:500], "reference_crashes": exp_crash})
        return
    t = sx_parse("(" + r + ")")[0]
    tr = sx_field(t, "truth")
    if tr is None:
        ck.violation("no truth table in the Rust result", {"job": job, "rust": r[:500]})
        return
    cols = [c[1] for c in tr[1:]]
    exp = [GS.table_to_string(x, size) for e in v for x in e] + [GS.table_to_string(x, size) for x in extra]
    if len(cols) != len(exp):
        ck.violation("wrong number of element wires returned", {"job": job, "rust_cols": len(cols), "expected": len(exp)})
        return
    for j, (a, b) in enumerate(zip(cols, exp)):
        if a != b:
            kbad = next(i for i in range(size) if a[i] != b[i])
            ck.violation("the circuit built by the sorting-network gadgets differs from the compare-exchange reference",
                         {"job": job, "output_index": j, "assignment": format(kbad, "0%db" % n) if n else "",
                          "circuit_bit": a[kbad], "reference_bit": b[kbad]})
            return
    stats["truth_equal"] += 1
    # the property itself, on jobs that are exactly one network over equal-length elements
    if len(ops) != 1 or ops[0][0] not in ("bsorter", "merger") or not elems:
        return
    L = len(elems[0])
    if any(len(e) != L for e in elems) or ops[0][1] > L or size > 4096:
        return
    bits = ops[0][1]
    tabs, _, _ = GS.input_tables(n)
    ne = len(elems)
    pos = 0
    outcols = []
    for e in elems:
        outcols.append(cols[pos:pos + L]); pos += L
    pow2 = ne & (ne - 1) == 0
    for kass in range(size):
        inp = [[(tabs[w] >> kass) & 1 for w in e] for e in elems]
        out = [[1 if c[kass] == "1" else 0 for c in oc] for oc in outcols]
        if sorted(map(tuple, inp)) != sorted(map(tuple, out)):
            ck.violation("network output is not a permutation of its input elements (payload not intact)",
                         {"job": job, "assignment": format(kass, "0%db" % n), "input": inp, "output": out})
            return
        ik = [key_of(e, bits) for e in inp]
        ok_ = [key_of(e, bits) for e in out]
        if ops[0][0] == "bsorter":
            must = True
        elif ops[0][2] == 1:
            must = down_up(ik) or (pow2 and up_down(ik))
        else:
            must = False
        if must:
            stats["sorted_checked"] += 1
            if any(ok_[i] > ok_[i + 1] for i in range(len(ok_) - 1)):
                ck.violation("sorting network output is not sorted by key",
                             {"job": job, "assignment": format(kass, "0%db" % n), "input_keys": ik, "output_keys": ok_})
                return


# ------------------------------------------------------------------ (C) joinprog

KEY_TYPES_QUICK = [GJ.U8, GJ.U16, GJ.U32]
KEY_TYPES_MORE = [GJ.tuple_t(GJ.U8, GJ.U8), ("array", GJ.U8, 2)]
PAYLOADS = [
    ([GJ.U8], [GJ.U8]),
    ([GJ.U16], [GJ.U8, GJ.U16]),
    ([GJ.tuple_t(GJ.U8, GJ.BOOL)], [GJ.U32]),
    ([GJ.U8, GJ.tuple_t(GJ.U16, GJ.U8)], [GJ.tuple_t(GJ.U8, GJ.U8)]),
]


def programs_for(rng, n, m, quick):
    """the program family of one size pair"""
    progs = []
    kts = list(KEY_TYPES_QUICK)
    if not quick or (n + m) % 3 == 0:
        kts += KEY_TYPES_MORE
    for ki, kt in enumerate(kts):
        pls = PAYLOADS if not quick else [PAYLOADS[(n + m + ki) % len(PAYLOADS)], PAYLOADS[(n * m + ki + 1) % len(PAYLOADS)]]
        for pi, (pa, pb) in enumerate(pls):
            progs.append(GJ.LoopProgram(kt, pa, pb, n, m, False, destructure_in_for=(pi + n) % 2 == 0))
            has8 = any(t == GJ.U8 for _, t in GJ.leaves(GJ.tuple_t(*pa), "x")[1]) and \
                any(t == GJ.U8 for _, t in GJ.leaves(GJ.tuple_t(*pb), "y")[1])
            if has8:
                progs.append(GJ.LoopProgram(kt, pa, pb, n, m, True, destructure_in_for=(pi + m) % 2 == 0))
            if 1 <= n + m - 1 <= 16:
                progs.append(GJ.JoinProgram(kt, pa, pb, n, m, True))
        if 1 <= n + m - 1 <= 16 and kt[0] != "tuple":   # a tuple element type always means "join on the first field"
            progs.append(GJ.JoinProgram(kt, [], [], n, m, False))
    return progs


def make_join_jobs(ck, quick):
    rng = ck.rng
    N = 4 if quick else 8
    jobs, meta = [], {}
    dist = {"programs": 0, "runs": 0, "order_types_exhaustive_pairs": 0, "order_types_sampled_pairs": 0,
            "runs_by_kind": {}, "runs_by_mode": {}, "key_types": {}, "size_pairs": 0, "want_panic_runs": 0,
            "dup_runs": 0}
    jn = 0
    # corpus: the documented examples (tests/compile.rs compile_join_*), with their inputs
    for src, runs, check in corpus_programs():
        jid = f"c{jn}"; jn += 1
        rs = " ".join("(run %s)" % " ".join(quote(x) for x in run) for run in runs)
        jobs.append("(joinprog %s (src %s) (runs %s))" % (jid, quote(src), rs))
        meta[jid] = ("corpus", src, runs, check)
        dist["programs"] += 1; dist["runs"] += len(runs)
    # zero-length arrays are outside the property's quantifier (lengths >= 1) but must at least
    # compile and never run the body: sizes (0, m), (n, 0), (0, 0) with the basic programs
    pairs = [(n, m) for n in range(1, N + 1) for m in range(1, N + 1)] + \
            [(0, 0), (0, 1), (1, 0), (0, 3), (2, 0)]
    for n, m in pairs:
        if True:
            dist["size_pairs"] += 1
            cap = 400 if quick else 600
            if GJ.delannoy(n, m) <= cap:
                ots = GJ.order_types(n, m); dist["order_types_exhaustive_pairs"] += 1
            else:
                ots = [GJ.random_order_type(rng, n, m) for _ in range(cap)]
                # the extreme shapes are always present
                ots += [(list(range(n)), list(range(m))), (list(range(n)), list(range(n, n + m))),
                        (list(range(m, m + n)), list(range(m)))]
                dist["order_types_sampled_pairs"] += 1
            for prog in programs_for(rng, n, m, quick):
                runs, info = [], []
                # exhaustive order types only for a share of the programs when they are many
                cap_p = 140 if quick else 100
                share = ots if (len(ots) <= cap_p or prog.kt == GJ.U8) else rng.sample(ots, cap_p)
                for ar, br in share:
                    mode = rng.choice(["small", "small", "shift", "random", "edges"])
                    wantp = prog.kind == "loop-panic" and rng.random() < 0.35
                    a, b = GJ.make_arrays(rng, prog, ar, br, mode, want_panic=wantp)
                    runs.append((a, b)); info.append(mode)
                    dist["runs_by_mode"][mode] = dist["runs_by_mode"].get(mode, 0) + 1
                    dist["want_panic_runs"] += 1 if wantp else 0
                if prog.kind.startswith("join"):
                    for _ in range(12 if quick else 60):
                        runs.append(GJ.dup_arrays(rng, prog)); info.append("dups")
                        dist["dup_runs"] += 1
                jid = f"p{jn}"; jn += 1
                jobs.append(GJ.fmt_job(jid, prog, runs))
                meta[jid] = ("gen", prog, runs, info)
                dist["programs"] += 1; dist["runs"] += len(runs)
                dist["runs_by_kind"][prog.kind] = dist["runs_by_kind"].get(prog.kind, 0) + len(runs)
                ks = GJ.type_str(prog.kt)
                dist["key_types"][ks] = dist["key_types"].get(ks, 0) + 1
    return jobs, meta, dist


def corpus_programs():
    """tests/compile.rs: compile_join_loop, compile_join_built_in, compile_loop_over_join,
    compile_join_loop_destructuring and the garble_docs examples, with expected values."""
    def s3(s):
        return "[" + ", ".join("%du8" % ord(c) for c in s) + "]"
    loop = ("pub fn main(rows1: [([u8; 3], u16); 5], rows2: [([u8; 3], u16, u16); 3]) -> u16 {\n"
            "    let mut result = 0u16;\n    for row in join_iter(rows1, rows2) {\n"
            "        let ((_, field1), (_, field2, field3)) = row;\n"
            "        result = result + field1 + field2 + field3;\n    }\n    result\n}\n")
    a = "[" + ", ".join("(%s, %du16)" % (s3(k), v) for k, v in
                        [("aaa", 0), ("aab", 10), ("bar", 1), ("baz", 2), ("qux", 3)]) + "]"
    b = "[" + ", ".join("(%s, %du16, %du16)" % (s3(k), v, w) for k, v, w in
                        [("baz", 4, 5), ("foo", 6, 7), ("qux", 8, 9)]) + "]"
    builtin = ("pub fn main(rows1: [[u8; 3]; 5], rows2: [[u8; 3]; 3]) -> [(bool, [u8; 3]); const { 5usize + 3usize - 1usize } ] {\n"
               "    join(rows1, rows2)\n}\n")
    a2 = "[" + ", ".join(s3(k) for k in ["aaa", "aaa", "bar", "baz", "qux"]) + "]"
    b2 = "[" + ", ".join(s3(k) for k in ["baz", "foo", "qux"]) + "]"
    over = ("pub fn main(rows1: [([u8; 3], u16); 4], rows2: [([u8; 3], u16, u16); 3]) -> u16 {\n"
            "    let mut result = 0u16;\n    for row in join(rows1, rows2) {\n"
            "        let (in_join, (_, field1), (_, field2, field3)) = row;\n"
            "        if in_join {\n            result = result + field1 + field2 + field3;\n        }\n    }\n    result\n}\n")
    a3 = "[" + ", ".join("(%s, %du16)" % (s3(k), v) for k, v in [("aaa", 0), ("bar", 1), ("baz", 2), ("qux", 3)]) + "]"
    destr = ("pub fn main(rows1: [(u8, u16); 3], rows2: [(u8, u16); 3]) -> u16 {\n    let mut result = 0u16;\n"
             "    for ((_, a), (_, b)) in join_iter(rows1, rows2) {\n        result += a + b;\n    }\n    result\n}\n")
    u16 = lambda n: [int(c) for c in format(n, "016b")]
    baz = [int(c) for ch in "baz" for c in format(ord(ch), "08b")]
    qux = [int(c) for ch in "qux" for c in format(ord(ch), "08b")]
    exp_builtin = [0] * 25 * 5 + [1] + baz + [1] + qux
    # witness of the repaired panic-cache defect (known_findings.json: fixed, c5c1727)
    leak = ("pub fn main(a: [(u16, u8); 1], b: [(u16, u8); 2]) -> u8 {\n    let mut cnt = 0u8;\n"
            "    for joined in join_iter(a, b) {\n        let ((ka, x0), (kb, y0)) = joined;\n"
            "        let s = x0 + y0;\n        cnt = cnt + 1u8;\n    }\n    cnt\n}\n")
    return [
        (leak, [("[(1u16, 59u8)]", "[(0u16, 232u8), (1u16, 3u8)]")], [[0, 0, 0, 0, 0, 0, 0, 1]]),
        (loop, [(a, b)], [u16(2 + 3 + 4 + 5 + 8 + 9)]),
        (builtin, [(a2, b2)], [exp_builtin]),
        (over, [(a3, b)], [u16(2 + 3 + 4 + 5 + 8 + 9)]),
        (destr, [("[(0u8, 10u16), (1u8, 11u16), (2u8, 12u16)]", "[(0u8, 5u16), (2u8, 6u16), (3u8, 7u16)]")],
         [u16(10 + 5 + 12 + 6)]),
    ]


def parse_runs(res):
    """-> ('ok', [run result strings]) | (other tag, text)"""
    t = sx_parse(res)
    if not t or not isinstance(t[0], list) or not t[0]:
        return "bad", res
    top = t[0]
    if top[0] != "ok":
        return top[0], res
    out = []
    for r in top[1:]:
        if r[0] == "r":
            out.append(r[1][1])
        else:
            out.append(None)
    return "ok", out


def decode_out(bits):
    """-> (panicked, reason, start_line, result bits)"""
    b = [1 if c == "1" else 0 for c in bits]
    word = lambda i: int("".join(map(str, b[1 + 32 * i: 33 + 32 * i])), 2)
    return b[0] == 1, word(0), word(1), b[161:]


def check_joinprog(ck, job, res, m, stats):
    tag, payload = parse_runs(res)
    kind = m[0]
    if tag != "ok":
        empty = kind == "gen" and m[1].n + m[1].m == 0
        ck.violation("a well-typed join program is rejected, or compiling it panics",
                     {"job": job[:3000], "rust": res[:1000]},
                     key="join-of-two-empty-arrays-panics-in-the-compiler" if empty and tag == "compile-crash" else None)
        return
    if kind == "corpus":
        _, src, runs, exp = m
        for run, got, e in zip(runs, payload, exp):
            stats["runs"] += 1
            if got is None:
                ck.violation("evaluation of a documented join example fails", {"src": src, "inputs": run, "rust": res[:500]})
                return
            p, reason, line, bits = decode_out(got)
            if p or bits != e:
                ck.violation("documented join example returns a different value",
                             {"src": src, "inputs": run, "panicked": p, "result_bits": "".join(map(str, bits)),
                              "expected_bits": "".join(map(str, e))})
                return
        return
    _, prog, runs, info = m
    for (a, b), got, mode in zip(runs, payload, info):
        stats["runs"] += 1
        replay = {"program": prog.src, "a": GJ.lit(("array", prog.ea, prog.n), a),
                  "b": GJ.lit(("array", prog.eb, prog.m), b), "input_class": mode, "kind": prog.kind,
                  "prog_spec": repr(prog.spec), "a_val": repr(a), "b_val": repr(b)}
        if got is None:
            ck.violation("evaluating a join program fails (argument rejected or evaluation panics)", dict(replay, rust=res[:300]))
            return
        p, reason, line, bits = decode_out(got)
        if len(bits) != GJ.size(prog.ret):
            ck.violation("result has the wrong number of bits", dict(replay, got=len(bits), expected=GJ.size(prog.ret)))
            return
        if prog.kind.startswith("loop"):
            exp = prog.expected(a, b)
            npairs = len(GJ.join_spec(prog.kt, a, b))
            stats["pairs"] += npairs
            if exp[0] == "panic":
                stats["panics_expected"] += 1
                if not p or reason != 1 or line != prog.panic_line - 1:   # MetaInfo lines are 0-based
                    ck.violation("a joined pair overflows in the loop body but the circuit does not report that panic",
                                 dict(replay, panicked=p, reason=reason, line=line, expected_line=prog.panic_line - 1))
                    return
                continue
            if p:
                ck.violation("for-join loop panics although no joined pair fails (effect of a non-joined window leaked)",
                             dict(replay, reason=reason, line=line), key="joinloop-panic-leaks-from-unjoined-window")
                return
            val, _ = GJ.decode(prog.ret, bits)
            if GJ.tup(val) != GJ.tup(exp[1]):
                ck.violation("for-join loop result differs from join_spec (pairs with equal keys, ascending key order, "
                             "body run exactly once per pair)",
                             dict(replay, result={"acc": val[0], "count": val[1], "keys_equal": val[2]},
                                  expected={"acc": exp[1][0], "count": exp[1][1], "keys_equal": True}))
                return
        else:
            if p:
                ck.violation("join() panics", dict(replay, reason=reason, line=line))
                return
            val, _ = GJ.decode(prog.ret, bits)
            bad = prog.check(a, b, val)
            if mode == "dups":
                stats["dup_runs"] += 1
            if bad:
                ck.violation("join() result violates the property: " + bad, dict(replay, result=str(val)))
                return


# ------------------------------------------------------------------ run

def run(ck):
    quick = ck.tier == "quick"
    ck.prepare("C13")
    if not (ck.harness_ok and ck.model_ok):
        return ck.finish(trusted=COMMON_TRUSTED)
    # (A)
    jobs, meta, dist = make_sortnet_jobs(ck, quick)
    rs, ml = run_both(jobs, "c13s", timeout_per_job=1.0)
    mism = 0
    stats = {"crash": 0, "truth_equal": 0, "sorted_checked": 0}
    for j in jobs:
        jid = job_id(j)
        r, m = rs.get(jid, "(no-result)"), ml.get(jid, "(no-result)")
        n, elems, ops, cls = meta[jid]
        check_sortnet(ck, j, r, m, n, elems, ops, cls, stats)
        rcmp = re.sub(r"\s*\(truth .*\)$", "", r)
        if rcmp != m:
            mism += 1
            if mism <= 3:
                ck.violation("model and implementation disagree (element wires / built circuit of a sorting-network request)",
                             {"job": j, "rust": rcmp[:3000], "model": m[:3000], "correspondence": "sortnet jobs"},
                             found_input=False)
    ck.obligation("correspondence: element wires and built circuit of push_gt_circuit / push_sorter / "
                  "push_bitonic_merger / push_bitonic_sorter equal the model's (Gadgets.v) on every generated request",
                  mism == 0, f"{mism} differing jobs")
    # (C)
    jjobs, jmeta, jdist = make_join_jobs(ck, quick)
    jr = run_jobs(GVRUN, jjobs, "c13j", timeout_per_job=20.0, base_timeout=120)
    jstats = {"runs": 0, "pairs": 0, "panics_expected": 0, "dup_runs": 0}
    for j in jjobs:
        jid = job_id(j)
        check_joinprog(ck, j, jr.get(jid, "(no-result)"), jmeta[jid], jstats)
    # the lowering of for-join / join (compile_bitonic_merge) is modelled in Compile/Lower.v: structural tie on the join programs
    import lowertie
    jsrcs = [(job_id(j), (jmeta[job_id(j)][1].src if jmeta[job_id(j)][0] == "gen" else jmeta[job_id(j)][1])) for j in jjobs]
    ck.rng.shuffle(jsrcs)
    lowertie.tie_pass(ck, jsrcs, max_programs=60 if quick else 800)
    ck.coverage.update({
        "evaluations": len(jobs) + jstats["runs"],
        "distinct_nontrivial": len(set(re.sub(r"^\(sortnet \S+ ", "", j) for j in jobs)) +
                               len(set(hash((jmeta[job_id(j)][1].src if jmeta[job_id(j)][0] == "gen" else jmeta[job_id(j)][1],
                                             str(run))) for j in jjobs for run in jmeta[job_id(j)][2])),
        "rule": "sortnet: requests (gt / sorter / merger asc+desc / bitonic sorter, 1-3 per job) on element vectors of "
                "1..8 (thorough 16) elements over <= 12 (16) input bits, elements from distinct inputs or sharing wires "
                "and constants, plus a malformed stream (width > element, index out of range, unequal lengths, empty); "
                "distinct by payload. joinprog (SEARCH, not proof): for every size pair n,m <= 4 (thorough 8), key "
                "types u8/u16/u32/(u8,u8)/[u8;2], 4 payload shapes, programs {for-join loop with order-sensitive "
                "accumulator, same with an overflowing u8 addition in the body, join() with and without associated "
                "data}; inputs = every order type (lattice paths A/B/AB) of two strictly ascending arrays "
                "(exhaustive while the Delannoy number <= 400 (600), else sampled + extremes), keys 0.., shifted, "
                "random multi-bit, 0 and MAX present; unjoined elements carry large payloads; for join() also arrays "
                "with repeated keys inside one side; a run is distinct by (program, inputs)",
        "traces_validated_against_impl": len(jobs) - mism,
        "input_distribution": {"sortnet": dist, "joinprog": jdist},
        "sortnet_oracle": stats, "joinprog_oracle": jstats,
        "proof_scope": "Props/C13.v: network level (gt, compare-exchange networks, zero-one principle, bounded "
                       "sortedness, Hoare lifts under builder_ops_sound). The program level (compile_bitonic_merge, "
                       "JoinLoop, join) is searched, not proved.",
    })
    ck.samples = [jobs[0][:400], jobs[len(jobs) // 2][:400], jjobs[0][:600], jjobs[len(jjobs) // 2][:900]]
    return ck.finish(trusted=COMMON_TRUSTED + [
        "modelled: circuit.rs push_gt_circuit, push_condswap, push_sorter, push_bitonic_merger, push_bitonic_sorter "
        "(Gadgets.v, builder form; next_power_of_two()/2 as pow2_below); pure specification Sort.v",
        "assumed in the wire-level theorems: builder_ops_sound inv (BuilderSpec.v), proved separately for the concrete "
        "builder invariant",
        "modelled and tied structurally (Compile/Lower.v; the emitted circuits compute the bit-level semantics TSem for all inputs, "
        "LowerSound.v), but that TSem's join equals the reference join is searched only (joinprog jobs): compile.rs compile_bitonic_merge, JoinLoop, BuiltInFnCall::Join, "
        "check.rs typing of join_iter/join; tools/gen_join.py join_spec and literal encoders are trusted",
    ])


class _Collector:
    """stands in for vlib.Check when a single case is re-checked"""
    def __init__(self):
        self.found = []

    def violation(self, what, replay, key=None, found_input=True):
        self.found.append((what, replay, found_input))


def replay(path):
    """./check C13 --replay <file>: re-runs the case of a replay file on the real code (and, for
    sortnet jobs, on the model), re-applies the oracle and prints the outcome; exit 1 when the
    violation reproduces."""
    import json, ast
    d = json.load(open(path))
    rp = d.get("replay", {})
    with BuildLock():
        build_coq(); build_ocaml(); build_harness()
    col = _Collector()
    print("what :", d.get("what"))
    if "prog_spec" in rp:
        prog = GJ.program_of_spec(ast.literal_eval(rp["prog_spec"]))
        a, b = ast.literal_eval(rp["a_val"]), ast.literal_eval(rp["b_val"])
        job = GJ.fmt_job("rp", prog, [(a, b)])
        r = run_jobs(GVRUN, [job], "c13rp", timeout_per_job=60).get("rp", "(no-result)")
        print("program:\n" + prog.src); print("a =", rp["a"]); print("b =", rp["b"]); print("rust :", r[:1500])
        check_joinprog(col, job, r, ("gen", prog, [(a, b)], [rp.get("input_class", "")]),
                       {"runs": 0, "pairs": 0, "panics_expected": 0, "dup_runs": 0})
    elif "job" in rp and rp["job"].startswith("(sortnet"):
        job = rp["job"]
        t = sx_parse(job)[0]
        jid = t[1]
        n = sum(int(x) for x in sx_field(t, "inputs")[1:])
        elems = [[int(w) for w in e] for e in sx_field(t, "elems")[1:]]
        ops = [tuple([o[0]] + [int(x) for x in o[1:]]) for o in sx_field(t, "ops")[1:]]
        rs, ml = run_both([job], "c13rp", timeout_per_job=60)
        r, m = rs.get(jid, "(no-result)"), ml.get(jid, "(no-result)")
        print("job  :", job[:2000]); print("rust :", r[:1500]); print("model:", m[:1500])
        check_sortnet(col, job, r, m, n, elems, ops, "replay", {"crash": 0, "truth_equal": 0, "sorted_checked": 0})
        if re.sub(r"\s*\(truth .*\)$", "", r) != m:
            col.found.append(("model and implementation disagree", {}, False))
    elif "job" in rp:
        job = rp["job"]
        r = run_jobs(GVRUN, [job], "c13rp", timeout_per_job=60).get(job_id(job), "(no-result)")
        print("job  :", job[:2000]); print("rust :", r[:1500])
        if not r.startswith("(ok"):
            col.found.append(("program rejected or compiler panic", {}, True))
    else:
        print("no replayable case in the file (obligation-only replay)"); return 1
    for what, _, _ in col.found:
        print("REPRODUCED:", what)
    if not col.found:
        print("not reproduced (the real code agrees with the specification on this case)")
    return 1 if col.found else 0
