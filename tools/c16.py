"""C16 — a circuit that passes validation can be evaluated safely."""
import re
from vlib import *
import gen_circ as G


def gen_jobs(ck, n_ssa, n_reg):
    rng = ck.rng
    jobs, meta = [], {}
    dist = {}
    # corpus first: the witnesses of the repaired defect (known_findings.json: fixed)
    corpus = [
        '(reg k1 (ir 1) (insts) (max 0) (outs 0) (ands 0) (ins "1"))',
        '(reg k2 (ir 1) (insts (0 (i 5 0))) (max 1) (outs 0) (ands 0) (ins "1"))',
        '(reg k3 (ir 1) (insts (0 (i 0 0))) (max 2) (outs 1) (ands 0) (ins "1"))',
        '(reg k4 (ir 1) (insts (0 (i 0 7))) (max 1) (outs 0) (ands 0) (ins "1"))',
        '(reg k5 (ir 1 2) (insts (0 (i 0 0)) (1 (i 1 0)) (2 (i 1 1)) (1 (x 0 1)) (0 (a 0 2)) (1 (x 1 0)) (0 (a 0 1))) (max 3) (outs 1 0) (ands 2) (ins "1" "01"))',
        # round-9 seed C16-r9: an Input instruction that names a ZERO-SIZE party with index 0 (off-by-one of the bounds test)
        '(reg k10 (ir 1 0) (insts (0 (i 0 0)) (1 (i 1 0)) (2 (x 0 1))) (max 3) (outs 2) (ands 0) (ins "1" ""))',
        '(reg k11 (ir 0 1) (insts (0 (i 0 0)) (1 (i 1 0)) (2 (x 0 1))) (max 3) (outs 2) (ands 0) (ins "" "1"))',
        '(reg k12 (ir 0 2 0) (insts (0 (i 1 0)) (1 (i 1 1)) (2 (i 2 0)) (3 (a 0 1))) (max 4) (outs 3) (ands 1) (ins "" "10" ""))',
        '(reg k13 (ir 2 0) (insts (0 (i 0 0)) (1 (i 0 1)) (2 (i 1 1)) (3 (a 0 1))) (max 4) (outs 3) (ands 1) (ins "10" ""))',
        '(reg k14 (ir 1 0) (insts (0 (i 0 0)) (1 (x 0 0))) (max 2) (outs 1) (ands 0) (ins "1" ""))',
        '(ssa k6 (ig 0) (gates (x 0 0)) (outs 0) (ins ""))',
        '(ssa k7 (ig 1 2) (gates (x 0 1) (a 0 2) (x 3 4) (n 5)) (outs 5 6 0) (ins "1" "01"))',
        '(ssa k8 (ig 2) (gates (x 2 0)) (outs 2) (ins "10"))',
        '(ssa k9 (ig 2) (gates (x 0 1)) (outs 3) (ins "10"))',
    ]
    for j in corpus:
        jobs.append(j); meta[job_id(j)] = {"kind": "corpus", "shape_ok": True}
    for i in range(n_ssa):
        ig, gates, outs = G.valid_ssa(rng)
        what = "valid"
        if rng.random() < 0.45:
            ig, gates, outs, what = G.corrupt_ssa(rng, ig, gates, outs)
        wrong = rng.random() < 0.08
        ins = G.ins_for(rng, ig, wrong)
        jid = f"s{i}"
        jobs.append(f"(ssa {jid} {G.fmt_ssa_fields(ig, gates, outs)} {G.fmt_ins(ins)})")
        meta[jid] = {"kind": "ssa:" + what, "shape_ok": not wrong}
        dist["ssa:" + what] = dist.get("ssa:" + what, 0) + 1
    for i in range(n_reg):
        ir, insts, mx, outs, ands = G.valid_reg(rng)
        what = "valid"
        if rng.random() < 0.55:
            ir, insts, mx, outs, ands, what = G.corrupt_reg(rng, ir, insts, mx, outs, ands)
        wrong = rng.random() < 0.08
        ins = G.ins_for(rng, ir, wrong)
        jid = f"r{i}"
        jobs.append(f"(reg {jid} {G.fmt_reg_fields(ir, insts, mx, outs, ands)} {G.fmt_ins(ins)})")
        meta[jid] = {"kind": "reg:" + what, "shape_ok": not wrong}
        dist["reg:" + what] = dist.get("reg:" + what, 0) + 1
    return jobs, meta, dist


def strip_strict(s):
    return re.sub(r"\s*\(strict [^)]*\)", "", s)


def run(ck):
    quick = ck.tier == "quick"
    ok = ck.prepare("C16")
    n_ssa, n_reg = (4000, 6000) if quick else (150000, 250000)
    jobs, meta, dist = gen_jobs(ck, n_ssa, n_reg)
    by_id = {job_id(j): j for j in jobs}
    if not (ck.harness_ok and ck.model_ok):
        return ck.finish(trusted=COMMON_TRUSTED)
    rs, ml = run_both(jobs, "c16")
    mism = 0
    accepted = 0
    verdicts = {}
    for jid, job in by_id.items():
        r, m = rs.get(jid, "(no-result)"), ml.get(jid, "(no-result)")
        mcmp = strip_strict(m)
        v = re.match(r"\(validate (ok|\(err \w+|crash)", r)
        vk = v.group(1) if v else "?"
        verdicts[vk] = verdicts.get(vk, 0) + 1
        # --- oracle on the real code: accepted + declared-shape inputs => eval must not panic,
        #     must return one bit per output, and (register circuits) must not read an
        #     undefined register (decided by the model's strict evaluator on the same circuit)
        if r.startswith("(validate ok)") and meta[jid]["shape_ok"]:
            accepted += 1
            ev = re.search(r"\(eval ([^)]*)\)", r).group(1)
            nouts = len(sx_field(sx_parse(job)[0], "outs")) - 1
            if ev == "crash":
                ck.violation("validate accepts the circuit but eval panics on inputs of the declared shape",
                             {"job": job, "rust": r, "model": m})
            elif len(ev.strip('"')) != nouts:
                ck.violation("eval returns a wrong number of output bits",
                             {"job": job, "rust": r, "model": m})
            elif "(strict undef)" in m:
                ck.violation("validate accepts the circuit but evaluation reads a register that was never written",
                             {"job": job, "rust": r, "model": m})
        if r.startswith("(validate crash)"):
            ck.violation("validate itself panics", {"job": job, "rust": r, "model": m})
        if r != mcmp:
            mism += 1
            if mism <= 3:
                ck.violation("model and implementation disagree (validate verdict / eval result)",
                             {"job": job, "rust": r, "model": mcmp, "correspondence": "ssa/reg jobs"},
                             found_input=False)
    ck.obligation("correspondence: Circuit::{validate,eval} and register_circuit::Circuit::{validate,eval} "
                  "equal the model on every generated circuit value", mism == 0, f"{mism} differing jobs")
    nontrivial = len(set(re.sub(r"^\(\w+ \S+ ", "", j) for j in jobs if "(gates)" not in j and "(insts)" not in j))
    ck.coverage.update({
        "evaluations": len(jobs), "distinct_nontrivial": nontrivial,
        "rule": "random circuit values: valid ones built topologically (repeated operands, dead gates, outputs that "
                "are inputs or repeated) and single-field corruptions (forward/self/out-of-range/huge references, "
                "party sizes 0, empty outputs, max_reg_count 0 or too small, Input with wrong party/index/position, "
                "reads of unwritten registers, unwritten outputs); 8% of jobs use inputs of a wrong shape; "
                "non-trivial = at least one gate/instruction; distinct by payload",
        "traces_validated_against_impl": len(jobs) - mism,
        "input_distribution": dist, "rust_validate_verdicts": verdicts,
        "accepted_with_declared_shape": accepted,
    })
    ck.samples = [jobs[0], jobs[len(jobs) // 2], jobs[-1]]
    return ck.finish(trusted=COMMON_TRUSTED + [
        "modelled: circuit.rs:113-230 and register_circuit.rs:117-209; usize/u32 arithmetic is unbounded N in the "
        "model (sizes are assumed < 2^32); allocation failure of vec![..; max_reg_count] is outside the model"],
        extra_assumptions=["inputs 'of the declared shape' only (other shapes may panic, as documented)"])
