"""Generator for `consts` jobs (property C12): const blocks, supplied assignments, programs that
use the consts, the textually substituted program and an independent Python implementation of
the documented meaning of const definitions (const_spec: min/max/+/- in wrapping arithmetic of
the const's own type)."""
from vlib import quote

UNS = {"u8": 8, "u16": 16, "u32": 32, "u64": 64, "usize": 32}
SIG = {"i8": 8, "i16": 16, "i32": 32, "i64": 64}
TYPES = ["bool"] + list(UNS) + list(SIG)


def bits_of(ty):
    return 1 if ty == "bool" else UNS.get(ty) or SIG[ty]


def in_range(ty, v):
    if ty == "bool":
        return v in (0, 1)
    if ty in UNS:
        return 0 <= v < 2 ** UNS[ty]
    return -2 ** (SIG[ty] - 1) <= v < 2 ** (SIG[ty] - 1)


def wrap(ty, v):
    if ty in UNS:
        return v % 2 ** UNS[ty]
    b = SIG[ty]
    return (v + 2 ** (b - 1)) % 2 ** b - 2 ** (b - 1)


# ------------------------------------------------------------------ expressions
# ('t',) ('f',) ('u', n, ty) ('s', z, ty) ('ext', party, name) ('id', name)
# ('max', [e..]) ('min', [e..]) ('add', a, b) ('sub', a, b);  ty may be 'uX' / 'iX' (no suffix)

def e_src(e, top=True):
    k = e[0]
    if k == "t": return "true"
    if k == "f": return "false"
    if k in ("u", "s"):
        return f"{e[1]}" + ("" if e[2] in ("uX", "iX") else e[2])
    if k == "ext": return f"{e[1]}::{e[2]}"
    if k == "id": return e[1]
    if k in ("max", "min"):
        return k + "(" + ", ".join(e_src(a) for a in e[1]) + ")"
    s = e_src(e[1], False) + (" + " if k == "add" else " - ") + e_src(e[2], False)
    return s if top else "(" + s + ")"


def e_sx(e):
    k = e[0]
    if k in ("t", "f"): return f"({k})"
    if k in ("u", "s"): return f"({k} {e[1]} {e[2]})"
    if k == "ext": return f"(ext {e[1]} {e[2]})"
    if k == "id": return f"(id {e[1]})"
    if k in ("max", "min"):
        return "(" + k + "".join(" " + e_sx(a) for a in e[1]) + ")"
    return f"({k} {e_sx(e[1])} {e_sx(e[2])})"


def lit_sx(l):
    if l[0] in ("t", "f", "other"): return f"({l[0]})"
    return f"({l[0]} {l[1]} {l[2]})"


def lit_type(l):
    return {"t": "bool", "f": "bool", "other": None}.get(l[0], l[2] if l[0] in ("u", "s") else None)


def lit_val(l):
    return {"t": 1, "f": 0}.get(l[0], l[1] if l[0] in ("u", "s") else None)


class SpecError(Exception):
    pass


def spec_expr(ty, e, sup, cv):
    """documented meaning; raises SpecError if the expression is not well-formed for type ty"""
    k = e[0]
    if k in ("t", "f"):
        if ty != "bool": raise SpecError("bool literal")
        return 1 if k == "t" else 0
    if k in ("u", "s"):
        if e[2] != ty or not in_range(ty, e[1]): raise SpecError("literal type")
        return e[1]
    if k == "ext":
        l = sup.get(e[1], {}).get(e[2])
        if l is None or lit_type(l) != ty or not in_range(ty, lit_val(l)):
            raise SpecError("external")
        return lit_val(l)
    if k == "id":
        if e[1] not in cv or cv[e[1]][0] != ty: raise SpecError("ident")
        return cv[e[1]][1]
    if ty == "bool": raise SpecError("arith in bool")
    if k in ("max", "min"):
        if not e[1]: raise SpecError("empty")
        vs = [spec_expr(ty, a, sup, cv) for a in e[1]]
        return max(vs) if k == "max" else min(vs)
    a, b = spec_expr(ty, e[1], sup, cv), spec_expr(ty, e[2], sup, cv)
    return wrap(ty, a + b if k == "add" else a - b)


def const_spec(defs, sup):
    """defs: [(name, ty, expr)] in source order -> {name: (ty, value)}"""
    cv = {}
    for name, ty, e in defs:
        if name in cv: raise SpecError("duplicate")
        cv[name] = (ty, spec_expr(ty, e, sup, cv))
    return cv


def exts_of(e, out):
    if e[0] == "ext": out.append((e[1], e[2]))
    elif e[0] in ("max", "min"):
        for a in e[1]: exts_of(a, out)
    elif e[0] in ("add", "sub"):
        exts_of(e[1], out); exts_of(e[2], out)
    return out


def deps_of(defs):
    """(party, name) -> declared type (type of the last const that uses it), in order of last use"""
    d = {}
    for _, ty, e in defs:
        for k in exts_of(e, []):
            d.pop(k, None)
            d[k] = ty
    return d


def ext_two_types(defs):
    seen = {}
    for _, ty, e in defs:
        for k in exts_of(e, []):
            if seen.setdefault(k, ty) != ty: return True
    return False


def static_wt(defs):
    """well-formedness that does not depend on the supplied values"""
    decl = {}
    def go(ty, e):
        k = e[0]
        if k in ("t", "f"): return ty == "bool"
        if k in ("u", "s"): return e[2] == ty and in_range(ty, e[1])
        if k == "ext": return True
        if k == "id": return decl.get(e[1]) == ty
        if ty == "bool": return False
        if k in ("max", "min"): return len(e[1]) > 0 and all(go(ty, a) for a in e[1])
        return go(ty, e[1]) and go(ty, e[2])
    for name, ty, e in defs:
        if name in decl or not go(ty, e): return False
        decl[name] = ty
    # an external constant used at two different types cannot be supplied consistently
    seen = {}
    for _, ty, e in defs:
        for k in exts_of(e, []):
            if seen.setdefault(k, ty) != ty: return False
    return True


# ------------------------------------------------------------------ random generation

def boundary(rng, ty, small=False):
    if ty == "bool": return rng.choice([0, 1])
    if small: return rng.choice([0, 1, 1, 2, 2, 3, 4, 5])
    if ty in UNS:
        b = UNS[ty]
        c = [0, 1, 2, 3, 2 ** b - 1, 2 ** b - 2, 2 ** (b - 1), 2 ** (b - 1) - 1, rng.randrange(2 ** b),
             rng.randrange(256), 100, 200, 50]
        return min(rng.choice(c), 2 ** b - 1)
    b = SIG[ty]
    c = [0, 1, -1, 2, -2, 2 ** (b - 1) - 1, -2 ** (b - 1), -2 ** (b - 1) + 1, 2 ** (b - 1) - 2,
         rng.randrange(-2 ** (b - 1), 2 ** (b - 1)), rng.randrange(-128, 128), -5, -3, 100]
    v = rng.choice(c)
    return max(-2 ** (b - 1), min(v, 2 ** (b - 1) - 1))


def mk_lit_expr(ty, v):
    if ty == "bool": return ("t",) if v else ("f",)
    return ("u" if ty in UNS else "s", v, ty)


def mk_lit(ty, v):
    return mk_lit_expr(ty, v)


def gen_expr(rng, ty, depth, earlier, exts, small):
    """earlier: names of earlier consts of type ty; exts: list collecting (party, name, ty)"""
    def leaf():
        r = rng.random()
        if r < 0.45 or (ty == "bool" and r < 0.6):
            same = [x for x in exts if x[2] == ty]
            if same and rng.random() < 0.3:
                p, n, _ = rng.choice(same)
            else:
                p, n = f"PARTY_{rng.randrange(3)}", f"{'XYZWVU'[len(exts) % 6]}{len(exts)}"
                exts.append((p, n, ty))
            return ("ext", p, n)
        if r < 0.7 and earlier:
            return ("id", rng.choice(earlier))
        return mk_lit_expr(ty, boundary(rng, ty, small))
    if depth == 0 or ty == "bool" or rng.random() < 0.25:
        return leaf()
    k = rng.choice(["max", "min", "add", "sub", "add", "sub"])
    if k in ("max", "min"):
        return (k, [gen_expr(rng, ty, depth - 1, earlier, exts, small) for _ in range(rng.choice([1, 2, 2, 3]))])
    return (k, gen_expr(rng, ty, depth - 1, earlier, exts, small), gen_expr(rng, ty, depth - 1, earlier, exts, small))


def gen_block(rng, want_size=False):
    """-> (defs, exts, small_names): a well-formed block; consts in small_names have small
    operands only (usable as sizes)"""
    n = rng.choice([1, 2, 2, 3, 3, 4, 5, 6])
    defs, exts, small_names = [], [], set()
    tys = []
    for i in range(n):
        if want_size and i < 2:
            ty = "usize"
        elif tys and rng.random() < 0.5:
            ty = rng.choice(tys)
        else:
            ty = rng.choice(TYPES + ["usize", "i32", "u8"])
        small = ty == "usize" and (want_size or rng.random() < 0.5)
        earlier = [d[0] for d in defs if d[1] == ty and (not small or d[0] in small_names)]
        name = f"C{'ABCDEFGH'[i]}"
        e = gen_expr(rng, ty, rng.choice([0, 1, 1, 2, 3]), earlier, exts, small)
        if small:
            small_names.add(name)
        defs.append((name, ty, e))
        tys.append(ty)
    if rng.random() < 0.3:
        # chain of plain references (exercises the binding order)
        base = defs[0]
        for j in range(rng.choice([2, 3, 4])):
            nm = f"R{j}"
            defs.append((nm, base[1], ("id", defs[-1][0] if j else base[0])))
            if base[0] in small_names: small_names.add(nm)
    return defs, exts, small_names


def gen_supplied(rng, exts, small_parties=()):
    sup = {}
    for p, n, ty in exts:
        v = boundary(rng, ty, small=(p, n) in small_parties)
        sup.setdefault(p, {})[n] = mk_lit(ty, v)
    return sup


def small_exts(defs, small_names):
    out = set()
    for name, _, e in defs:
        if name in small_names:
            out.update(exts_of(e, []))
    return out


def mutate_supplied(rng, sup, deps):
    """-> (sup', what): missing / wrong type / extra / several"""
    sup = {p: dict(m) for p, m in sup.items()}
    keys = list(deps)
    what = []
    def wrong_lit(ty):
        other = rng.choice([t for t in TYPES if t != ty])
        c = [mk_lit(other, boundary(rng, other, True)), ("other",)]
        if ty != "bool": c.append(("t",))
        return rng.choice(c)
    kinds = rng.choice([["missing"], ["wrong"], ["extra"], ["missing", "wrong"], ["missing", "missing"],
                        ["wrong", "wrong"], ["missing", "wrong", "extra"], ["party"]])
    for k in kinds:
        if k == "missing" and keys:
            p, n = rng.choice(keys)
            if n in sup.get(p, {}):
                del sup[p][n]; what.append("missing")
        elif k == "party" and keys:
            p, _ = rng.choice(keys)
            if p in sup:
                del sup[p]; what.append("missing-party")
        elif k == "wrong" and keys:
            p, n = rng.choice(keys)
            if n in sup.get(p, {}):
                sup[p][n] = wrong_lit(deps[(p, n)]); what.append("wrong-type")
        elif k == "extra":
            if rng.random() < 0.5:
                sup.setdefault("PARTY_9", {})["EXTRA"] = ("u", 7, "u8")
            else:
                sup.setdefault(rng.choice(list(sup) or ["PARTY_0"]), {})["UNUSED"] = ("t",)
            what.append("extra")
    return sup, "+".join(what) or "none"


def mutate_block(rng, defs):
    """an ill-formed variant of the block (malformed stream)"""
    defs = list(defs)
    i = rng.randrange(len(defs))
    name, ty, e = defs[i]
    kind = rng.choice(["unsuffixed", "wrong-lit-type", "forward", "unknown", "bool-arith", "self", "empty-max",
                       "wrong-ref-type", "ext-two-types", "ext-two-types"])
    if kind == "ext-two-types":
        # one external constant declared by two consts of different types (either order)
        used = [(j, d[1], k) for j, d in enumerate(defs) for k in exts_of(d[2], [])]
        if not used:
            kind = "unknown"
        else:
            j, ty0, (p, n) = rng.choice(used)
            other = rng.choice([t for t in TYPES if t != ty0])
            new = ("TWO_%d" % j, other, ("ext", p, n) if other == "bool" or rng.random() < 0.5
                   else ("add", ("ext", p, n), mk_lit_expr(other, 1)))
            pos = rng.choice([0, j, j + 1, len(defs)])
            defs.insert(pos, new)
            return defs, kind
    if kind == "unsuffixed":
        e = ("add", e, ("u", 1, "uX")) if ty != "bool" else ("u", 1, "uX")
    elif kind == "wrong-lit-type":
        other = rng.choice([t for t in TYPES if t != ty and t != "bool"])
        e = mk_lit_expr(other, 1)
    elif kind == "forward":
        e = ("id", defs[-1][0]) if i < len(defs) - 1 else ("id", "NOPE")
    elif kind == "unknown":
        e = ("max", [e, ("id", "NOPE")]) if ty != "bool" else ("id", "NOPE")
    elif kind == "bool-arith":
        ty = "bool"
        e = rng.choice([("max", [("t",), ("f",)]), ("add", ("ext", "PARTY_0", "BA"), ("ext", "PARTY_0", "BB")),
                        ("min", [("ext", "PARTY_0", "BA")])])
    elif kind == "self":
        e = ("id", name)
    elif kind == "empty-max":
        if ty == "bool": ty = "u8"
        e = (rng.choice(["max", "min"]), [])
    elif kind == "wrong-ref-type":
        others = [d for d in defs[:i] if d[1] != ty]
        e = ("id", others[0][0]) if others else ("id", "NOPE")
    defs[i] = (name, ty, e)
    return defs, kind


# ------------------------------------------------------------------ programs

def block_src(defs):
    return "".join(f"const {n}: {ty} = {e_src(e)};\n" for n, ty, e in defs)


def lit_src(ty, v, ctx):
    if ctx == "size": return str(v)
    if ty == "bool": return "true" if v else "false"
    return f"({v}{ty})" if v < 0 else f"{v}{ty}"


def observer(defs):
    """main returns every const"""
    names = [d[0] for d in defs]
    tys = [d[1] for d in defs]
    def body(ref):
        if len(names) == 1:
            return f"pub fn main(_x: bool) -> {tys[0]} {{ {ref(names[0], 'expr')} }}\n"
        return (f"pub fn main(_x: bool) -> ({', '.join(tys)}) {{ ("
                + ", ".join(ref(n, 'expr') for n in names) + ") }\n")
    return {"name": "observer", "body": body, "params": ["bool"], "observe": names}


def templates(rng, defs, cv, small_names):
    """programs that use the consts as array sizes, trip counts, number of parties, join sizes
    and operands; cv = spec values (None when unknown: then sizes are assumed small)"""
    out = []
    sizes = [d[0] for d in defs if d[1] == "usize" and d[0] in small_names
             and (cv is None or cv[d[0]][1] <= 6)]
    if sizes:
        N = rng.choice(sizes)
        M = rng.choice(sizes)
        el = rng.choice(["u8", "u16", "bool", "i8"])
        out.append({"name": "array-param+index", "params": [("arrc", el, N), "usize"],
                    "body": lambda ref: f"pub fn main(a: [{el}; {ref(N, 'size')}], i: usize) -> {el} {{ a[i] }}\n"})
        out.append({"name": "single-array=parties", "params": [("arrc", "u16", N)],
                    "body": lambda ref: (f"pub fn main(a: [u16; {ref(N, 'size')}]) -> u16 {{ let mut s = 0u16; "
                                         "for e in a { s = s ^ e; } s }\n")})
        cx = ("add", ("id", N), ("u", 1, "usize"))
        out.append({"name": "single-const-expr-array=parties", "params": [("arre", "u16", cx)],
                    "body": lambda ref: (f"pub fn main(a: [u16; const {{ {ref(N, 'size')} + 1usize }}]) -> u16 {{ let mut s = 0u16; "
                                         "for e in a { s = s ^ e; } s }\n")})
        out.append({"name": "const-expr-array-param+index", "params": [("arre", el, cx), "usize"],
                    "body": lambda ref: f"pub fn main(a: [{el}; const {{ {ref(N, 'size')} + 1usize }}], i: usize) -> {el} {{ a[i] }}\n"})
        out.append({"name": "nested-array-param", "params": [("arrc", ("arr", "u8", 2), N), ("arrc", "bool", M)],
                    "body": lambda ref: (f"pub fn main(a: [[u8; 2]; {ref(N, 'size')}], b: [bool; {ref(M, 'size')}]) -> u8 {{ "
                                         "let mut s = 0u8; for e in a { s = s ^ e[1]; } for f in b { if f { s = s ^ 1u8; } } s }\n")})
        out.append({"name": "repeat+trip-count", "params": ["u8"],
                    "body": lambda ref: (f"pub fn main(x: u8) -> usize {{ let arr = [x; {ref(N, 'size')}]; let mut s = 0usize; "
                                         f"for e in arr {{ s = s + {ref(M, 'expr')} + (e as usize); }} s }}\n")})
        out.append({"name": "join_iter", "params": [("arrc", ("tup", "u8", "u8"), N), ("arrc", ("tup", "u8", "u16"), M)],
                    "body": lambda ref: (f"pub fn main(a: [(u8, u8); {ref(N, 'size')}], b: [(u8, u16); {ref(M, 'size')}]) -> u16 {{ "
                                         "let mut r = 0u16; for j in join_iter(a, b) { let ((_, x), (_, y)) = j; "
                                         "r = r ^ (x as u16) ^ y; } r }\n")})
        out.append({"name": "tuple-of-arrays-param", "params": [("tup", ("arrc", "u8", N), "bool"), "u8"],
                    "body": lambda ref: (f"pub fn main(t: ([u8; {ref(N, 'size')}], bool), y: u8) -> u8 {{ let (a, b) = t; "
                                         "let mut s = y; for e in a { s = s ^ e; } if b { s } else { y } }\n")})
    others = [d for d in defs if d[1] != "usize" or d[0] not in small_names]
    if others:
        name, ty, _ = rng.choice(others)
        if ty == "bool":
            out.append({"name": "operand-bool", "params": ["bool"],
                        "body": lambda ref: f"pub fn main(x: bool) -> bool {{ x ^ {ref(name, 'expr')} }}\n"})
        else:
            out.append({"name": "operand-num", "params": [ty],
                        "body": lambda ref: (f"pub fn main(x: {ty}) -> ({ty}, bool) {{ "
                                             f"(x ^ {ref(name, 'expr')}, x < {ref(name, 'expr')}) }}\n")})
    return out


def pty_sx(t):
    if isinstance(t, str): return t
    if t[0] == "arrc": return f"(arrc {pty_sx(t[1])} {t[2]})"
    if t[0] == "arre": return f"(arre {pty_sx(t[1])} {e_sx(t[2])})"
    if t[0] == "arr": return f"(arr {pty_sx(t[1])} {t[2]})"
    if t[0] == "tup": return "(tup" + "".join(" " + pty_sx(x) for x in t[1:]) + ")"
    raise ValueError(t)


def psize(t, cv):
    if isinstance(t, str): return bits_of(t)
    if t[0] == "arrc": return psize(t[1], cv) * cv[t[2]][1]
    if t[0] == "arre": return psize(t[1], cv) * arre_len(t[2], cv)
    if t[0] == "arr": return psize(t[1], cv) * t[2]
    if t[0] == "tup": return sum(psize(x, cv) for x in t[1:])


def arre_len(e, cv):
    """value of a usize const expression over the (usize) consts cv: wrapping at 32 bits"""
    k = e[0]
    if k == "u": return e[1]
    if k == "id": return cv[e[1]][1]
    if k in ("max", "min"): return (max if k == "max" else min)(arre_len(a, cv) for a in e[1])
    a, b = arre_len(e[1], cv), arre_len(e[2], cv)
    return (a + b if k == "add" else a - b) % (1 << 32)


def expected_ig(params, cv):
    """party sizes that follow from the constants"""
    if len(params) == 1 and not isinstance(params[0], str) and params[0][0] in ("arrc", "arr", "arre"):
        t = params[0]
        n = cv[t[2]][1] if t[0] == "arrc" else arre_len(t[2], cv) if t[0] == "arre" else t[2]
        return [psize(t[1], cv)] * n
    return [psize(t, cv) for t in params]


def make_job(jid, defs, sup, prog, cv, runs=6, nins=12, seed=1, mode=None):
    """cv: spec values or None (then no substituted program is attached)"""
    src = block_src(defs) + prog["body"](lambda n, ctx: n)
    fields = [f"(src {quote(src)})",
              "(defs" + "".join(f" ({n} {ty} {e_sx(e)})" for n, ty, e in defs) + ")",
              "(params" + "".join(" " + pty_sx(p) for p in prog["params"]) + ")",
              "(supplied" + "".join(f" ({p}" + "".join(f" ({n} {lit_sx(l)})" for n, l in sorted(m.items())) + ")"
                                    for p, m in sorted(sup.items())) + ")",
              f"(runs {runs})"]
    if prog.get("observe"):
        fields.append("(observe " + " ".join(prog["observe"]) + ")")
    if cv is not None:
        sub = prog["body"](lambda n, ctx: lit_src(cv[n][0], cv[n][1], ctx))
        fields += [f"(subst {quote(sub)})", f"(nins {nins})", f"(seed {seed})"]
    if mode:
        fields.append(f"(mode {mode})")
    return f"(consts {jid} " + " ".join(fields) + ")"
