"""Generators for C09 `literal` jobs: type shapes with struct/enum definitions, canonical
values, alternative spellings (ArrayRepeat, Range), adversarial mutations of literals, and
literal texts (printed form and token-level perturbations of it).

Python-side representation
  types    : ('bool',) ('u',ty) ('s',ty) ('arr',T,n) ('tup',[T..]) ('st',name) ('en',name)
  defs     : ordered list of ('struct',name,[(field,T)..]) / ('enum',name,[(variant,None|[T..])..])
             in dependency order; struct fields sorted by name (as the parser stores them)
  literals : ('true',) ('false',) ('u',n,ty) ('s',n,ty) ('rep',e,n) ('arr',[..]) ('tup',[..])
             ('st',name,[(field,lit)..]) ('en',name,variant,None|[..]) ('range',a,b,ty)
Names are strings here and are replaced by their rank among all names of the job when the
job is printed."""
import re

UTY = ["usize", "u8", "u16", "u32", "u64"]
STY = ["i8", "i16", "i32", "i64"]
UBITS = {"usize": 32, "u8": 8, "u16": 16, "u32": 32, "u64": 64, "uunspec": 32}
SBITS = {"i8": 8, "i16": 16, "i32": 32, "i64": 64, "sunspec": 32}
UMAX = {t: 2 ** UBITS[t] - 1 for t in UTY}
SMIN = {t: -2 ** (SBITS[t] - 1) for t in STY}
SMAX = {t: 2 ** (SBITS[t] - 1) - 1 for t in STY}
FIELDS = ["a", "b", "c", "d", "x", "y", "foo", "bar", "key", "val", "f1", "f2"]
VARIANTS = ["A", "B", "C", "D", "Foo", "Bar", "None", "Some", "V1", "V2"]
DECOYS = ["Zz", "zz", "Aa", "a0"]


class TypeGen:
    def __init__(self, rng):
        self.rng = rng
        self.defs = []          # dependency order
        self.by_name = {}
        self.n_struct = 0
        self.n_enum = 0

    def prim(self):
        r = self.rng.random()
        if r < 0.15:
            return ("bool",)
        if r < 0.6:
            return ("u", self.rng.choice(UTY))
        return ("s", self.rng.choice(STY))

    def ty(self, depth):
        rng = self.rng
        r = rng.random()
        if depth <= 0 or r < 0.30:
            return self.prim()
        if r < 0.47:
            return ("arr", self.ty(depth - 1), rng.choice([0, 1, 2, 2, 3, 3, 4, 5]))
        if r < 0.62:
            return ("tup", [self.ty(depth - 1) for _ in range(rng.choice([0, 1, 2, 2, 3, 4]))])
        if self.defs and rng.random() < 0.25:
            d = rng.choice(self.defs)
            return ("st" if d[0] == "struct" else "en", d[1])
        if r < 0.81:
            k = rng.choice([0, 1, 2, 2, 3, 3, 4])
            names = sorted(rng.sample(FIELDS, k), key=lambda s: s.encode())
            fields = [(f, self.ty(depth - 1)) for f in names]
            name = f"S{self.n_struct}"
            self.n_struct += 1
            d = ("struct", name, fields)
            self.defs.append(d); self.by_name[name] = d
            return ("st", name)
        k = rng.choice([1, 2, 2, 3, 3, 4, 5])
        vnames = rng.sample(VARIANTS, k)
        variants = []
        for v in vnames:
            if rng.random() < 0.4:
                variants.append((v, None))
            else:
                ps = [self.ty(depth - 1) for _ in range(rng.choice([0, 1, 1, 2, 3]))]
                # parser constraint (parse.rs:330): the first field type of a tuple variant must
                # start with an identifier, i.e. it cannot be an array or tuple type
                if ps and ps[0][0] in ("arr", "tup"):
                    ps[0] = self.prim()
                variants.append((v, ps))
        name = f"E{self.n_enum}"
        self.n_enum += 1
        d = ("enum", name, variants)
        self.defs.append(d); self.by_name[name] = d
        return ("en", name)


def size(T, by_name):
    k = T[0]
    if k == "bool":
        return 1
    if k == "u":
        return UBITS[T[1]]
    if k == "s":
        return SBITS[T[1]]
    if k == "arr":
        return size(T[1], by_name) * T[2]
    if k == "tup":
        return sum(size(t, by_name) for t in T[1])
    if k == "st":
        return sum(size(t, by_name) for _, t in by_name[T[1]][2])
    if k == "en":
        vs = by_name[T[1]][2]
        tag = 0
        while (1 << tag) < len(vs):
            tag += 1
        return tag + max(sum(size(t, by_name) for t in (p or [])) for _, p in vs)
    raise ValueError(T)


def boundary_u(rng, t):
    m = UMAX[t]
    return rng.choice([0, 1, 2, m, m - 1, m // 2, m // 2 + 1, rng.randrange(m + 1), rng.randrange(min(m, 300) + 1)])


def boundary_s(rng, t):
    lo, hi = SMIN[t], SMAX[t]
    return rng.choice([0, 1, -1, lo, lo + 1, hi, hi - 1, rng.randrange(lo, hi + 1), rng.randrange(-130, 131) if t != "i8" else rng.randrange(-128, 128)])


def value(rng, T, by_name, spell=False):
    """a canonical value of T; with spell=True arrays may be written as ArrayRepeat / Range"""
    k = T[0]
    if k == "bool":
        return ("true",) if rng.random() < 0.5 else ("false",)
    if k == "u":
        return ("u", boundary_u(rng, T[1]), T[1])
    if k == "s":
        return ("s", boundary_s(rng, T[1]), T[1])
    if k == "arr":
        et, n = T[1], T[2]
        if spell and rng.random() < 0.45:
            if et[0] == "u" and rng.random() < 0.6:
                m = UMAX[et[1]]
                start = rng.choice([0, 1, m + 1 - n, max(0, m - n), rng.randrange(0, max(1, min(m + 2 - n, 1000)))])
                start = max(0, min(start, m + 1 - n, 2 ** 64 - 1 - n))   # max itself is a u64
                return ("range", start, start + n, et[1])
            return ("rep", value(rng, et, by_name, spell), n)
        return ("arr", [value(rng, et, by_name, spell) for _ in range(n)])
    if k == "tup":
        return ("tup", [value(rng, t, by_name, spell) for t in T[1]])
    if k == "st":
        return ("st", T[1], [(f, value(rng, t, by_name, spell)) for f, t in by_name[T[1]][2]])
    if k == "en":
        v, p = rng.choice(by_name[T[1]][2])
        return ("en", T[1], v, None if p is None else [value(rng, t, by_name, spell) for t in p])
    raise ValueError(T)


# ------------------------------------------------------------------ navigation

def children(l, T, by_name):
    """[(index, child literal, child type or None)] when l has the shape T expects"""
    k = l[0]
    if T is None:
        return []
    if k == "rep" and T[0] == "arr":
        return [(0, l[1], T[1])]
    if k == "arr" and T[0] == "arr":
        return [(i, e, T[1]) for i, e in enumerate(l[1])]
    if k == "tup" and T[0] == "tup":
        return [(i, e, T[1][i] if i < len(T[1]) else None) for i, e in enumerate(l[1])]
    if k == "st" and T[0] == "st" and T[1] in by_name:
        fs = by_name[T[1]][2]
        return [(i, v, fs[i][1] if i < len(fs) else None) for i, (f, v) in enumerate(l[2])]
    if k == "en" and T[0] == "en" and l[3] is not None and T[1] in by_name:
        ps = dict(by_name[T[1]][2]).get(l[2])
        return [(i, e, ps[i] if ps is not None and i < len(ps) else None) for i, e in enumerate(l[3])]
    return []


def nodes(l, T, by_name, path=()):
    out = [(path, l, T)]
    for i, c, ct in children(l, T, by_name):
        out += nodes(c, ct, by_name, path + (i,))
    return out


def replace(l, path, new):
    if not path:
        return new
    i, rest = path[0], path[1:]
    k = l[0]
    if k == "rep":
        return ("rep", replace(l[1], rest, new), l[2])
    if k in ("arr", "tup"):
        es = list(l[1]); es[i] = replace(es[i], rest, new)
        return (k, es)
    if k == "st":
        fs = list(l[2]); fs[i] = (fs[i][0], replace(fs[i][1], rest, new))
        return ("st", l[1], fs)
    if k == "en":
        es = list(l[3]); es[i] = replace(es[i], rest, new)
        return ("en", l[1], l[2], es)
    raise ValueError(l)


# ------------------------------------------------------------------ adversarial spellings

def mutate_node(rng, l, T, tg):
    """returns (new literal, mutation name)"""
    by_name = tg.by_name
    k = l[0]
    opts = ["wrong-kind"]
    if k == "u":
        opts += ["u-out-of-range"] * 3 + ["u-wrong-tag"] * 2 + ["u-to-signed", "u-unspec"]
    if k == "s":
        opts += ["s-out-of-range"] * 3 + ["s-wrong-tag"] * 2 + ["s-to-unsigned", "s-unspec"]
    if k == "arr":
        opts += ["arr-drop", "arr-add", "arr-as-tuple"]
    if k == "rep":
        opts += ["rep-count"] * 3
    if k == "range":
        opts += ["range-reversed"] * 2 + ["range-beyond-type"] * 3 + ["range-wrong-tag", "range-len", "range-unspec"]
    if k == "tup":
        opts += ["tup-drop", "tup-add", "tup-swap", "tup-as-array"]
    if k == "st":
        opts += ["st-permute"] * 3 + ["st-duplicate"] * 3 + ["st-repeat"] * 3 + ["st-drop", "st-extra", "st-rename", "st-field-rename"]
    if k == "en":
        opts += ["en-arity-short"] * 2 + ["en-arity-long"] * 3 + ["en-unit-tuple", "en-unknown-variant",
                                                                "en-other-variant", "en-wrong-enum"]
    m = rng.choice(opts)
    if m == "wrong-kind":
        other = tg.prim() if rng.random() < 0.6 else ("tup", [])
        return value(rng, other, by_name), m
    if m == "u-out-of-range":
        t = l[2]
        mx = UMAX.get(t, 2 ** 32 - 1)
        n = rng.choice([mx + 1, mx + rng.randrange(1, 1000), 2 ** 64 - 1, mx * 2 + 1])
        return ("u", min(n, 2 ** 64 - 1), t), m
    if m == "u-wrong-tag":
        return ("u", l[1], rng.choice([t for t in UTY if t != l[2]])), m
    if m == "u-to-signed":
        return ("s", min(l[1], 2 ** 63 - 1), rng.choice(STY)), m
    if m == "u-unspec":
        return ("u", l[1], "uunspec"), m
    if m == "s-out-of-range":
        t = l[2]
        lo, hi = SMIN.get(t, -2 ** 31), SMAX.get(t, 2 ** 31 - 1)
        n = rng.choice([hi + 1, lo - 1, hi + rng.randrange(1, 1000), lo - rng.randrange(1, 1000), 2 ** 63 - 1, -2 ** 63])
        return ("s", max(-2 ** 63, min(n, 2 ** 63 - 1)), t), m
    if m == "s-wrong-tag":
        return ("s", l[1], rng.choice([t for t in STY if t != l[2]])), m
    if m == "s-to-unsigned":
        return ("u", abs(l[1]), rng.choice(UTY)), m
    if m == "s-unspec":
        return ("s", l[1], "sunspec"), m
    if m == "arr-drop":
        return ("arr", l[1][:-1]), m
    if m == "arr-add":
        extra = l[1][-1] if l[1] else (value(rng, T[1], by_name) if T and T[0] == "arr" else ("true",))
        return ("arr", l[1] + [extra]), m
    if m == "arr-as-tuple":
        return ("tup", l[1]), m
    if m == "tup-as-array":
        return ("arr", l[1]), m
    if m == "rep-count":
        return ("rep", l[1], rng.choice([l[2] + 1, max(0, l[2] - 1), 0, l[2] * 2 + 1])), m
    if m == "range-reversed":
        a, b = l[1], l[2]
        if a == b:
            a, b = (a + 3, a) if a + 3 <= 2 ** 64 - 1 else (a, a - 3)    # bounds are u64 in the Rust type
        else:
            a, b = b, a
        return ("range", a, b, l[3]), m
    if m == "range-beyond-type":
        n = l[2] - l[1]
        mx = UMAX[l[3]] if l[3] in UMAX else 2 ** 32 - 1
        start = min(mx + 2 - n + rng.choice([0, 0, 1, 5]), 2 ** 64 - 1 - n) if n > 0 else mx + 5
        start = max(min(start, 2 ** 64 - 1 - max(n, 0)), 0)
        return ("range", start, start + n, l[3]), m
    if m == "range-wrong-tag":
        return ("range", l[1], l[2], rng.choice([t for t in UTY if t != l[3]])), m
    if m == "range-unspec":
        return ("range", l[1], l[2], "uunspec"), m
    if m == "range-len":
        return ("range", l[1], min(2 ** 64 - 1, max(l[1], l[2] + rng.choice([1, -1, 2]))), l[3]), m
    if m == "tup-drop":
        return ("tup", l[1][:-1]), m
    if m == "tup-add":
        return ("tup", l[1] + [l[1][-1] if l[1] else ("true",)]), m
    if m == "tup-swap":
        es = list(l[1])
        if len(es) >= 2:
            i = rng.randrange(len(es) - 1)
            es[i], es[i + 1] = es[i + 1], es[i]
        return ("tup", es), m
    if m == "st-permute":
        fs = list(l[2])
        if len(fs) >= 2:
            if rng.random() < 0.5:
                fs.reverse()
            else:
                i = rng.randrange(len(fs) - 1)
                fs[i], fs[i + 1] = fs[i + 1], fs[i]
        return ("st", l[1], fs), m
    if m == "st-duplicate":
        fs = list(l[2])
        if len(fs) >= 2:
            i, j = rng.sample(range(len(fs)), 2)
            fs[i] = (fs[j][0], fs[i][1])
        return ("st", l[1], fs), m
    if m == "st-repeat":
        # every field of the definition AND one of them a second time, with another value (n + 1 entries; round-10 seed C09-r10)
        fs = list(l[2])
        if fs:
            j = rng.randrange(len(fs))
            T = dict(by_name[l[1]][2]).get(fs[j][0]) if l[1] in by_name and by_name[l[1]][0] == "struct" else None
            other = value(rng, T, by_name) if T is not None else fs[j][1]
            fs.insert(rng.randint(0, len(fs)), (fs[j][0], other))
        return ("st", l[1], fs), m
    if m == "st-drop":
        fs = list(l[2])
        if fs:
            fs.pop(rng.randrange(len(fs)))
        return ("st", l[1], fs), m
    if m == "st-extra":
        fs = list(l[2])
        fs.insert(rng.randrange(len(fs) + 1), (rng.choice(DECOYS), ("true",)))
        return ("st", l[1], fs), m
    if m == "st-rename":
        others = [d[1] for d in tg.defs if d[1] != l[1]] + DECOYS[:1]
        return ("st", rng.choice(others), l[2]), m
    if m == "st-field-rename":
        fs = list(l[2])
        if fs:
            i = rng.randrange(len(fs))
            fs[i] = (rng.choice(DECOYS), fs[i][1])
        return ("st", l[1], fs), m
    if m == "en-arity-short":
        p = l[3]
        return ("en", l[1], l[2], (p[:-1] if p else None)), m
    if m == "en-arity-long":
        p = list(l[3] or [])
        extra = rng.choice([("true",), ("u", rng.randrange(256), "u8"), p[-1] if p else ("false",)])
        return ("en", l[1], l[2], p + [extra] * rng.choice([1, 1, 2, 40])), m
    if m == "en-unit-tuple":
        return ("en", l[1], l[2], ([] if l[3] is None else None)), m
    if m == "en-unknown-variant":
        return ("en", l[1], rng.choice(DECOYS[:1] + VARIANTS), l[3]), m
    if m == "en-other-variant":
        vs = [v for v, _ in by_name[l[1]][2] if v != l[2]] if l[1] in by_name else []
        return ("en", l[1], rng.choice(vs) if vs else DECOYS[0], l[3]), m
    if m == "en-wrong-enum":
        others = [d[1] for d in tg.defs if d[1] != l[1]] + DECOYS[:1]
        return ("en", rng.choice(others), l[2], l[3]), m
    raise ValueError(m)


def mutate(rng, l, T, tg):
    ns = nodes(l, T, tg.by_name)
    # prefer aggregate / interesting nodes a little
    path, node, nt = rng.choice(ns)
    new, m = mutate_node(rng, node, nt, tg)
    return replace(l, path, new), m


# ------------------------------------------------------------------ printing

def names_of(tg, lit, extra=()):
    s = set(DECOYS) | set(extra)
    for d in tg.defs:
        s.add(d[1])
        for f, _ in d[2]:
            s.add(f)

    def walk(l):
        if l[0] == "st":
            s.add(l[1])
            for f, v in l[2]:
                s.add(f); walk(v)
        elif l[0] == "en":
            s.add(l[1]); s.add(l[2])
            for e in l[3] or []:
                walk(e)
        elif l[0] in ("arr", "tup"):
            for e in l[1]:
                walk(e)
        elif l[0] == "rep":
            walk(l[1])
    walk(lit)
    return sorted(s, key=lambda x: x.encode())


def fmt_ty(T, rank):
    k = T[0]
    if k == "bool":
        return "bool"
    if k in ("u", "s"):
        return T[1]
    if k == "arr":
        return f"(arr {fmt_ty(T[1], rank)} {T[2]})"
    if k == "tup":
        return "(" + " ".join(["tup"] + [fmt_ty(t, rank) for t in T[1]]) + ")"
    if k == "st":
        return f"(st {rank[T[1]]})"
    if k == "en":
        return f"(en {rank[T[1]]})"
    raise ValueError(T)


def fmt_defs(defs, rank):
    out = []
    for d in defs:
        if d[0] == "struct":
            out.append("(" + " ".join(["struct", str(rank[d[1]])] +
                                      [f"({rank[f]} {fmt_ty(t, rank)})" for f, t in d[2]]) + ")")
        else:
            vs = []
            for v, p in d[2]:
                if p is None:
                    vs.append(f"(unit {rank[v]})")
                else:
                    vs.append("(" + " ".join(["tuple", str(rank[v])] + [fmt_ty(t, rank) for t in p]) + ")")
            out.append("(" + " ".join(["enum", str(rank[d[1]])] + vs) + ")")
    return "(" + " ".join(["defs"] + out) + ")"


def fmt_lit(l, rank):
    k = l[0]
    if k in ("true", "false"):
        return k
    if k in ("u", "s"):
        return f"({k} {l[1]} {l[2]})"
    if k == "rep":
        return f"(rep {fmt_lit(l[1], rank)} {l[2]})"
    if k in ("arr", "tup"):
        return "(" + " ".join([k] + [fmt_lit(e, rank) for e in l[1]]) + ")"
    if k == "st":
        return "(" + " ".join(["st", str(rank[l[1]])] + [f"({rank[f]} {fmt_lit(v, rank)})" for f, v in l[2]]) + ")"
    if k == "en":
        if l[3] is None:
            return f"(en {rank[l[1]]} {rank[l[2]]})"
        return f"(en {rank[l[1]]} {rank[l[2]]} (" + " ".join(fmt_lit(e, rank) for e in l[3]) + "))"
    if k == "range":
        return f"(range {l[1]} {l[2]} {l[3]})"
    raise ValueError(l)


def show(l, typed=False):
    """the text `Display for Literal` produces (repaired tree: one-element tuples as `(x,)`);
    typed=True adds the type suffix to numbers (also valid input)"""
    k = l[0]
    if k in ("true", "false"):
        return k
    if k in ("u", "s"):
        return f"{l[1]}{l[2] if typed and 'unspec' not in l[2] else ''}"
    if k == "rep":
        return f"[{show(l[1], typed)}; {l[2]}]"
    if k == "arr":
        return "[" + ", ".join(show(e, typed) for e in l[1]) + "]"
    if k == "tup":
        if len(l[1]) == 1:
            return f"({show(l[1][0], typed)},)"
        return "(" + ", ".join(show(e, typed) for e in l[1]) + ")"
    if k == "st":
        return f"{l[1]} {{" + ", ".join(f"{f}: {show(v, typed)}" for f, v in l[2]) + "}"
    if k == "en":
        if l[3] is None:
            return f"{l[1]}::{l[2]}"
        return f"{l[1]}::{l[2]}(" + ", ".join(show(e, typed) for e in l[3]) + ")"
    if k == "range":
        return f"{l[1]}{l[3]}..{l[2]}{l[3]}"
    raise ValueError(l)


TOKEN = re.compile(r"[A-Za-z_0-9]+|::|\.\.|\S")


def perturb_text(rng, text):
    toks = TOKEN.findall(text)
    if not toks:
        return rng.choice(["", "(", ")", ",", "5 6"]), "empty"
    m = rng.choice(["delete", "duplicate", "swap", "big-number", "trailing", "infix", "untyped-range",
                    "wrap-parens", "replace-token", "negative", "drop-suffix"])
    i = rng.randrange(len(toks))
    if m == "delete":
        toks.pop(i)
    elif m == "duplicate":
        toks.insert(i, toks[i])
    elif m == "swap" and len(toks) >= 2:
        j = min(i + 1, len(toks) - 1)
        toks[i], toks[j] = toks[j], toks[i]
    elif m == "big-number":
        nums = [j for j, t in enumerate(toks) if t[0].isdigit()]
        if nums:
            j = rng.choice(nums)
            toks[j] = rng.choice(["256", "65536", "4294967296", "18446744073709551615", "18446744073709551616",
                                  "128", "32768", "9223372036854775808", "300u8", "200i8", "1u16"])
    elif m == "trailing":
        toks.append(rng.choice(["6", ",", ")", "true", "..", "x"]))
    elif m == "infix":
        toks.insert(i + 1, rng.choice(["+ 1", "- 1", "as u8", "* 2", "== 1", "& 1"]))
    elif m == "untyped-range":
        a = rng.choice([0, 2, 250, 254, 65534, 4294967294])
        return f"{a}..{a + rng.choice([0, 1, 2, 3, 4, 5])}", m
    elif m == "wrap-parens":
        toks = ["("] * 3 + toks + [")"] * rng.choice([2, 3, 4])
    elif m == "replace-token":
        toks[i] = rng.choice(["true", "0", "(", ")", "[", "]", "{", "}", ",", ":", "::", ";", "..", "-", "zz", "S0", "E0"])
    elif m == "negative":
        nums = [j for j, t in enumerate(toks) if t[0].isdigit()]
        if nums:
            j = rng.choice(nums)
            toks[j] = "-" + toks[j]
    elif m == "drop-suffix":
        toks = [re.sub(r"^(\d+)[a-z]\w*$", r"\1", t) for t in toks]
    return " ".join(toks), m
