"""C06 — compilation is deterministic: same source and options, identical circuit."""
import re
from vlib import *
import progcheck as PC

SHAPES = [
    # struct patterns / literals with several refutable fields (compile.rs builds HashMaps of the fields)
    "struct S { a: u8, b: u8, c: bool, d: i8, e: u16 } pub fn main(s: S, x: u8) -> u8 { match s { S { a: 1u8, b: 2u8, c: true, d: 0i8, e: 7u16 } => x, S { a: 0u8..10u8, b: 3u8, c: false, .. } => 1u8, S { e: 9u16, d: 1i8..5i8, b: 0u8, .. } => 2u8, _ => 3u8 } }",
    "struct P { x: u8, y: u8, z: u8, w: u8 } pub fn main(p: P) -> u8 { let P { x, y, z, w } = p; let q: P = P { w: x + 1u8, z: y + 2u8, y: z + 3u8, x: w + 4u8 }; match q { P { x: 4u8, y: 3u8, z: 2u8, w: 1u8 } => 0u8, P { x: 0u8, y: 0u8, .. } => 1u8, _ => q.x + q.w } }",
    "enum E { A(u8, u8), B(u8), C } struct T { e: E, f: E, g: bool } pub fn main(t: T) -> u8 { match t { T { e: E::A(1u8, x), f: E::B(2u8), g: true } => x, T { e: E::C, f: E::A(a, 3u8), g: false } => a, T { g: true, e: E::B(b), .. } => b, _ => 0u8 } }",
    "pub fn main(a: u8, b: u8, c: u8, d: u8, e: bool, f: bool) -> u8 { let r: u8 = if e { (a+b)+(c*d)+(a-d) } else { (a-d)+(c*d)+(a+b) }; let s: u8 = if f { a+b } else { c*d }; r ^ s }",
    "pub fn main(a: u8, b: u8, c: u8, e: bool) -> u8 { let r: u8 = match e { true => (a+b)-(c/b), false => (c/b)*(a+b) }; let s: u8 = if e { c/b } else { a+b }; r | s }",
    "pub fn main(a: i8, b: i8, e: bool, f: bool) -> i8 { let mut r: i8 = 0i8; if e { r = a * b; r = r + a; } else { r = a + a; r = r * b; } if f { r = r - (a * b); } r }",
]


def run(ck):
    quick = ck.tier == "quick"
    ck.prepare("C06")
    if not (ck.harness_ok and ck.model_ok):
        return ck.finish(level="proof", trusted=COMMON_TRUSTED + ["tools/sites.py: syntactic recognition of HashMap / HashSet iteration sites in /repo/src (regenerated every build)", "order independence of the checker is proved for programs without calls only"])
    import scenarios, c14
    sources = [("shape%d" % i, s) for i, s in enumerate(SHAPES)] + scenarios.all_sources() + list(c14.SCENARIOS)
    corp = [c for c in PC.corpus_sources()
            if not any(x in c[0] for x in ("computational_model", "credit_scoring", "docs_computational")) and len(c[1]) < 1500
            and "500" not in c[1] and "1000" not in c[1]]
    ck.rng.shuffle(corp)
    sources += corp[:25 if quick else 400]
    sources += PC.generated_sources(ck, 60 if quick else 3000, style="panic")
    sources += PC.generated_sources(ck, 60 if quick else 3000, style="mutation")
    n = 4 if quick else 24
    jobs = [f"(compile-hash h{i} (src {quote(s)}) (n {n}))" for i, (_, s) in enumerate(sources)]
    # several fresh processes (fresh per-process hash seeds); each compiles every program n times
    nproc = 3 if quick else 8
    results = []
    for p in range(nproc):
        results.append(run_jobs(GVRUN, jobs, f"c06.p{p}", shards=NCPU, timeout_per_job=3.0))
    compared = 0
    nondet = 0
    for i, (name, src) in enumerate(sources):
        fps = {}
        for p in range(nproc):
            r = results[p].get(f"h{i}", "")
            for cfg in re.findall(r"\((dedup|nodedup) ([^)]*)\)", r):
                fps.setdefault(cfg[0], set()).update(cfg[1].split())
        for cfg, s in fps.items():
            if s <= {"err"}:
                continue
            compared += 1
            if len(s) > 1:
                nondet += 1
                ck.violation(f"the same source compiles to {len(s)} different circuits ({cfg}) across {nproc} processes x {n} compilations",
                             {"program": src, "config": cfg, "fingerprints": sorted(s)})
    # the model of the lowering is a function (C06_lowering_is_a_function); tied to compile.rs it pins the one circuit
    import lowertie
    lowertie.tie_pass(ck, sources, max_programs=120 if quick else 2500)
    ck.coverage.update({
        "evaluations": len(sources) * n * nproc * 2, "distinct_nontrivial": compared,
        "rule": "every program (order-dependence shapes: panic conditions shared by both branches of a conditional and "
                "reused later; corpus; generated panic-heavy programs) is compiled n times in each of several fresh "
                "processes (every HashMap::new() draws a fresh hash seed) with dedup on and off; the fingerprint of "
                "(input_gates, gates, output_gates) must be unique per program and configuration",
        "nondeterministic_programs": nondet,
        "explanation": "C06 is decided by repeated compilation under fresh hash seeds; the model side: the panic-record "
                       "merge of the repaired code iterates no hash map while emitting gates (Panic/, C02) and the "
                       "builder/allocator models are functions (no iteration order enters).",
    })
    ck.samples = [s for _, s in sources[:3]]
    return ck.finish(level="proof", trusted=COMMON_TRUSTED + ["tools/sites.py: syntactic recognition of HashMap / HashSet iteration sites in /repo/src (regenerated every build)", "order independence of the checker is proved for programs without calls only"])
