"""C01 — the compiled circuit returns exactly the value the source program denotes."""
import re
from vlib import *
import progcheck as PC

KINDS = ("wrong-value", "spurious-panic", "eval-crash", "config-failed", "other")


# a multiplication with a negative integer literal as one factor (`-2 * x`, `x * -16`, `x * (-3i8)`)
NEG_LITERAL_FACTOR = re.compile(r"-\s*\d+\w*\s*\)?\s*\*|\*\s*\(?\s*-\s*\d+")


def known_key(rec, kind, m, r):
    """the recorded, unrepaired defect of the constant-multiplication rewrite (known_findings.json, also listed under
    C03): x * c for a small negative literal c is compiled as -(x + ... + x), which reports Overflow when the
    intermediate sum is 2^(n-1) although the product MIN is representable. Identified by: the specification returns a
    value, the circuit an Overflow panic, and the source multiplies by a negative literal."""
    if kind == "spurious-panic" and m.startswith("(ok") and r.startswith("(panic Overflow") \
            and NEG_LITERAL_FACTOR.search(rec.get("src", "")):
        return "const-mul-rewrite-intermediate-overflow"
    # the recorded defect of the checker (C05: an unsuffixed literal bound by let / for / a pattern keeps 32 wires, the
    # identifier is re-typed at a later use): the typed tree fails the reference rules Wt.v AND the model of the
    # unchanged checker (Check/Infer.v) returns the same typed tree - a NEW width divergence differs from the model
    if rec.get("wt") is False and rec.get("checker_tie") == "accepted: same typed program":
        import c05
        if c05.UNSUFFIXED.search(re.sub(r"//[^\n]*", "", rec.get("src", ""))):
            return "c01-literal-width-divergence"
    return None


def run_prog_property(ck, pid, prop_file, kinds, n_gen_quick, n_gen_thorough, styles, what, note, known_key_fn=known_key,
                      ninputs_quick=10, extra_sources=None):
    quick = ck.tier == "quick"
    ck.prepare(prop_file)
    if not (ck.harness_ok and ck.model_ok):
        return ck.finish(level="proof", trusted=COMMON_TRUSTED)
    sources = PC.corpus_sources()
    if quick:
        # the two 500-iteration documentation programs take the extracted models minutes (quick tier only; thorough keeps them)
        sources = [x for x in sources if "500" not in x[1]]
        ck.rng.shuffle(sources)
        sources = sources[:60]
    n = n_gen_quick if quick else n_gen_thorough
    for st in styles:
        sources += PC.generated_sources(ck, n // len(styles), style=st)
    import scenarios
    extra = scenarios.all_sources() + (extra_sources(ck) if extra_sources else [])
    if pid == "C01":
        sources += PC.generated_sources(ck, n // 3, style="mutation") + PC.generated_sources(ck, n // 3, style="bitsoup")
        # programs whose number literals carry NO suffix (the checker infers them): every operator with an unsuffixed literal
        # operand on every integer type, both positions (round-10 seed C01-r10: a fast path keyed on the literal's own
        # variant instead of the operation's type), and generated programs with their suffixes / annotations stripped
        import c05
        lits = c05.literal_operand_programs()
        for t in ["i8", "i16", "i32", "i64", "u8", "u16", "u32", "u64", "usize"]:
            for op in ["%", "/", "*", "&", "|", "^"]:
                for lit in ["4", "8", "16", "64"]:
                    lits.append(f"pub fn main(x: {t}) -> {t} {{ x {op} {lit} }}")
                    lits.append(f"pub fn main(x: {t}, y: {t}) -> {t} {{ (x {op} {lit}) ^ ({lit} {op} (y | 1)) }}")
            lits.append(f"pub fn main(a: [{t}; 3]) -> {t} {{ let mut s = 0; for e in a {{ s = s ^ (e % 8); }} s }}")
        if quick:
            lits = ck.rng.sample(lits, 260)
        sources += [("lit%d" % i, s) for i, s in enumerate(lits)]
        sources += [(nm + "-inferred", c05.strip_annotations(ck.rng, s)) for nm, s in PC.generated_sources(ck, n // 4)]
    sources = extra + sources
    recs = PC.run_programs(ck, sources, pid.lower(), ninputs=ninputs_quick if quick else 24)
    if extra:
        bad = [rec["name"] + ": " + rec["rust_raw"][:80] for rec in recs[:len(extra)] if rec["status"] != "compiled"]
        ck.obligation(f"all {len(extra)} hand-written scenario programs are accepted by the real compiler and evaluated",
                      not bad, "; ".join(bad[:3]))
    import lowertie
    lowertie.tie_pass(ck, sources, max_programs=160 if quick else 3000)
    issues, stats = PC.compare(recs)
    # the one sampled step (TSem = Sem.v) on many more inputs for a subset: scenario programs + some generated ones
    deep_src = [x for x in sources if len(x[1]) < 1200][:: max(1, len(sources) // (30 if quick else 300))][:30 if quick else 300]
    deep = PC.run_programs(ck, deep_src, pid.lower() + ".deep", ninputs=120 if quick else 400)
    dissues, dstats = PC.compare(deep)
    issues += dissues
    stats["deep_programs"] = dstats["compiled"]
    stats["deep_evaluations"] = dstats["evaluations"]
    stats["evaluations"] += dstats["evaluations"]
    for key in ("tsem_compared", "tsem_outside", "outside_model", "model_ok", "model_panic"):
        stats[key] = stats.get(key, 0) + dstats.get(key, 0)
    # programs whose typed tree the reference rules reject: ask the checker-model tie about them (see known_key)
    illtyped = {}
    for rec, *_ in issues:
        if rec.get("wt") is False:
            illtyped[rec["name"]] = rec
    if illtyped:
        import checktie
        checktie.check_tie_pass(ck, [(n, r["src"]) for n, r in illtyped.items()], pid.lower() + ".wt")
        tv = getattr(ck, "checker_tie_verdicts", {}) or {}
        for n, r in illtyped.items():
            r["checker_tie"] = tv.get(n)
    nviol = 0
    other_kinds = {}
    for rec, cfg, k, kind, m, r in issues:
        if kind == "tsem-mismatch":
            # the bit-level semantics (Compile/TSem.v) is what the circuits are PROVED to compute (LowerSim.v) as long
            # as Lower.v is the code; a concrete input on which the real circuit differs from it
            ck.violation("the real circuit differs from the bit-level semantics Compile/TSem.v (the function the model "
                         "of the lowering provably computes)",
                         {"program": rec["src"], "config": cfg, "inputs_per_param": rec["inss"][k],
                          "tsem_result": m, "circuit_result": r}, key=known_key_fn(rec, "spurious-panic", "(ok", r) if known_key_fn else None)
            continue
        if kind not in kinds:
            other_kinds[kind] = other_kinds.get(kind, 0) + 1
            continue
        key = known_key_fn(rec, kind, m, r) if known_key_fn else None
        nviol += 1
        ck.violation(f"{what}: {kind} ({cfg})",
                     {"program": rec["src"], "config": cfg, "inputs_per_param": rec["inss"][k] if k >= 0 else None,
                      "specification_result(Sem.v)": m, "circuit_result": r, "kind": kind}, key=key)
    # configurations must agree among themselves (SSA / register, dedup on / off)
    for rec in recs:
        if rec["status"] != "compiled":
            continue
        runs = list(rec["runs"].items())
        for cfg, res in runs[1:]:
            if res != runs[0][1] and "compile-failed" not in res and pid == "C01":
                k = next((i for i, (a, b) in enumerate(zip(res, runs[0][1])) if a != b), -1)
                ck.violation(f"configurations disagree: {cfg} vs {runs[0][0]}",
                             {"program": rec["src"], "inputs_per_param": rec["inss"][k] if k >= 0 else None,
                              cfg: res[k] if k >= 0 else res, runs[0][0]: runs[0][1][k] if k >= 0 else runs[0][1]})
    crashes = [rec for rec in recs if rec["status"] == "crash"]
    if crashes:
        # the recorded checker defect also shows as a compiler panic (branches of different widths): recognised as for
        # wrong values - typed tree fails Wt.v and the model of the unchanged checker agrees (or, outside that model, the
        # program binds an unsuffixed literal)
        import checktie, c05
        checktie.check_tie_pass(ck, [(r["name"], r["src"]) for r in crashes], pid.lower() + ".crash")
        tv = getattr(ck, "checker_tie_verdicts", {}) or {}
        for r in crashes:
            r["checker_tie"] = tv.get(r["name"])
    for rec in crashes[:3]:
        key = None
        if rec.get("wt") is False and c05.UNSUFFIXED.search(re.sub(r"//[^\n]*", "", rec["src"])):
            t = rec.get("checker_tie")
            if t == "accepted: same typed program" or (t in (None, "outside-model", "model-out-of-fuel", "model-job-failed")
                                                        and c05.binds_unsuffixed(rec["src"])):
                key = "c01-literal-width-divergence"
        ck.violation("the compiler panics / hangs on a generated program", {"program": rec["src"], "rust": rec["rust_raw"]}, key=key)
    accepted = stats["compiled"] / max(1, stats["programs"])
    ck.obligation("generator health: at least 80% of the generated programs are accepted by the real checker",
                  accepted >= 0.8, f"accepted fraction {accepted:.2f}")
    ck.obligation("bit-level semantics Compile/TSem.v covers the generated programs (at most 2% of evaluations outside it)",
                  stats.get("tsem_outside", 0) <= 0.02 * max(1, stats.get("tsem_compared", 0)),
                  f"{stats.get('tsem_outside', 0)} of {stats.get('tsem_compared', 0)}")
    ck.obligation("specification interpreter covers the generated programs (at most 2% of evaluations outside the model)",
                  stats["outside_model"] <= 0.02 * max(1, stats["evaluations"]),
                  f"{stats['outside_model']} of {stats['evaluations']}")
    ck.coverage.update({
        "evaluations": stats["evaluations"], "distinct_nontrivial": stats["compiled"],
        "programs": stats["compiled"], "disagreements_checked": len(issues),
        "rule": "corpus programs (tests, docs, examples) and type-directed generated programs (all operators, casts, "
                "if/else, match, blocks, let/let mut, op-assignment through nested accessors, for loops, calls, "
                "arrays/ranges/tuples/structs/enums; sub-expressions reused on purpose); each compiled by the real "
                "compiler in 4 configurations (SSA/register x dedup on/off) and evaluated on boundary-directed and "
                "random inputs; the expected outcome is computed by the extracted Coq interpreter Lang/Sem.v on the "
                "typed AST exported from the real checker; non-trivial = accepted and evaluated program",
        "stats": stats, "issue_kinds_not_owned_by_this_property": other_kinds,
        "explanation": note,
    })
    ck.samples = [s for _, s in sources[-3:]]
    return ck.finish(level="proof", trusted=COMMON_TRUSTED + [
        "typed-AST exporter in harness/src/prog.rs (types resolved to sizes, names interned; rank-ordered for the lowering tie) "
        "and the OCaml AST reader ocaml/jprog.ml",
        "Lang/Sem.v is the specification (read it: it is the meaning of 'source semantics'); Compile/TSem.v is the bit-level "
        "semantics the circuits are proved to compute",
        "modelled, tied structurally: src/compile.rs (statements, expressions, patterns, joins, wiring), src/env.rs, mux_envs"],
        extra_assumptions=["the step TSem = Sem.v is differential (sampled programs and inputs), not a theorem; everything "
                           "from TSem to the evaluated circuit is a theorem about Compile/Lower.v, which is tied to the real "
                           "compiler by structural equality of circuits on the programs run"])


def bits(v, n):
    return format(v & ((1 << n) - 1), "0%db" % n)


# Source-level expectations written by hand from the Rust-like semantics of the SOURCE TEXT (not computed from the parsed
# tree): they guard the parser's desugarings, which the AST-level oracles (Sem.v, TSem) cannot see.  Every program ignores
# its input, so the expected output is one bit string.
GOLDEN = [
    # fix 64720dd: nested unsuffixed literals take the constrained type (values, not only widths)
    ("golden-nested-literals-typed", "pub fn main(z: u8) -> (u8, u8, i16) { let k = 5u8; let y = 1 + 2 + k; let s = 200u8 >> (1 + (if k == 5u8 { 1 } else { 2 })); (y, s, (1 + 2) * 3 + 10i16) }",
     bits(8, 8) + bits(50, 8) + bits(19, 16), None),
    # fix 7bf4e4f: an unsuffixed range used at a typed array has elements of that type
    ("golden-unsuffixed-range-typed", "pub fn main(z: u8) -> ([u8; 3], u16) { let a: [u8; 3] = 2..5; let b: [u16; 2] = 300..302; (a, b[1usize]) }",
     bits(2, 8) + bits(3, 8) + bits(4, 8) + bits(301, 16), None),
    ("golden-le-operand-once", "pub fn main(z: u8) -> (bool, u8) { let mut c = 3u8; let r = ({ c = c + 1u8; c }) <= 5u8; (r, c) }",
     "1" + bits(4, 8), None),
    ("golden-ge-operand-once", "pub fn main(z: u8) -> (bool, u8) { let mut c = 3u8; let r = 4u8 >= ({ c = c + 1u8; c }); (r, c) }",
     "1" + bits(4, 8), None),
    ("golden-le-no-double-failure", "pub fn main(z: u8) -> (bool, u8) { let mut c = 254u8; let r = ({ c = c + 1u8; c }) <= 5u8; (r, c) }",
     "0" + bits(255, 8), None),
    ("golden-le-ge-values", "pub fn main(z: u8) -> (bool, bool, bool, bool, bool, bool) { (3u8 <= 3u8, 3u8 <= 2u8, 2i8 >= -1i8, -5i8 >= -4i8, 255u8 >= 255u8, -128i8 <= 127i8) }",
     "101011", None),
    ("golden-op-assign-index-once", "pub fn main(z: u8) -> ([u8; 3], usize) { let mut a = [1u8, 2u8, 3u8]; let mut i = 0usize; a[{ i = i + 1usize; i }] += 10u8; (a, i) }",
     bits(1, 8) + bits(12, 8) + bits(3, 8) + bits(1, 32), "op-assign-index-evaluated-twice"),
    ("golden-op-assign-plain", "pub fn main(z: u8) -> (u8, [u8; 2]) { let mut x = 5u8; x += 3u8; x <<= 1u8; let mut a = [1u8, 2u8]; a[1usize] *= 7u8; (x, a) }",
     bits(16, 8) + bits(1, 8) + bits(14, 8), None),
    ("golden-op-assign-rhs-first", "pub fn main(z: u8) -> u8 { let mut a = 3u8; a += ({ a = 5u8; 1u8 }); a }",
     bits(6, 8), "op-assign-index-evaluated-twice"),
    ("golden-struct-literal-source-order", "struct S { a: u8, b: u8 }\npub fn main(z: u8) -> (u8, u8, u8) { let mut c = 1u8; let s = S { b: ({ c = c + 1u8; c }), a: ({ c = c * 2u8; c }) }; (s.b, s.a, c) }",
     bits(2, 8) + bits(4, 8) + bits(4, 8), "struct-literal-fields-evaluated-in-name-order"),
    ("golden-mul-literal-operand-once", "pub fn main(z: u8) -> (u8, u8, i8, i8) { let mut a = 0u8; let r = ({ a = a + 1u8; a }) * 3u8; let mut b = 0i8; let q = -2i8 * ({ b = b + 1i8; b }); (r, a, q, b) }",
     bits(3, 8) + bits(1, 8) + bits(-2, 8) + bits(1, 8), None),
    ("golden-join-iter-over-join-result", "pub fn main(z: u8) -> u8 { let a = [1u8, 2u8]; let b = [2u8]; let c = [(false, 7u8), (true, 9u8)]; let mut r = 0u8; let j = join(a, b); for ((f, x), (_, y)) in join_iter(j, c) { r = r + x + y; } r }",
     bits(18, 8), None),
    ("golden-if-condition-effects-kept", "pub fn main(z: u8) -> (u8, u8) { let mut n = 5u8; let r = if { n = n + 1u8; n > 5u8 } { n + 10u8 } else { n + 20u8 }; (r, n) }",
     bits(16, 8) + bits(6, 8), None),
    ("golden-else-if-then-operator", "pub fn main(z: u8) -> (u8, u8, u8) { let a = z == z; let b = z != z; let r = if a { 1u8 } else if b { 2u8 } else { 3u8 } + 10u8; let s = if b { 1u8 } else if a { 2u8 } else { 3u8 } + 10u8; let t = 1u8 + if b { 1u8 } else if b { 2u8 } else { 3u8 } * 3u8; (r, s, t) }",
     bits(11, 8) + bits(12, 8) + bits(10, 8), None),
    ("golden-usize-max-literal", "pub fn main(z: u8) -> (bool, usize) { let m = 4294967295usize; (m > 4294967294usize, m) }",
     "1" + bits(4294967295, 32), None),
    ("golden-index-starts-with-number", "pub fn main(z: u8) -> (u8, u8, u8) { let a = [10u8, 20u8, 30u8, 40u8]; let i = (z ^ z) as usize; (a[1 + i], a[i + 2], a[3]) }",
     bits(20, 8) + bits(30, 8) + bits(40, 8), None),
    ("golden-assign-zero-sized", "pub fn main(z: u8) -> u8 { let mut a = [(); 3]; a[1usize] = (); 7u8 }",
     bits(7, 8), None),
    ("golden-short-circuit", "pub fn main(z: u8) -> (bool, u8, bool, u8) { let mut x = 1u8; let r = false && ({ x = 9u8; true }); let mut y = 1u8; let s = true || ({ y = 9u8; false }); (r, x, s, y) }",
     "0" + bits(1, 8) + "1" + bits(1, 8), None),
    ("golden-assign-order", "pub fn main(z: u8) -> [u8; 3] { let mut a = [1u8, 2u8, 3u8]; a[{ a[1usize] = 7u8; 0usize }] = { a[2usize] = 9u8; 5u8 }; a }",
     bits(5, 8) + bits(7, 8) + bits(9, 8), None),
    ("golden-loop-zero-sized", "enum U { Only }\npub fn main(z: u8) -> u8 { let u = [U::Only, U::Only, U::Only]; let mut c = 0u8; for e in u { c = c + 1u8; } c }",
     bits(3, 8), None),
]


def golden_pass(ck):
    recs = PC.run_programs(ck, [(n, s) for n, s, _, _ in GOLDEN], "c01.gold", ninputs=3)
    bad = 0
    for rec, (name, src, expect, known) in zip(recs, GOLDEN):
        if rec["status"] != "compiled":
            bad += 1
            ck.violation("a golden source-level program is not accepted / compiled", {"program": src, "rust": rec["rust_raw"][:200]})
            continue
        want = '(ok "%s")' % expect
        for cfg, results in rec["runs"].items():
            wrong = [r for r in results if r != want]
            if wrong:
                bad += 1
                ck.violation(f"the compiled circuit ({cfg}) differs from the Rust-like semantics of the source text (hand-written expectation)",
                             {"program": src, "expected": want, "circuit_result": wrong[0], "config": cfg}, key=known)
                break
    ck.coverage["golden_source_level_programs"] = {"programs": len(GOLDEN), "not_as_expected": bad}


def precedence_pass(ck):
    """the parser against Rust's precedence / associativity: see tools/gen_prec.py"""
    import gen_prec as GP
    quick = ck.tier == "quick"
    rng = ck.rng
    progs = [GP.program(rng, rng.choice([2, 3, 3, 4])) for _ in range(160 if quick else 4000)]
    progs += [GP.program_stmts(rng) for _ in range(120 if quick else 3000)]
    nin = 8 if quick else 16
    jobs, envs = [], []
    for i, (e, t, src) in enumerate(progs):
        ins = GP.inputs(rng, nin)
        envs.append(ins)
        given = " ".join("(" + " ".join('"%s"' % GP.bits_of(env[v], vt) for v, vt in GP.VARS) + ")" for env in ins)
        jobs.append(f"(program p{i} (src {quote(src)}) (given {given}))")
    rs = run_jobs(GVRUN, jobs, "c01.prec", timeout_per_job=3.0)
    bad, rejected, compared, panics = 0, 0, 0, 0
    for i, (e, t, src) in enumerate(progs):
        r = rs.get(f"p{i}", "(no-result)")
        if not r.startswith("(compile ok)"):
            rejected += 1
            if rejected <= 3 and "(err" in r:
                # the generator only emits text that is valid Rust and well typed: a rejection is a parser defect too
                ck.violation("an expression that is valid Rust with minimal parentheses is rejected",
                             {"program": src, "rust": r[:200]}, key="parser-rejects-valid-grouping")
            continue
        forms = PC.split_top(r)
        runs = PC.field(forms, "runs")
        cfgs = {}
        for cfg in PC.split_top(runs[len("(runs "):-1]):
            name_end = cfg.index(" ") if " " in cfg else len(cfg) - 1
            cfgs[cfg[1:name_end]] = PC.split_top(cfg[name_end + 1:-1]) if " " in cfg else []
        got = cfgs.get("ssa-dedup", [])
        for k, env in enumerate(envs[i]):
            if k >= len(got):
                break
            try:
                v = GP.result_bits(e, t, env)
                want = None if v is None else '(ok "%s")' % v
            except GP.Panic as ex:
                want = "(panic " + str(ex)
                panics += 1
            except GP.Unspecified:
                want = None
            compared += 1
            g = got[k]
            ok = want is None or (g == want if want.startswith("(ok") else g.startswith(want))
            if not ok:
                bad += 1
                if bad <= 3:
                    ck.violation("the compiled circuit disagrees with the expression tree that Rust's precedence and "
                                 "associativity give the source text (parser grouping)",
                                 {"program": src, "inputs": {kk: (int(vv) if not isinstance(vv, bool) else vv) for kk, vv in env.items()},
                                  "tree_value": want, "circuit_result": g})
                break
    ck.obligation("parser oracle: generated expression trees printed with minimal parentheses compile to circuits that "
                  "return the trees' values (Rust precedence, associativity, `as`, unary operators, if / else-if chains "
                  "and match as operands; statement programs: assignments and the ten compound assignments through index / "
                  "tuple accessor chains, if-statements and blocks as statements)", bad == 0 and compared > 0, f"{bad} programs differ; {compared} evaluations")
    ck.obligation("parser oracle: at least 90% of the generated texts are accepted", rejected <= 0.1 * len(progs),
                  f"{rejected} of {len(progs)} rejected")
    ck.coverage["parser_precedence_oracle"] = {"programs": len(progs), "rejected": rejected, "evaluations": compared,
                                               "evaluations_that_panic": panics}


def run(ck):
    fin = ck.finish

    def finish(**kw):
        if ck.harness_ok and ck.model_ok:
            golden_pass(ck)
            precedence_pass(ck)
        return fin(**kw)
    ck.finish = finish
    return run_prog_property(
        ck, "C01", "C01", KINDS, 240, 6000, ["mixed"],
        "compiled circuit differs from the source semantics",
        "C01: theorem C01_all_configurations (the circuits the model of compile.rs emits compute the bit-level semantics "
        "TSem for all inputs, SSA/register x dedup on/off) + structural tie model = real compiler (coverage.lowering_tie) + "
        "differential TSem / Sem.v / real circuits on sampled inputs (the one step that is not a theorem).")
