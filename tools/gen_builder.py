"""Request sequences for the circuit builder (C04, C15) and their literal evaluation."""
import itertools

ARITY = {"xor": 2, "and": 2, "not": 1, "or": 2, "eq": 2, "mux": 3, "adder": 3}
NRES = {"adder": 2}


def fmt_job(jid, dedup, inputs, reqs, outs, truth=True):
    rs = " ".join("(%s %s)" % (k, " ".join(map(str, ops))) for k, ops in reqs)
    return "(builder %s (dedup %d) (inputs %s) (reqs %s) (outs %s)%s)" % (
        jid, 1 if dedup else 0, " ".join(map(str, inputs)), rs, " ".join(map(str, outs)),
        " (truth 1)" if truth else "")


def random_seq(rng, n_inputs, length, kinds=None):
    """Operands: 50% among the last 8 handles, 20% constants, 30% uniform (inputs+handles);
    shapes that trigger the rewrites are produced on purpose."""
    kinds = kinds or ["xor", "xor", "xor", "and", "and", "and", "not", "or", "eq", "mux", "adder"]
    reqs = []
    nh = 0
    inputs = list(range(2, 2 + n_inputs))

    def operand():
        r = rng.random()
        if nh and r < 0.5:
            return "h%d" % rng.randint(max(0, nh - 8), nh - 1)
        if r < 0.62:
            return rng.choice([0, 1])
        pool = inputs + ["h%d" % i for i in range(nh)]
        return rng.choice(pool)

    while len(reqs) < length:
        r = rng.random()
        if r < 0.25 and nh >= 1:
            # rewrite shapes
            shape = rng.choice(["xor_of_operand", "and_and_share", "neg_pair", "distribute", "same_twice"])
            a, b, c = operand(), operand(), operand()
            if shape == "xor_of_operand":
                reqs.append(("xor", [a, b])); nh += 1
                reqs.append((rng.choice(["xor", "and"]), rng.sample([a, "h%d" % (nh - 1)], 2))); nh += 1
            elif shape == "and_and_share":
                reqs.append(("and", [a, b])); nh += 1
                reqs.append(("and", rng.sample([a, c], 2))); nh += 1
                reqs.append((rng.choice(["xor", "and"]), rng.sample(["h%d" % (nh - 2), "h%d" % (nh - 1)], 2))); nh += 1
            elif shape == "neg_pair":
                reqs.append(("not", [a])); nh += 1
                reqs.append((rng.choice(["xor", "and"]), rng.sample([a, "h%d" % (nh - 1)], 2))); nh += 1
                reqs.append((rng.choice(["xor", "and"]), rng.sample([b, "h%d" % (nh - 2)], 2))); nh += 1
            elif shape == "distribute":
                reqs.append(("and", [a, c])); nh += 1
                reqs.append(("and", [b, c])); nh += 1
                reqs.append(("xor", [a, b])); nh += 1
                reqs.append(("and", rng.sample(["h%d" % (nh - 1), c], 2))); nh += 1
            else:
                k = rng.choice(["xor", "and"])
                reqs.append((k, [a, b])); nh += 1
                reqs.append((k, [b, a])); nh += 1
        else:
            k = rng.choice(kinds)
            reqs.append((k, [operand() for _ in range(ARITY[k])]))
            nh += NRES.get(k, 1)
    return reqs, nh


def literal_eval(n_inputs, reqs):
    """Executes the requests literally (no simplification), bit-parallel over all 2^n input
    assignments. Assignment k gives input i the bit (k >> (n-1-i)) & 1. Returns handle
    truth tables (ints) and a function wire -> table."""
    n = n_inputs
    size = 1 << n
    mask = (1 << size) - 1
    tabs = {0: 0, 1: mask}
    for i in range(n):
        t = 0
        for k in range(size):
            if (k >> (n - 1 - i)) & 1:
                t |= 1 << k
        tabs[2 + i] = t
    hs = []

    def val(o):
        if isinstance(o, str):
            return hs[int(o[1:])]
        return tabs[o]

    for k, ops in reqs:
        v = [val(o) for o in ops]
        if k == "xor": hs.append(v[0] ^ v[1])
        elif k == "and": hs.append(v[0] & v[1])
        elif k == "not": hs.append(v[0] ^ mask)
        elif k == "or": hs.append(v[0] | v[1])
        elif k == "eq": hs.append((v[0] ^ v[1]) ^ mask)
        elif k == "mux": hs.append((v[0] & v[1]) | ((v[0] ^ mask) & v[2]))
        elif k == "adder":
            hs.append(v[0] ^ v[1] ^ v[2])
            hs.append((v[0] & v[1]) | (v[2] & (v[0] ^ v[1])))
    return hs, val, size


def table_to_string(t, size):
    return "".join("1" if (t >> k) & 1 else "0" for k in range(size))


def exhaustive(n_inputs, length, kinds=("xor", "and")):
    """All request sequences of exactly `length` requests of the given binary kinds over the
    constants, the inputs and earlier handles."""
    def rec(prefix, nh):
        if len(prefix) == length:
            yield list(prefix)
            return
        pool = [0, 1] + list(range(2, 2 + n_inputs)) + ["h%d" % i for i in range(nh)]
        for k in kinds:
            for a in pool:
                for b in pool:
                    prefix.append((k, [a, b]))
                    yield from rec(prefix, nh + 1)
                    prefix.pop()
    yield from rec([], 0)
