"""C02 — panic iff the source semantics fail; first failure wins; untaken code is silent."""
from vlib import *
import c01

KINDS = ("missed-panic", "wrong-panic", "spurious-panic")


def run(ck):
    import c02rec
    fin = ck.finish

    def finish(**kw):
        c02rec.panicrec_pass(ck, ck.tier == "quick")   # record layer: obligations, violations, coverage["panicrec"]
        kw["trusted"] = (kw.get("trusted") or []) + c02rec.TRUSTED
        kw["level"] = "proof"
        return fin(**kw)
    ck.finish = finish
    return c01.run_prog_property(
        ck, "C02", "C02", KINDS, 300, 8000, ["mixed", "panic"],
        "panic behaviour differs from the source semantics",
        "Program level: the decoded panic (reason + location) of the real circuits against the first failing "
        "operation found by the Coq interpreter Lang/Sem.v, on programs with many potentially failing sites "
        "(sequential, repeated sub-expressions, constant-foldable, inside branches / arms / loops / calls). "
        "The panic-record algebra (first failure wins, mux selects, reason always valid) is proved in Panic/.")
