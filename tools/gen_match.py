"""Generator for C08: programs consisting of type definitions and
`pub fn main(x: T) -> (u8, u8) { match x { arms } }`, together with the structured form of
the same match (types, patterns, values as S-expressions) that the model runner reads.

Python representation
  types    ("bool",) | ("int", name) | ("tup", [t]) | ("st", S) | ("en", E)
  patterns ("var", x) | ("b", 0|1) | ("num", kind, z, sfx) | ("rng", kind, lo, hi, sfx, excl)
           | ("tup", [p]) | ("st", S, rest, [(f, p)]) | ("eu", E, V) | ("et", E, V, [p])
           kind = "u" (UnsignedNum token) | "s" (SignedNum token)
  values   ("b", 0|1) | ("n", name, z) | ("tup", [v]) | ("st", S, [(f, v)]) | ("eu", E, V) | ("et", E, V, [v])
"""

INTS = {
    "u8": (0, 2**8 - 1), "u16": (0, 2**16 - 1), "u32": (0, 2**32 - 1), "u64": (0, 2**64 - 1),
    "usize": (0, 2**32 - 1),
    "i8": (-2**7, 2**7 - 1), "i16": (-2**15, 2**15 - 1), "i32": (-2**31, 2**31 - 1),
    "i64": (-2**63, 2**63 - 1),
}
U64MAX = 2**64 - 1
I64MIN, I64MAX = -2**63, 2**63 - 1


def is_signed(name):
    return name.startswith("i")


class Defs:
    def __init__(self):
        self.structs = {}   # S -> [(f, t)] sorted by field name (as the parser stores them)
        self.enums = {}     # E -> [(V, None | [t])]
        self.order = []     # declaration order of definitions

    def sx(self):
        out = []
        for n in self.order:
            if n in self.structs:
                out.append("(struct %s %s)" % (n, " ".join("(%s %s)" % (f, ty_sx(t)) for f, t in self.structs[n])))
            else:
                out.append("(enum %s %s)" % (n, " ".join(
                    "(%s)" % v if ts is None else "(%s %s)" % (v, " ".join(ty_sx(t) for t in ts))
                    for v, ts in self.enums[n])))
        return "(defs" + "".join(" " + o for o in out) + ")"

    def src(self, rng):
        out = []
        for n in self.order:
            if n in self.structs:
                fs = list(self.structs[n])
                rng.shuffle(fs)          # declaration order is irrelevant: the parser sorts
                out.append("struct %s { %s }" % (n, ", ".join("%s: %s" % (f, ty_src(t)) for f, t in fs)))
            else:
                out.append("enum %s { %s }" % (n, ", ".join(
                    v if ts is None else "%s(%s)" % (v, ", ".join(ty_src(t) for t in ts))
                    for v, ts in self.enums[n])))
        return "\n".join(out)


def ty_sx(t):
    k = t[0]
    if k == "bool": return "bool"
    if k == "int": return t[1]
    if k == "tup": return "(tup %s)" % " ".join(ty_sx(x) for x in t[1])
    if k == "st": return "(st %s)" % t[1]
    return "(en %s)" % t[1]


def ty_src(t):
    k = t[0]
    if k == "bool": return "bool"
    if k == "int": return t[1]
    if k == "tup": return "(%s)" % ", ".join(ty_src(x) for x in t[1])
    return t[1]


def pat_sx(p):
    k = p[0]
    if k == "var": return "(var %s)" % p[1]
    if k == "b": return "(b %d)" % p[1]
    if k == "num": return "(n%s %d)" % (p[1], p[2])
    if k == "rng": return "(r%s %d %d)" % (p[1], p[2], p[3])
    if k == "tup": return "(tup %s)" % " ".join(pat_sx(x) for x in p[1])
    if k == "st":
        fs = sorted(p[3], key=lambda fp: fp[0])   # stable: the parser sorts by field name
        return "(st %s %d%s)" % (p[1], 1 if p[2] else 0, "".join(" (%s %s)" % (f, pat_sx(x)) for f, x in fs))
    if k == "eu": return "(eu %s %s)" % (p[1], p[2])
    if k == "et": return "(et %s %s%s)" % (p[1], p[2], "".join(" " + pat_sx(x) for x in p[3]))
    raise ValueError(p)


def num_src(z, sfx):
    return "%d%s" % (z, sfx)


def pat_src(p, rng=None):
    k = p[0]
    if k == "var": return p[1]
    if k == "b": return "true" if p[1] else "false"
    if k == "num": return num_src(p[2], p[3])
    if k == "rng":
        _, kind, lo, hi, sfx, excl = p
        if excl:
            return "%s..%s" % (num_src(lo, sfx), num_src(hi + 1, sfx))
        return "%s..=%s" % (num_src(lo, sfx), num_src(hi, sfx))
    if k == "tup": return "(%s)" % ", ".join(pat_src(x, rng) for x in p[1])
    if k == "st":
        fs = list(p[3])
        if rng is not None and len(set(f for f, _ in fs)) == len(fs):
            rng.shuffle(fs)      # (a field named twice keeps its order: the parser's sort is stable)
        parts = []
        for f, x in fs:
            if x == ("var", f):
                parts.append(f)                       # shorthand `S { a }`
            else:
                parts.append("%s: %s" % (f, pat_src(x, rng)))
        if p[2]:
            parts.append("..")
        return "%s { %s }" % (p[1], ", ".join(parts))
    if k == "eu": return "%s::%s" % (p[1], p[2])
    if k == "et": return "%s::%s(%s)" % (p[1], p[2], ", ".join(pat_src(x, rng) for x in p[3]))
    raise ValueError(p)


def val_sx(v):
    k = v[0]
    if k == "b": return "(b %d)" % v[1]
    if k == "n": return "(n %s %d)" % (v[1], v[2])
    if k == "tup": return "(tup %s)" % " ".join(val_sx(x) for x in v[1])
    if k == "st": return "(st %s%s)" % (v[1], "".join(" (%s %s)" % (f, val_sx(x)) for f, x in v[2]))
    if k == "eu": return "(eu %s %s)" % (v[1], v[2])
    if k == "et": return "(et %s %s%s)" % (v[1], v[2], "".join(" " + val_sx(x) for x in v[3]))
    raise ValueError(v)


# ------------------------------------------------------------------ domains

def count(defs, t, limit=100000):
    k = t[0]
    if k == "bool": return 2
    if k == "int":
        lo, hi = INTS[t[1]]
        return hi - lo + 1
    if k == "tup":
        n = 1
        for x in t[1]:
            n *= count(defs, x, limit)
            if n > limit: return limit + 1
        return n
    if k == "st":
        n = 1
        for _, x in defs.structs[t[1]]:
            n *= count(defs, x, limit)
            if n > limit: return limit + 1
        return n
    n = 0
    for _, ts in defs.enums[t[1]]:
        m = 1
        for x in (ts or []):
            m *= count(defs, x, limit)
            if m > limit: return limit + 1
        n += m
    return min(n, limit + 1)


def all_values(defs, t):
    k = t[0]
    if k == "bool":
        return [("b", 1), ("b", 0)]
    if k == "int":
        lo, hi = INTS[t[1]]
        return [("n", t[1], z) for z in range(lo, hi + 1)]
    if k == "tup":
        return [("tup", list(c)) for c in product([all_values(defs, x) for x in t[1]])]
    if k == "st":
        fts = defs.structs[t[1]]
        return [("st", t[1], list(zip([f for f, _ in fts], c)))
                for c in product([all_values(defs, x) for _, x in fts])]
    out = []
    for v, ts in defs.enums[t[1]]:
        if ts is None:
            out.append(("eu", t[1], v))
        else:
            out.extend(("et", t[1], v, list(c)) for c in product([all_values(defs, x) for x in ts]))
    return out


def product(lists):
    out = [()]
    for l in lists:
        out = [a + (x,) for a in out for x in l]
    return out


# ------------------------------------------------------------------ random types

def gen_defs_and_type(rng, stats):
    defs = Defs()
    ns = rng.choice([0, 0, 1, 1, 2])
    ne = rng.choice([0, 0, 1, 1, 2])
    kinds = ["st"] * ns + ["en"] * ne
    rng.shuffle(kinds)
    si = ei = 0
    for kd in kinds:
        if kd == "st":
            name = "S%d" % si; si += 1
            nf = rng.choice([1, 2, 2, 3])
            fields = rng.sample(["a", "b", "c", "d"], nf)
            fts = sorted((f, gen_type(rng, defs, 1)) for f in fields)
            defs.structs[name] = fts
        else:
            name = "E%d" % ei; ei += 1
            nv = rng.choice([1, 2, 2, 3, 4])
            vs = []
            for v in ["A", "B", "C", "D"][:nv]:
                if nv > 1 and rng.random() < 0.5:     # (a lone unit variant is a zero-bit type:
                    vs.append((v, None))              #  eval panics on zero-sized inputs, §6-25 / C05)
                else:
                    ts = [gen_type(rng, defs, 1) for _ in range(rng.choice([1, 1, 2]))]
                    while ts[0][0] == "tup":      # `V((u8, u8))` does not parse (first field a tuple type)
                        ts[0] = gen_type(rng, defs, 1)
                    vs.append((v, ts))
            defs.enums[name] = vs
        defs.order.append(name)
    r = rng.random()
    if r < 0.30:
        t = gen_leaf(rng)
    elif defs.order and r < 0.65:
        n = rng.choice(defs.order)
        t = ("st", n) if n in defs.structs else ("en", n)
    else:
        t = gen_type(rng, defs, 2)
    return defs, t


def gen_leaf(rng):
    r = rng.random()
    if r < 0.15:
        return ("bool",)
    return ("int", rng.choice(["u8", "u8", "i8", "i8", "u16", "i16", "u32", "i32", "u64", "i64", "usize"]))


def gen_type(rng, defs, depth):
    r = rng.random()
    if depth <= 0 or r < 0.55:
        return gen_leaf(rng)
    if r < 0.75:
        return ("tup", [gen_type(rng, defs, depth - 1) for _ in range(rng.choice([2, 2, 3]))])
    if defs.order:
        n = rng.choice(defs.order)
        return ("st", n) if n in defs.structs else ("en", n)
    return gen_leaf(rng)


# ------------------------------------------------------------------ integer patterns

def boundary_points(rng, name):
    lo, hi = INTS[name]
    c = {lo, lo + 1, hi, hi - 1, 0, 1, -1, 2, 10, 100, 127, 128, 255, 256, (lo + hi) // 2}
    for _ in range(3):
        c.add(rng.randint(lo, hi))
    for k in (7, 8, 15, 16, 31, 32, 63):
        c.update({2**k, 2**k - 1, -2**k, -2**k - 1})
    return sorted(z for z in c if lo <= z <= hi)


def tok_ok(kind, z, sfx):
    """can the scanner produce this number as a token of this kind with this suffix?"""
    if kind == "u":
        if z < 0 or z > U64MAX: return False
        if sfx == "": return True
        if sfx not in INTS or is_signed(sfx): return False
        return z <= INTS[sfx][1]
    # SignedNum: negative, or non-negative with a signed suffix
    if z < I64MIN or z > I64MAX: return False
    if sfx == "":
        return z < 0
    if sfx not in INTS or not is_signed(sfx): return False
    return INTS[sfx][0] <= z <= INTS[sfx][1]


def num_pat(rng, name, z, want_kind=None):
    """a literal pattern for the number z against scrutinee type `name` (None if unwritable)"""
    forms = []
    for kind in ("u", "s"):
        for sfx in ("", name):
            if tok_ok(kind, z, sfx):
                forms.append(("num", kind, z, sfx))
    if want_kind:
        forms = [f for f in forms if f[1] == want_kind]
    return rng.choice(forms) if forms else None


def rng_pat(rng, name, lo, hi, allow_excl=True):
    forms = []
    for kind in ("u", "s"):
        for sfx in ("", name):
            if tok_ok(kind, lo, sfx) and tok_ok(kind, hi, sfx):
                forms.append(("rng", kind, lo, hi, sfx, False))
            if allow_excl and tok_ok(kind, lo, sfx) and tok_ok(kind, hi + 1, sfx):
                if kind == "u" and hi + 1 == 0:
                    continue     # `a..0` makes the parser compute 0 - 1 (finding of C07): not generated
                forms.append(("rng", kind, lo, hi, sfx, True))
    return rng.choice(forms) if forms else None


def int_partition(rng, name, stats):
    """patterns that together cover the integer type exactly"""
    lo, hi = INTS[name]
    pts = boundary_points(rng, name)
    m = rng.choice([0, 1, 1, 2, 2, 3, 4])
    cuts = sorted(set(rng.sample(pts, min(m, len(pts)))) - {lo})
    bounds = [lo] + cuts + [hi + 1]
    out = []
    for a, b in zip(bounds, bounds[1:]):
        b -= 1
        p = None
        if a == b and rng.random() < 0.7:
            p = num_pat(rng, name, a)
        if p is None:
            p = rng_pat(rng, name, a, b)
        if p is None:
            # not writable with one pattern (e.g. a negative..non-negative range needs a suffix
            # that the scanner refuses): split at 0
            if a < 0 <= b:
                p1 = rng_pat(rng, name, a, -1) or ("var", "_")
                p2 = rng_pat(rng, name, 0, b) or ("var", "_")
                out.extend([p1, p2])
                continue
            p = ("var", "_")
        out.append(p)
    return out


# ------------------------------------------------------------------ partitions of arbitrary types

class Names:
    def __init__(self):
        self.n = 0
        self.u8vars = []

    def fresh(self, t):
        self.n += 1
        x = "x%d" % self.n
        if t == ("int", "u8"):
            self.u8vars.append(x)
        return x


def wild(rng, names, t):
    if rng.random() < 0.6:
        return ("var", "_")
    return ("var", names.fresh(t))


def partition(rng, defs, t, budget, stats):
    """list of (pattern builder) alternatives covering t exactly; each alternative is a
    function names -> pattern so that variables are fresh per arm"""
    k = t[0]
    if budget <= 1 or rng.random() < 0.15:
        return [lambda names: wild(rng, names, t)]
    if k == "bool":
        return [lambda names: ("b", 1), lambda names: ("b", 0)]
    if k == "int":
        ps = int_partition(rng, t[1], stats)
        return [(lambda names, p=p: wild(rng, names, t) if p == ("var", "_") else p) for p in ps]
    if k == "tup":
        alts = product_partition(rng, defs, t[1], budget, stats)
        return [(lambda names, a=a: ("tup", [f(names) for f in a])) for a in alts]
    if k == "st":
        fts = defs.structs[t[1]]
        alts = product_partition(rng, defs, [x for _, x in fts], budget, stats)

        def mk(names, a, fts=fts):
            fps = [(f, g(names)) for (f, _), g in zip(fts, a)]
            if rng.random() < 0.5:
                kept = [(f, p) for f, p in fps if p != ("var", "_")]
                if len(kept) < len(fps) and kept:
                    return ("st", t[1], True, kept)
            if rng.random() < 0.15 and fps:
                f0 = fps[0][0]
                if fps[0][1][0] == "var":
                    ft = dict(fts)[f0]
                    if ft == ("int", "u8"):
                        names.u8vars.append(f0)
                    fps[0] = (f0, ("var", f0))      # shorthand binding `S { a, .. }`
            return ("st", t[1], False, fps)
        return [(lambda names, a=a: mk(names, a)) for a in alts]
    # enum
    out = []
    for v, ts in defs.enums[t[1]]:
        if ts is None:
            out.append(lambda names, v=v: ("eu", t[1], v))
        else:
            alts = product_partition(rng, defs, ts, max(1, budget // 2), stats)
            for a in alts:
                out.append(lambda names, v=v, a=a: ("et", t[1], v, [f(names) for f in a]))
    return out


def product_partition(rng, defs, ts, budget, stats):
    """alternatives (tuples of builders) covering the product of the types exactly: split on
    one position, and below each part of it recursively on the remaining positions"""
    n = len(ts)
    if n == 0:
        return [()]

    def go(idx, budget):
        # idx: positions still to split, in random order
        if not idx:
            return [{}]
        i = idx[0]
        parts = partition(rng, defs, ts[i], budget, stats)
        out = []
        for part in parts:
            sub = go(idx[1:], max(1, budget // max(1, len(parts))))
            for s in sub:
                d = dict(s); d[i] = part
                out.append(d)
        return out
    idx = list(range(n))
    rng.shuffle(idx)
    alts = go(idx, budget)
    return [tuple(d[i] for i in range(n)) for d in alts]


# ------------------------------------------------------------------ random (non-partition) patterns

def random_pattern(rng, defs, t, depth, names, stats, bad=0.0):
    k = t[0]
    if depth <= 0 or rng.random() < 0.2:
        return wild(rng, names, t)
    if bad and rng.random() < bad:
        return ill_typed_pattern(rng, defs, t, names, stats)
    if k == "bool":
        return ("b", rng.randint(0, 1))
    if k == "int":
        name = t[1]
        pts = boundary_points(rng, name)
        if rng.random() < 0.45:
            return num_pat(rng, name, rng.choice(pts)) or ("var", "_")
        a, b = rng.choice(pts), rng.choice(pts)
        if a > b and rng.random() < 0.85:
            a, b = b, a            # 15% of the reversed draws stay reversed: an empty range
        return rng_pat(rng, name, a, b) or ("var", "_")
    if k == "tup":
        return ("tup", [random_pattern(rng, defs, x, depth - 1, names, stats, bad) for x in t[1]])
    if k == "st":
        fts = defs.structs[t[1]]
        fps = [(f, random_pattern(rng, defs, x, depth - 1, names, stats, bad)) for f, x in fts]
        if rng.random() < 0.4:
            kept = [fp for fp in fps if rng.random() < 0.6]
            if kept and len(kept) < len(fps):
                return ("st", t[1], True, kept)
        return ("st", t[1], False, fps)
    v, ts = rng.choice(defs.enums[t[1]])
    if ts is None:
        return ("eu", t[1], v)
    return ("et", t[1], v, [random_pattern(rng, defs, x, depth - 1, names, stats, bad) for x in ts])


def ill_typed_pattern(rng, defs, t, names, stats):
    """a pattern that the (repaired) pattern type check must refuse, or a literal at the very
    edge of the type"""
    k = t[0]
    stats["ill-typed-pattern"] = stats.get("ill-typed-pattern", 0) + 1
    if k == "int":
        name = t[1]
        lo, hi = INTS[name]
        r = rng.random()
        if r < 0.35:       # number outside the type (defects 15/28)
            z = rng.choice([hi + 1, hi + 45, 2 * hi + 1, lo - 1, lo - 100, 200 if name == "i8" else hi + 2])
            if tok_ok("u" if z >= 0 else "s", z, ""):
                return ("num", "u" if z >= 0 else "s", z, "")
            return ("var", "_")
        if r < 0.6:        # range reaching outside the type
            a = rng.choice([lo, 0, hi - 3])
            b = rng.choice([hi + 1, hi + 10])
            if a >= 0 and b <= U64MAX:
                return ("rng", "u", a, b, "", False)
            return ("var", "_")
        if r < 0.8 and not is_signed(name):    # signed literal against an unsigned scrutinee
            return ("num", "s", rng.choice([-1, -5]), "")
        return ("b", 1)
    if k == "bool":
        return ("num", "u", rng.randint(0, 1), "")
    if k == "tup":
        ps = [("var", "_") for _ in t[1]]
        if rng.random() < 0.5:
            ps.append(("var", "_"))
        else:
            ps = ps[:-1] or [("var", "_"), ("var", "_"), ("var", "_")]
        if len(ps) < 2:
            return ("b", 0)
        return ("tup", ps)
    if k == "st":
        fts = defs.structs[t[1]]
        r = rng.random()
        if r < 0.3:        # unknown field
            return ("st", t[1], True, [("zz", ("var", "_"))])
        if r < 0.6 and len(fts) > 1:   # missing field without `..`
            return ("st", t[1], False, [(fts[0][0], ("var", "_"))])
        if r < 0.8:        # the same field twice
            f = fts[0][0]
            return ("st", t[1], True, [(f, ("var", "_")), (f, ("var", "_"))])
        return ("tup", [("var", "_"), ("var", "_")])
    vs = defs.enums[t[1]]
    v, ts = rng.choice(vs)
    r = rng.random()
    if r < 0.3:
        return ("eu", t[1], "Zz")
    if ts is None:
        return ("et", t[1], v, [("var", "_")])
    if r < 0.7:
        return ("eu", t[1], v)
    return ("et", t[1], v, [("var", "_")] * (len(ts) + 1))


# ------------------------------------------------------------------ perturbations of an arm list

def shift_bound(rng, p, stats):
    """moves one bound of one range/literal by one (gap or overlap at a boundary)"""
    k = p[0]
    if k == "rng":
        _, kind, lo, hi, sfx, excl = p
        which = rng.random()
        d = rng.choice([-1, 1])
        nlo, nhi = (lo + d, hi) if which < 0.5 else (lo, hi + d)
        if tok_ok(kind, nlo, sfx) and tok_ok(kind, nhi + (1 if excl else 0), sfx) and not (kind == "u" and excl and nhi + 1 == 0):
            return ("rng", kind, nlo, nhi, sfx, excl), True
        return p, False
    if k == "num":
        z = p[2] + rng.choice([-1, 1])
        if tok_ok(p[1], z, p[3]):
            return ("num", p[1], z, p[3]), True
        return p, False
    if k == "tup":
        idx = list(range(len(p[1]))); rng.shuffle(idx)
        for i in idx:
            q, ok = shift_bound(rng, p[1][i], stats)
            if ok:
                ps = list(p[1]); ps[i] = q
                return ("tup", ps), True
        return p, False
    if k == "st":
        idx = list(range(len(p[3]))); rng.shuffle(idx)
        for i in idx:
            q, ok = shift_bound(rng, p[3][i][1], stats)
            if ok:
                fs = list(p[3]); fs[i] = (fs[i][0], q)
                return ("st", p[1], p[2], fs), True
        return p, False
    if k == "et":
        idx = list(range(len(p[3]))); rng.shuffle(idx)
        for i in idx:
            q, ok = shift_bound(rng, p[3][i], stats)
            if ok:
                ps = list(p[3]); ps[i] = q
                return ("et", p[1], p[2], ps), True
        return p, False
    return p, False


def pat_vars(p, out):
    k = p[0]
    if k == "var":
        if p[1] != "_": out.append(p[1])
    elif k == "tup":
        for x in p[1]: pat_vars(x, out)
    elif k == "st":
        for _, x in p[3]: pat_vars(x, out)
    elif k == "et":
        for x in p[3]: pat_vars(x, out)
    return out


def gen_match(rng, stats):
    """-> dict(defs, ty, arms=[(k, bindvar|'-', pattern)], shape=str)"""
    defs, t = gen_defs_and_type(rng, stats)
    shape = rng.choices(["partition", "partition-perturbed", "random", "random+wild", "ill-typed"],
                        weights=[24, 36, 12, 18, 10])[0]
    arms = []
    if shape.startswith("partition"):
        alts = partition(rng, defs, t, rng.choice([2, 4, 6, 9, 12]), stats)
        if len(alts) > 14:
            alts = alts[:14]
            shape = "partition-truncated"
        for a in alts:
            names = Names()
            p = a(names)
            arms.append((p, names))
        if shape == "partition-perturbed":
            ops = rng.sample(["drop", "shift", "dup", "wild-mid"], rng.choice([1, 1, 2]))
            for op in ops:
                if op == "drop" and len(arms) > 1:
                    arms.pop(rng.randrange(len(arms)))
                elif op == "shift":
                    i = rng.randrange(len(arms))
                    q, ok = shift_bound(rng, arms[i][0], stats)
                    arms[i] = (q, arms[i][1])
                elif op == "dup":
                    arms.insert(rng.randrange(len(arms) + 1), arms[rng.randrange(len(arms))])
                elif op == "wild-mid":
                    names = Names()
                    arms.insert(rng.randrange(len(arms) + 1), (wild(rng, names, t), names))
                stats["perturb:" + op] = stats.get("perturb:" + op, 0) + 1
        rng.shuffle(arms)
        if rng.random() < 0.2:
            names = Names()
            arms.append((wild(rng, names, t), names))
    else:
        n = rng.choice([1, 2, 3, 4, 5, 6])
        for _ in range(n):
            names = Names()
            p = random_pattern(rng, defs, t, 3, names, stats, bad=0.25 if shape == "ill-typed" else 0.0)
            arms.append((p, names))
        if shape == "random+wild":
            names = Names()
            arms.append((wild(rng, names, t), names))
            if rng.random() < 0.3:
                rng.shuffle(arms)      # arms after the wildcard are unreachable
    out = []
    for i, (p, names) in enumerate(arms):
        # variables that are really in the pattern (perturbations may have dropped some), and
        # distinct names only (a name bound twice in one pattern is outside this property)
        vs = pat_vars(p, [])
        u8 = [x for x in names.u8vars if vs.count(x) == 1]
        b = rng.choice(u8) if (u8 and rng.random() < 0.7) else "-"
        if len(set(vs)) != len(vs):
            b = "-"
        out.append((i + 1, b, p))
    stats["shape:" + shape] = stats.get("shape:" + shape, 0) + 1
    stats["type:" + t[0] + (":" + t[1] if t[0] == "int" else "")] = \
        stats.get("type:" + t[0] + (":" + t[1] if t[0] == "int" else ""), 0) + 1
    return {"defs": defs, "ty": t, "arms": out, "shape": shape}


def program_src(rng, m):
    defs, t, arms = m["defs"], m["ty"], m["arms"]
    lines = []
    for k, b, p in arms:
        body = "(%du8, %s)" % (k, b if b != "-" else "0u8")
        lines.append("        %s => %s," % (pat_src(p, rng), body))
    d = defs.src(rng)
    return (d + "\n" if d else "") + "pub fn main(x: %s) -> (u8, u8) {\n    match x {\n%s\n    }\n}\n" % (
        ty_src(t), "\n".join(lines))


def arms_sx(m):
    return "(arms %s)" % " ".join("(%d %s %s)" % (k, b, pat_sx(p)) for k, b, p in m["arms"])
