"""C02, panic-record layer — push_panic_if / peek_panic / replace_panic_with / mux_panic /
EvalPanic::parse: structural tie of the extracted model Panic/PanicRec.v with the real code,
oracle pass (first failure wins, mux selects, a raised panic is never dropped or overwritten,
reason field always valid), determinism of repeated runs (C06 at this layer) and a small
known-answer corpus of programs.  `panicrec_pass(ck, quick)` is the part to be called from
tools/c02.py between ck.prepare and ck.finish; `run(ck)` runs it standalone."""
import re
from vlib import *
import gen_panic as GP
import gen_builder as GB

NREC = 161


# ---------------------------------------------------------------------------- job generation

def corpus():
    """(name, n_inputs, prelude, tree | None, raw ops | None).  Minimised past failures first."""
    A, B, C = 2, 3, 4
    s = GP.site_of
    out = []
    # DESIGN §6-1: push A; push B; push A  (the third push reset the record and dropped B)
    out.append(("d61-push-A-B-A", 2, [], [("push", A, None), ("push", B, None), ("push", A, None)], None))
    out.append(("d61-push-A-B-C-A", 3, [], [("push", A, None), ("push", B, None), ("push", C, None), ("push", A, None)], None))
    # same class: a condition cached in ONE branch only was kept after the mux, a later hit
    # replaced the muxed record by that branch's record
    out.append(("d61-one-sided-key", 3, [], [("if", C, [("push", A, None)], [("push", B, None)]), ("push", A, None)], None))
    out.append(("d61-one-sided-key-else-empty", 3, [], [("if", C, [("push", A, None)], []), ("push", A, None)], None))
    # DESIGN §6-2 shape: the same conditions first raised in both branches in different order,
    # reused in a later conditional
    out.append(("d62-both-branches-different-order", 4, [],
                [("if", 5, [("push", A, None), ("push", B, None), ("push", C, None)],
                  [("push", C, None), ("push", B, None), ("push", A, None)]),
                 ("if", C, [("push", A, None)], [("push", B, None)])], None))
    # nested conditionals, repeated conditions at all levels
    out.append(("nested-if", 4, [("and", 2, 3), ("xor", 3, 4)],
                [("push", "h0", None),
                 ("if", 5, [("if", 4, [("push", 2, None)], [("push", "h1", None), ("push", "h0", None)])],
                  [("push", 2, None), ("push", "h1", None)]),
                 ("push", "h1", None), ("push", 2, None)], None))
    out.append(("match-and-or", 4, [("and", 2, 3)],
                [("match", [(2, [("push", 3, None)]), (3, [("push", 4, None), ("push", "h0", None)]), (1, [])]),
                 ("and", 5, [("push", 4, None)]), ("or", 5, [("push", 3, None)]), ("push", 4, None)], None))
    # constant conditions (constant-foldable sites) around a failing one
    out.append(("const-conds", 2, [], [("push", 0, None), ("push", A, None), ("push", 1, None), ("push", B, None), ("push", 0, None)], None))
    # locations beyond 32 bits are truncated by unsigned_as_usize_bits (documented assumption)
    out.append(("huge-meta", 2, [], None,
                [("push", A, 3, (1 << 32) + 5, (1 << 63) + 1, 18446744073709551615, 4294967295), ("push", B, 2, 4294967296, 0, 1, 2)]))
    # unstructured use of the operations
    out.append(("raw-mux-unrelated", 3, [], None,
                [("push", A) + s(0), ("save", 0), ("push", B) + s(1), ("save", 1), ("replace", 0), ("push", C) + s(2),
                 ("save", 2), ("muxp", B, 1, 2), ("push", B) + s(3), ("push", A) + s(4), ("save", 3), ("muxp", 1, 3, 0),
                 ("muxp", 0, 1, 3)]))
    return out


def make_jobs(ck, quick):
    rng = ck.rng
    jobs, meta = [], {}
    dist = {"corpus": 0, "exhaustive": {}, "random_tree": 0, "random_ops": 0, "kinds": {}, "dedup_off": 0,
            "sizes": {}, "repeated_runs": 0}

    def add(jid, n, prelude, tree, ops, dedup, cat, repeat=0):
        if tree is not None:
            tree = GP.renumber_sites(tree)
            ops = GP.compile_tree(prelude, tree)
            GP.tree_kinds(tree, dist["kinds"])
            sz = GP.tree_size(tree)
        else:
            ops = list(prelude) + list(ops)
            sz = len(ops)
        dist["sizes"][sz] = dist["sizes"].get(sz, 0) + 1
        if not dedup:
            dist["dedup_off"] += 1
        if repeat:
            dist["repeated_runs"] += 1
        jobs.append(GP.fmt_job(jid, dedup, [n], ops, repeat=repeat))
        meta[jid] = (n, prelude, tree, ops, dedup, cat)

    k = 0
    for name, n, prelude, tree, ops in corpus():
        for dedup in (True, False):
            add(f"k{k}-{name}", n, prelude, tree, ops, dedup, "corpus", repeat=24); k += 1
            dist["corpus"] += 1
    # exhaustive: push conditions A, B, constant false, constant true; conditional on X or on A
    A, B, X = 2, 3, 4
    max_size = 4 if quick else 5
    for size in range(1, max_size + 1):
        trees = GP.exhaustive_trees(size, [A, B, 0, 1], [X, A])
        dist["exhaustive"][size] = 0
        for t in trees:
            dd = (True, False) if size <= 3 else ((True,) if rng.random() < 0.9 else (False,))
            for dedup in dd:
                add(f"e{k}", 3, [], t, None, dedup, "exhaustive"); k += 1
                dist["exhaustive"][size] += 1
    # thorough: size 6 sampled (the full set has ~10^6 members)
    n_tree = 1500 if quick else 60000
    for i in range(n_tree):
        n = rng.choice([2, 3, 3, 4, 4, 5])
        ncond = rng.randint(0, 4)
        prelude = GP.random_prelude(rng, n, ncond)
        conds = list(range(2, 2 + n)) + ["h%d" % j for j in range(ncond)]
        conds = rng.sample(conds, min(len(conds), rng.choice([2, 3, 3, 4]))) + ([0] if rng.random() < 0.3 else []) + \
            ([1] if rng.random() < 0.15 else [])
        size = rng.choice([3, 5, 6, 8, 10, 12]) if rng.random() < 0.9 else rng.randint(14, 24)
        t = GP.random_tree(rng, conds, size)
        add(f"t{i}", n, prelude, t, None, rng.random() < 0.7, "random_tree", repeat=6 if i % 4 == 0 else 0)
        dist["random_tree"] += 1
    n_ops = 800 if quick else 30000
    for i in range(n_ops):
        n = rng.choice([2, 3, 4])
        ops = GP.random_ops(rng, n, rng.choice([4, 8, 12, 20, 30]))
        add(f"o{i}", n, [], None, ops, rng.random() < 0.7, "random_ops")
        dist["random_ops"] += 1
    return jobs, meta, dist


def parse_jobs(ck, quick):
    """EvalPanic::parse on raw bits: structured records (valid / invalid reason numbers, flag on
    and off, with and without result bits) and a malformed stream (too short, empty)."""
    rng = ck.rng
    jobs = []
    dist = {"valid": 0, "invalid_reason": 0, "short": 0, "random": 0}

    def rec(flag, reason, fields, rest):
        bits = ("1" if flag else "0") + format(reason % GP.M32, "032b") + "".join(format(f % GP.M32, "032b") for f in fields)
        return bits + rest

    k = 0
    specials = [0, 1, 2, 3, 4, 5, 7, 255, 1 << 31, GP.M32 - 1]
    for flag in (0, 1):
        for r in specials:
            for rest in ("", "1", "0110"):
                jobs.append("(panicparse p%d (bits \"%s\"))" % (k, rec(flag, r, [k, 2 * k + 1, GP.M32 - 1 - k, 1 << (k % 32)], rest))); k += 1
                dist["valid" if 1 <= r <= 3 else "invalid_reason"] += 1
    for n in [0, 1, 2, 32, 33, 34, 64, 128, 159, 160]:
        for fill in "01":
            jobs.append("(panicparse p%d (bits \"%s\"))" % (k, fill * n)); k += 1
            dist["short"] += 1
    for i in range(300 if quick else 20000):
        n = rng.choice([161, 161, 162, 170, 200, rng.randint(0, 160)])
        bits = "".join(rng.choice("01") for _ in range(n))
        if n >= 161 and rng.random() < 0.7:
            bits = bits[0] + format(rng.choice([1, 2, 3, 3, 2, 1, 0, 4]), "032b") + bits[33:]
        jobs.append("(panicparse p%d (bits \"%s\"))" % (k, bits)); k += 1
        dist["random"] += 1
    return jobs, dist


# ---------------------------------------------------------------------------- oracle

def strip_rust_only(r):
    return re.sub(r"\s*\((?:distinct|truth) .*$", "", r)


def decode_truth(r):
    """-> (list over assignments of (flag, type, sl, sc, el, ec), handle columns, parsed list)"""
    m = re.search(r'\(truth ((?:"[01]*"\s*)+)\) \(parse (.*)\)$', r)
    if not m:
        return None
    cols = re.findall(r'"([01]*)"', m.group(1))
    parsed = re.findall(r"\([^()]*\)|crash", m.group(2))
    if len(cols) < NREC:
        return None
    size = len(cols[0])
    recs = []
    for a in range(size):
        bits = "".join(cols[j][a] for j in range(NREC))
        recs.append((bits[0] == "1",) + tuple(int(bits[1 + 32 * f:33 + 32 * f], 2) for f in range(5)))
    return recs, cols[NREC:], parsed


def assignment_str(n, a):
    return " ".join("w%d=%s" % (2 + i, (a >> (n - 1 - i)) & 1) for i in range(n))


def oracle(ck, job, jid, r, m, info, stats):
    n, prelude, tree, ops, dedup, cat = info
    d = decode_truth(r)
    if d is None:
        ck.violation("the circuit with the panic record cannot be built or evaluated (panic in the implementation)",
                     {"job": job, "rust": r[:1500], "model": m[:1500]})
        return
    recs, hcols, parsed = d
    md = re.search(r"\(distinct (\d+)\)", r)
    if md:
        stats["repeated"] += 1
        if md.group(1) != "1":
            stats["nondeterministic"] += 1
            ck.violation("the same script run repeatedly on fresh builders gives %s different circuits: gates are "
                         "emitted in HashMap iteration order (mux_panic), C06" % md.group(1),
                         {"job": job, "distinct_results": int(md.group(1)), "first_result": strip_rust_only(r)[:1500]})
    exp, T = GP.ops_semantics(n, ops)
    # sanity of the generator: condition wires built by the requests have the literal truth tables
    for j, col in enumerate(hcols):
        if col != GB.table_to_string(T.hs[j], T.size):
            ck.violation("a condition wire computes a different function than its requests",
                         {"job": job, "handle": j, "rust": r[:1500]})
            return
    if tree is not None:
        texp = GP.tree_semantics(n, prelude, tree)
        if texp != exp:
            # the protocol (save / branch / swap / branch / mux) does not implement the source
            # reading of the tree under the laws: a generator or law bug, never the implementation
            ck.obligation("oracle self-check: laws applied to the compiled protocol = source reading of the tree", False,
                          f"job {jid}")
            return
    for a, (flag, ty, sl, sc, el, ec) in enumerate(recs):
        asg = assignment_str(n, a)
        base = {"job": job, "assignment": asg, "expected": exp[a], "circuit_record":
                {"has_panicked": flag, "panic_type": ty, "start": [sl, sc], "end": [el, ec]},
                "real_EvalPanic_parse": parsed[a] if a < len(parsed) else None}
        if not (1 <= ty <= 3):
            stats["bad_type"] += 1
            ck.violation("the panic_type field is not a valid reason number on some input: EvalPanic::parse panics "
                         "(PanicReason::from_num) although the circuit was produced by the builder", base)
            return
        if a < len(parsed) and parsed[a] == "crash":
            ck.violation("EvalPanic::parse panics on the output of a built circuit", base)
            return
        got = (ty, sl, sc, el, ec) if flag else None
        if got != exp[a]:
            if exp[a] is not None and got is None:
                what = ("a raised panic is dropped: the condition of a pushed panic holds on this input but the "
                        "final record reports no panic")
            elif exp[a] is None:
                what = "spurious panic: no pushed condition holds on the executed path but the record reports a panic"
            else:
                what = ("wrong panic reported: reason/location are not those of the FIRST failing push on the executed "
                        "path (first failure wins / a raised panic is never overwritten / untaken code is silent)")
            stats["wrong"] += 1
            ck.violation(what, base)
            return
        # the real decoder agrees with the independent decoding
        if a < len(parsed):
            want = "(ok %d)" % len(hcols) if exp[a] is None else "(panic %d %d %d %d %d)" % exp[a]
            if parsed[a] != want:
                ck.violation("EvalPanic::parse decodes the record differently from its documented layout", {**base, "want": want})
                return
        stats["assignments"] += 1
        if exp[a] is not None:
            stats["panicking"] += 1


# ---------------------------------------------------------------------------- known-answer programs

PROGRAMS = [
    # DESIGN §6-1: the same failing sub-expression before and after another failing operation
    ("p61-a+b,c*d,a+b",
     "pub fn main(a: u8, b: u8, c: u8, d: u8) -> u8 {\n  let x = a + b;\n  let y = c * d;\n  let z = a + b;\n  x\n}",
     [(["1u8", "2u8", "100u8", "100u8"], ("panic", 1, 2)),      # only c*d fails: Overflow on line 2
      (["200u8", "100u8", "1u8", "1u8"], ("panic", 1, 1)),
      (["200u8", "100u8", "100u8", "100u8"], ("panic", 1, 1)),   # first failure wins
      (["1u8", "2u8", "3u8", "4u8"], ("ok", "3"))]),
    # a condition raised in one branch only and again after the conditional
    ("p61-one-sided",
     "pub fn main(a: u8, b: u8, c: bool) -> u8 {\n  let x = if c {\n    a + b\n  } else {\n    a * 2u8\n  };\n  let y = a + b;\n  x\n}",
     [(["130u8", "1u8", "false"], ("panic", 1, 4)),             # a*2 fails in the taken else-branch
      (["200u8", "100u8", "false"], ("panic", 1, 4)),
      (["100u8", "200u8", "false"], ("panic", 1, 6)),            # a+b fails only after the conditional
      (["100u8", "200u8", "true"], ("panic", 1, 2)),
      (["1u8", "2u8", "true"], ("ok", "3"))]),
    # short-circuited operand is silent; the same division afterwards is not
    ("p-short-circuit",
     "pub fn main(a: u8, b: u8, c: bool) -> bool {\n  let p = c && (a / b > 1u8);\n  let q = a / b > 0u8;\n  p\n}",
     [(["1u8", "0u8", "false"], ("panic", 2, 2)),
      (["1u8", "0u8", "true"], ("panic", 2, 1)),
      (["4u8", "2u8", "true"], ("ok", "true"))]),
    # untaken branch is silent
    ("p-untaken",
     "pub fn main(a: u8, b: u8, c: bool) -> u8 {\n  if c {\n    a / b\n  } else {\n    0u8\n  }\n}",
     [(["1u8", "0u8", "false"], ("ok", "0")), (["1u8", "0u8", "true"], ("panic", 2, 2))]),
]


def program_pass(ck, stats):
    jobs = []
    for name, src, runs in PROGRAMS:
        jobs.append("(panicprog %s (src %s) %s)" % (name, quote(src), " ".join(
            "(run %s)" % " ".join(quote(a) for a in args) for args, _ in runs)))
    rs = run_jobs(GVRUN, jobs, "c02p.rs")
    for (name, src, runs), j in zip(PROGRAMS, jobs):
        r = rs.get(name, "(no-result)")
        got = re.findall(r'\(ok "(?:[^"\\]|\\.)*"\)|\(panic [^()]*\)|\(err [^()]*\)|crash|compile-\w+', r)
        for k, (args, exp) in enumerate(runs):
            g = got[k] if k < len(got) else "(missing)"
            if exp[0] == "ok":
                ok = g == '(ok "%s")' % exp[1]
            else:
                m = re.match(r"\(panic (\d+) (\d+) \d+ (\d+) \d+\)", g)
                ok = bool(m) and int(m.group(1)) == exp[1] and int(m.group(2)) == exp[2]
            stats["program_runs"] += 1
            if not ok:
                ck.violation("a program with a hand-computed outcome (first failing operation in evaluation order; "
                             "reason and start line) evaluates differently on the compiled circuit",
                             {"program": src, "arguments": args,
                              "expected": {"kind": exp[0], "reason_or_value": exp[1], "start_line": exp[2] if len(exp) > 2 else None},
                              "circuit_result": g, "job": j})


# ---------------------------------------------------------------------------- the pass

TRUSTED = [
    "modelled (Panic/PanicRec.v): circuit.rs PanicResult::ok, PanicReason::{as_bits,from_num}, "
    "unsigned_as_usize_bits, push_panic_if, peek_panic/replace_panic_with (states are values), mux_uncached_panic, "
    "mux_panic, EvalPanic::parse, wires_as_unsigned; the cache HashMap<usize, PanicResult> as a finite SET of condition "
    "wires (its values are never read by the repaired code); the fixed-size arrays [usize; 32] as lists indexed with nth",
    "source locations are truncated to 32 bits by unsigned_as_usize_bits (files with < 2^32 lines/columns assumed)",
    "panic-record layer: protocol programs (push / conditional) stand for the way compile.rs drives the record in "
    "If / Match / && / || / JoinLoop; that compile.rs follows this protocol is tied by the program-level jobs, not proved",
]


def panicrec_pass(ck, quick):
    """Runs the record-layer jobs; adds obligations, violations and coverage['panicrec']."""
    jobs, meta, dist = make_jobs(ck, quick)
    pjobs, pdist = parse_jobs(ck, quick)

    class Collect:
        """defers ck.violation so that the shortest failing scripts are reported first (the exhaustive
        enumeration contains every small script, so the first one is a minimal witness)"""
        def __init__(self): self.items = []; self.n = 0
        def violation(self, what, replay, key=None, found_input=True):
            self.n += 1
            self.items.append((len(replay.get("job", "")), self.n, what, replay, key, found_input))
            self.items.sort(key=lambda t: t[:2]); del self.items[60:]
        def obligation(self, *a): ck.obligation(*a)
    col = Collect()
    stats = {"assignments": 0, "panicking": 0, "wrong": 0, "bad_type": 0, "repeated": 0, "nondeterministic": 0,
             "program_runs": 0}
    mism = 0
    first_mismatch = []
    CH = 25000
    for c0 in range(0, len(jobs), CH):
        chunk = jobs[c0:c0 + CH]
        rs, ml = run_both(chunk, "c02", timeout_per_job=0.5)
        for j in chunk:
            jid = job_id(j)
            r, m = rs.get(jid, "(no-result)"), ml.get(jid, "(no-result)")
            oracle(col, j, jid, r, m, meta[jid], stats)
            if strip_rust_only(r) != m:
                mism += 1
                if len(first_mismatch) < 3:
                    first_mismatch.append(jid)
                    ck.violation("model and implementation disagree (record wires / cache keys / built circuit)",
                                 {"job": j, "rust": strip_rust_only(r)[:3000], "model": m[:3000],
                                  "correspondence": "panicrec jobs"}, found_input=False)
        del rs, ml
    pcol = Collect()
    program_pass(pcol, stats)
    order = col.items[:6] + pcol.items[:4] + col.items[6:40]
    for _, _, what, replay, key, found in order:
        ck.violation(what, replay, key=key, found_input=found)
    rs, ml = run_both(pjobs, "c02q", timeout_per_job=0.5)
    pm = 0
    crashes = 0
    for j in pjobs:
        jid = job_id(j)
        r, m = rs.get(jid, "(no-result)"), ml.get(jid, "(no-result)")
        crashes += r == "crash"
        if r != m:
            pm += 1
            if pm <= 3:
                ck.violation("model and implementation disagree on EvalPanic::parse", {"job": j, "rust": r, "model": m,
                             "correspondence": "panicparse jobs"}, found_input=False)
    ck.obligation("correspondence: after every generated script of push_panic_if / peek_panic / replace_panic_with / "
                  "mux_panic (+ gate requests) the 161 record wires, the cached conditions, the returned wires and "
                  "the built circuit are textually equal to the model's", mism == 0, f"{mism} differing jobs {first_mismatch}")
    ck.obligation("correspondence: EvalPanic::parse (result | panic | crash) equals the model's parse_panic on every "
                  "generated bit string", pm == 0, f"{pm} differing jobs")
    cov = {
        "evaluations": len(jobs) + len(pjobs) + stats["program_runs"],
        "distinct_nontrivial": len(set(re.sub(r"^\(\S+ \S+ ", "", j) for j in jobs + pjobs)),
        "rule": "panicrec scripts against the real CircuitBuilder through the hook: corpus (the minimised §6-1/§6-2 "
                "shapes first), ALL trees of push/if nodes up to size 4 (thorough: 5) over push conditions "
                "{A, B, const false, const true} and if-conditions {X, A}, random trees (push/if/match/&&/||, nested "
                "to depth 3, 2-5 inputs, conditions built by and/xor/or/not/eq requests, repeated and constant "
                "conditions), and unstructured random operation streams; dedup on and off. Every built circuit is "
                "evaluated on ALL input assignments, the 161 record bits are decoded independently and by the real "
                "EvalPanic::parse and compared with (a) the algebraic laws applied operation by operation and (b) "
                "the source reading of the tree (first failing push on the executed path); a share of the scripts is "
                "run repeatedly on fresh builders and must give one and the same result (hash order). panicparse: "
                "structured and random bit strings incl. invalid reason numbers and strings shorter than 161 bits. "
                "panicprog: programs with hand-computed outcomes (the §6-1 witnesses) through compile + Evaluator; "
                "distinct by payload",
        "traces_validated_against_impl": len(jobs) - mism + len(pjobs) - pm,
        "input_distribution": {"panicrec": dist, "panicparse": pdist, "panicprog": len(PROGRAMS)},
        "oracle": stats, "parse_crash_jobs": crashes,
    }
    ck.coverage["panicrec"] = cov
    return cov, [jobs[0][:600], jobs[len(jobs) // 2][:600], jobs[-1][:600], pjobs[0][:300]]


def run(ck):
    quick = ck.tier == "quick"
    ck.prepare("C02")
    if not (ck.harness_ok and ck.model_ok):
        return ck.finish(trusted=COMMON_TRUSTED)
    cov, samples = panicrec_pass(ck, quick)
    ck.coverage.update({k: cov[k] for k in ("evaluations", "distinct_nontrivial", "rule", "traces_validated_against_impl",
                                            "input_distribution")})
    ck.samples = samples
    return ck.finish(trusted=COMMON_TRUSTED + TRUSTED + [
        "scope of this run: the panic-record layer; the program-level statement (panic iff the source interpreter "
        "fails) is checked by the program oracle of this property"])
