"""C03 — integer operators and casts are bit-exact at every width and overflow boundary.

Three layers (DESIGN.md §4 C03):
  (1) proofs: Props/C03.v (gadget theorems for every width, re-checked by ck.prepare);
  (2) tie: `builder` jobs with gadget requests — the real arithmetic gadgets of circuit.rs
      (through the hook wrapper) and the extracted Gadgets.v must return the same wires and
      build the same circuit; oracle: the Rust circuit's truth table against an independent
      integer evaluation (gen_gadgets.meaning);
  (3) operator-level SEARCH (testing, not proof): `opprog` jobs compile one-operator
      programs and compare every result with Rust's checked_* / `as` (tools/c03_ops.py).
"""
import os, re
from concurrent.futures import ProcessPoolExecutor
from vlib import *
import gen_builder as GB
import gen_gadgets as GG

PANIC_OK = [0] + [0] * 31 + [1] + [0] * 128   # values of PanicResult::ok() (type = 1)
KINDS = ["eqc", "addc", "negc", "subc", "udiv", "sdiv", "gt", "cmp"]


def widths_for(kind, quick):
    ws = [1, 2, 3, 4, 5, 6, 7, 8, 9, 16]
    if kind in ("udiv", "sdiv") and quick:
        ws = [1, 2, 3, 4, 5, 6, 7, 8]
    return ws


def split_parties(rng, n):
    parts, left = [], n
    while left > 0:
        p = rng.randint(1, left); parts.append(p); left -= p
    return parts


def make_jobs(ck, quick):
    rng = ck.rng
    jobs = []            # (jid, job text, meta)
    dist = {}

    def add(family, dedup, parts, reqs, truth, kinds, expect_crash=False):
        jid = "g%d" % len(jobs)
        nh = GG.count_handles(reqs) if not expect_crash else 0
        outs = ["h%d" % i for i in range(nh)] if nh else [0]
        text = GG.fmt_job(jid, dedup, parts, reqs, outs, truth and not expect_crash)
        jobs.append((jid, text, {"n_inputs": sum(parts), "reqs": reqs, "outs": outs, "dedup": dedup,
                                 "truth": truth and not expect_crash, "crash": expect_crash,
                                 "family": family, "kinds": kinds}))
        for k in kinds:
            dist[family + ":" + k] = dist.get(family + ":" + k, 0) + 1

    # (1) operands are input wires, every width
    for kind in KINDS:
        for n in widths_for(kind, quick):
            a = list(range(2, 2 + n))
            b = list(range(2 + n, 2 + 2 * n))
            variants = [None]
            if kind == "subc":
                variants = [0, 1]
            elif kind == "cmp":
                variants = [(0, 0), (1, 1), (1, 0), (0, 1)]
            for v in variants:
                if kind == "negc":
                    req, parts = (kind, {"a": a}), [n]
                elif kind == "subc":
                    req, parts = (kind, {"a": a, "b": b, "signed": v}), [n, n]
                elif kind == "gt":
                    req, parts = (kind, {"a": a, "b": b, "bits": n}), [n, n]
                elif kind == "cmp":
                    req, parts = (kind, {"a": a, "b": b, "bits": n, "sx": v[0], "sy": v[1]}), [n, n]
                else:
                    req, parts = (kind, {"a": a, "b": b}), [n, n]
                for dedup in (True, False):
                    add("inputs", dedup, parts, [req], sum(parts) <= 16, [kind])
    # single-wire gadgets: every operand choice among constants and 3 inputs
    pool = [0, 1, 2, 3, 4]
    for dedup in (True, False):
        for x in pool:
            for y in pool:
                for z in pool:
                    add("single", dedup, [3], [("condswap", {"w": [x, y, z]})], True, ["condswap"])
                    for c in ([0, 2] if quick else pool):
                        add("single", dedup, [3], [("mult", {"w": [x, y, z, c]})], True, ["mult"])
    # (2) mixed operands (inputs, constants, handles of earlier simple requests), (3) constants only
    n_mixed = 6 if quick else 200
    for kind in KINDS:
        for n in widths_for(kind, quick):
            reps = n_mixed if n <= 9 else max(2, n_mixed // 3)
            for r in range(reps):
                mode = "const" if r % 3 == 2 else "mixed"
                ni = 1 if mode == "const" else rng.randint(2, 9 if n <= 9 else 7)
                inputs = list(range(2, 2 + ni))
                pre, nh = ([], 0)
                if mode == "mixed" and rng.random() < 0.7:
                    pre, nh = GB.random_seq(rng, ni, rng.randint(1, 6),
                                            kinds=["xor", "and", "not", "or", "eq", "mux"])
                a = GG.operand_list(rng, n, mode, inputs, nh)
                b = GG.operand_list(rng, n, mode, inputs, nh)
                if mode == "mixed" and rng.random() < 0.15:
                    b = list(a)                       # x op x
                if mode == "mixed" and rng.random() < 0.1:
                    b = [0] * (n - 1) + [rng.choice([0, 1])]   # divisor / subtrahend 0 or 1
                req = GG.gadget_request(rng, kind, n, a, b)
                add(mode, rng.random() < 0.6, split_parties(rng, ni), pre + [req], True, [kind])
    # (4) chains: later gadgets consume result handles of earlier ones
    n_chain = 40 if quick else 3000
    for r in range(n_chain):
        ni = rng.randint(2, 8)
        inputs = list(range(2, 2 + ni))
        reqs, kinds = [], []
        nh = 0
        for step in range(rng.randint(2, 3)):
            kind = rng.choice(KINDS)
            n = rng.choice([1, 2, 3, 4, 4, 5, 6] if kind in ("udiv", "sdiv") else [1, 2, 3, 4, 5, 8, 8, 9])
            a = GG.operand_list(rng, n, "mixed", inputs, nh, consts_p=0.15)
            b = GG.operand_list(rng, n, "mixed", inputs, nh, consts_p=0.15)
            if nh >= n and rng.random() < 0.5:
                st = rng.randint(0, nh - n)
                a = ["h%d" % (st + i) for i in range(n)]   # a whole earlier result vector
            req = GG.gadget_request(rng, kind, n, a, b)
            reqs.append(req); kinds.append(kind)
            nh = GG.count_handles(reqs)
        add("chain", rng.random() < 0.6, split_parties(rng, ni), reqs, True, kinds)
    # widening casts (compile.rs extend_to_bits): every source width, targets up to > 4x
    for n in [1, 2, 3, 4, 5, 6, 7, 8, 9, 16]:
        for bits in sorted(set([n, n + 1, 2 * n, 2 * n + 1, 4 * n, 4 * n + 3, 8 * n])):
            for signed in (0, 1):
                a = list(range(2, 2 + n))
                add("ext", True, [n], [("ext", {"a": a, "signed": signed, "bits": bits})], n <= 12, ["ext"])
    for r in range(10 if quick else 200):
        ni = rng.randint(2, 8)
        pre, nh = GB.random_seq(rng, ni, rng.randint(1, 5), kinds=["xor", "and", "not", "or"])
        n = rng.randint(1, 9)
        a = GG.operand_list(rng, n, "mixed", list(range(2, 2 + ni)), nh)
        sg = rng.choice([0, 1])
        reqs = pre + [("ext", {"a": a, "signed": sg, "bits": n + rng.randint(0, 4 * n)})]
        # a widened vector feeds an arithmetic gadget (how Op::Add etc. use it)
        nh2 = GG.count_handles(reqs)
        wide = ["h%d" % i for i in range(nh, nh2)]
        other = GG.operand_list(rng, len(wide), "mixed", list(range(2, 2 + ni)), nh)
        reqs.append(GG.gadget_request(rng, rng.choice(["addc", "subc", "cmp", "eqc"]), len(wide), wide, other))
        add("ext", rng.random() < 0.6, split_parties(rng, ni), reqs, True, ["ext"])
    add("ext", True, [2], [("ext", {"a": [], "signed": 1, "bits": 5})], True, ["ext"])
    add("malformed", True, [4], [("ext", {"a": [2, 3, 4], "signed": 1, "bits": 2})], False, ["ext"], True)
    add("malformed", True, [4], [("ext", {"a": [2, 3, 4], "signed": 0, "bits": 0})], False, ["ext"], True)
    # (5) malformed requests: both sides must refuse (panic / Crash) or, for eqc, return false
    for dedup in (True, False):
        add("malformed", dedup, [4], [("addc", {"a": [2, 3], "b": [4]})], False, ["addc"], True)
        add("malformed", dedup, [4], [("subc", {"a": [2], "b": [4, 5], "signed": 0})], False, ["subc"], True)
        add("malformed", dedup, [4], [("subc", {"a": [], "b": [], "signed": 1})], False, ["subc"], True)
        add("malformed", dedup, [4], [("udiv", {"a": [2, 3, 4], "b": [4, 5]})], False, ["udiv"], True)
        add("malformed", dedup, [4], [("sdiv", {"a": [2, 3], "b": [4, 5, 2]})], False, ["sdiv"], True)
        add("malformed", dedup, [4], [("sdiv", {"a": [], "b": []})], False, ["sdiv"], True)
        add("malformed", dedup, [4], [("gt", {"a": [2, 3], "b": [4, 5], "bits": 3})], False, ["gt"], True)
        add("malformed", dedup, [4], [("cmp", {"a": [2, 3], "b": [4], "bits": 2, "sx": 1, "sy": 0})], False, ["cmp"], True)
        add("malformed", dedup, [4], [("eqc", {"a": [2, 3], "b": [4]})], True, ["eqc"])
        add("malformed", dedup, [4], [("eqc", {"a": [], "b": []})], True, ["eqc"])
        add("malformed", dedup, [4], [("addc", {"a": [], "b": []})], True, ["addc"])
        add("malformed", dedup, [4], [("subc", {"a": [], "b": [], "signed": 0})], True, ["subc"])
        add("malformed", dedup, [4], [("udiv", {"a": [], "b": []})], True, ["udiv"])
        add("malformed", dedup, [4], [("negc", {"a": []})], True, ["negc"])
        add("malformed", dedup, [4], [("gt", {"a": [2, 3, 4], "b": [4, 5, 2], "bits": 2})], True, ["gt"])
        add("malformed", dedup, [4], [("cmp", {"a": [2, 3, 4], "b": [4, 5, 2], "bits": 2, "sx": 1, "sy": 1})], True, ["cmp"])
        add("malformed", dedup, [4], [("gt", {"a": [2, 3], "b": [4, 5], "bits": 0})], True, ["gt"])
    return jobs, dist


def expected_tables(args):
    n_inputs, reqs, outs = args
    hs, val, size = GG.eval_requests(n_inputs, reqs)
    return [format(val(o), "0%db" % size)[::-1] for o in outs], size


REPORTED = {}


def first_bad_assignment(ck, text, meta, r, m, cols, exp, size):
    n = meta["n_inputs"]
    for j, (a, b) in enumerate(zip(cols, exp)):
        if a != b:
            kk = meta["kinds"][-1]
            REPORTED[kk] = REPORTED.get(kk, 0) + 1
            if REPORTED[kk] > 1:        # one replay per gadget kind is enough (the output is capped)
                return True
            kbad = next(i for i in range(size) if a[i] != b[i])
            # which request owns this output handle
            ck.violation("an arithmetic gadget of circuit.rs computes a wrong bit "
                         "(truth table of the built circuit vs the integer meaning of the requests)",
                         {"job": text, "output_index": j, "handle": j - 161,
                          "assignment_msb_first": format(kbad, "0%db" % n),
                          "circuit_bit": a[kbad], "expected_bit": b[kbad],
                          "rust": r[:3000], "model": m[:3000]})
            return True
    return False


def strip_truth(r):
    return re.sub(r"\s*\(truth .*\)$", "", r)


def run_tie(ck, quick):
    REPORTED.clear()
    jobs, dist = make_jobs(ck, quick)
    texts = [t for _, t, _ in jobs]
    rs, ml = run_both(texts, "c03", timeout_per_job=3.0)
    # independent evaluation (cached per request text: dedup on/off share the expectation)
    todo, keyof = {}, {}
    for jid, text, meta in jobs:
        if meta["truth"]:
            key = re.sub(r"^\(builder \S+ \(dedup \d\) \(inputs [^)]*\)", "", text) + "#%d" % meta["n_inputs"]
            keyof[jid] = key
            todo.setdefault(key, (meta["n_inputs"], meta["reqs"], meta["outs"]))
    keys = sorted(todo, key=lambda k: -todo[k][0])     # the large truth tables first
    with ProcessPoolExecutor(max_workers=NCPU) as ex:
        exp_by_key = dict(zip(keys, ex.map(expected_tables, [todo[k] for k in keys], chunksize=1)))
    mism = crashes_ok = truth_checked = 0
    assignments = 0
    for jid, text, meta in jobs:
        r, m = rs.get(jid, "(no-result)"), ml.get(jid, "(no-result)")
        if meta["crash"]:
            ok = r.startswith("(harness-crash") and m == "(model-crash)"
            crashes_ok += ok
            if not ok:
                mism += 1
                ck.violation("a malformed gadget request is not refused alike by model and implementation",
                             {"job": text, "rust": r[:500], "model": m[:500], "correspondence": "builder jobs (gadgets)"},
                             found_input=False)
            continue
        if meta["truth"]:
            mt = re.search(r"\(truth ([^()]*)\)$", r) if r.startswith("(wires") else None
            if mt is None or mt.group(1) == "crash":
                ck.violation("the circuit built from gadget requests cannot be evaluated or was not built",
                             {"job": text, "rust": r[:2000], "model": m[:2000]})
            else:
                exp_outs, size = exp_by_key[keyof[jid]]
                exp = [("1" if v else "0") * size for v in PANIC_OK] + exp_outs
                cols = re.findall(r'"([01]*)"', mt.group(1))
                if len(cols) != len(exp):
                    ck.violation("wrong number of outputs", {"job": text, "rust": r[:2000]})
                else:
                    first_bad_assignment(ck, text, meta, r, m, cols, exp, size)
                    truth_checked += 1
                    assignments += size
        if strip_truth(r) != m:
            mism += 1
            if mism <= 3:
                ck.violation("model and implementation disagree on a gadget (returned wires / built circuit)",
                             {"job": text, "rust": strip_truth(r)[:3000], "model": m[:3000],
                              "correspondence": "builder jobs (gadgets)"}, found_input=False)
    ck.obligation("correspondence: wires returned by push_eq_circuit / push_addition_circuit / push_negation_circuit / "
                  "push_subtraction_circuit / push_(un)signed_division_circuit / push_gt_circuit / "
                  "push_comparator_circuit / push_multiplier / push_condswap and the built circuit equal those of "
                  "the extracted Gadgets.v for every generated request sequence (dedup on and off); malformed "
                  "requests are refused by both", mism == 0, f"{mism} differing jobs")
    return {"jobs": len(jobs), "mismatches": mism, "truth_tables_checked": truth_checked,
            "assignments_checked": assignments, "malformed_refused_alike": crashes_ok,
            "distribution": dist, "samples": [texts[0][:400], texts[len(texts) // 2][:400], texts[-1][:400]],
            "distinct": len(set(re.sub(r"^\(builder \S+ ", "", t) for t in texts))}


def run(ck):
    quick = ck.tier == "quick"
    ck.prepare("C03")
    if not (ck.harness_ok and ck.model_ok):
        return ck.finish(trusted=COMMON_TRUSTED)
    tie = run_tie(ck, quick)
    ops = None
    try:
        import c03_ops
    except ImportError:
        c03_ops = None
    if os.environ.get("C03_SKIP_OPS"):      # self-tests of the gadget tie only
        c03_ops = None
    if c03_ops is not None:
        ops = c03_ops.run_ops(ck, quick, per_class_reports=1, unclassified_reports=3)
    # the operator lowering of compile.rs IS modelled now (Compile/Lower.v; theorems C03_lowering_*): tie it on the
    # one-operator programs (typed ones; 8..32 bit ones in the quick tier, the 64-bit multiplier is large)
    if c03_ops is not None:
        import lowertie
        osrc = sorted(set(j.src for j in c03_ops.make_jobs(ck, quick) if not j.untyped))
        ck.rng.shuffle(osrc)
        if quick:
            osrc = [x for x in osrc if "64" not in x]
        lowertie.tie_pass(ck, [("op%d" % i, x) for i, x in enumerate(osrc)], max_programs=150 if quick else 1500, tag="optie")
    ck.coverage.update({
        "evaluations": tie["jobs"] + (ops or {}).get("programs", 0),
        "distinct_nontrivial": tie["distinct"] + (ops or {}).get("distinct_programs", 0),
        "rule": "gadget tie: builder jobs with gadget requests (eqc addc negc subc udiv sdiv gt cmp mult condswap ext) for "
                "widths 1..9 and 16 over input wires, over mixes of inputs/constants/handles, over constants only, "
                "chained gadgets and malformed requests, dedup on and off; returned wires and built circuit must "
                "equal the extracted Coq model textually; oracle: full truth table of the Rust-built circuit "
                "(<= 16 input bits) against an independent integer evaluation. Operator level (SEARCH, testing not "
                "proof): see operator_search",
        "traces_validated_against_impl": tie["jobs"] - tie["mismatches"],
        "gadget_tie": {k: v for k, v in tie.items() if k != "samples"},
        "operator_search": ops if ops is not None else "not run",
        "input_distribution": tie["distribution"],
    })
    ck.samples = tie["samples"] + ((ops or {}).get("samples", [])[:3])
    return ck.finish(trusted=COMMON_TRUSTED + [
        "modelled: circuit.rs push_eq_circuit, push_adder, push_multiplier, push_addition_circuit, "
        "push_negation_circuit, push_subtraction_circuit, push_unsigned_division_circuit, "
        "push_signed_division_circuit, push_gt_circuit, push_comparator_circuit, push_mux, push_condswap "
        "(Gadgets.v, tied gate for gate); the operator lowering of compile.rs (operand extension, overflow wires, "
        "multiplier array, shifts, casts, the x * c rewrite) is modelled in Compile/Lower.v, tied gate for gate on the one-operator "
        "programs (coverage.lowering_tie) and proved bit-exact for every width (C03_lowering_*, Compile/TSemArith1/2.v); the "
        "operator-level search against Rust's own checked arithmetic remains as the independent oracle",
        "theorems that need builder soundness are stated for every invariant inv with builder_ops_sound inv "
        "(Builder/BuilderSpec.v); its proof for the concrete invariant is Builder/BuilderProofs.v (C04)"])


def replay(path):
    """./check C03 --replay <file>: re-runs the job of a replay file on the current tree.
    builder jobs: both sides + the integer oracle; opprog jobs: the Rust harness (its result
    lists the operand tuples that still differ from Rust's checked arithmetic)."""
    import json
    d = json.load(open(path))
    r = d.get("replay", {})
    job = r.get("job")
    if not job:
        print("replay file has no job (broken obligation):", json.dumps(d.get("broken", d), indent=1)[:2000])
        return 1
    ok_h, out = build_harness()
    if not ok_h:
        print(out[-2000:]); return 1
    if job.startswith("(builder"):
        build_ocaml()
        rs, ml = run_both([job], "c03replay", timeout_per_job=30.0)
        jid = job_id(job)
        rr, mm = rs.get(jid, "(no-result)"), ml.get(jid, "(no-result)")
        same = strip_truth(rr) == mm or (rr.startswith("(harness-crash") and mm == "(model-crash)")
        print("job  :", job[:1000]); print("rust :", strip_truth(rr)[:1500]); print("model:", mm[:1500])
        print("correspondence:", "equal" if same else "DIFFERENT")
        bad = not same
        mt = re.search(r"\(truth ([^()]*)\)$", rr)
        if mt and "output_index" in r:
            cols = re.findall(r'"([01]*)"', mt.group(1))
            j, k = int(r["output_index"]), int(r["assignment_msb_first"], 2)
            now = cols[j][k] if j < len(cols) else "?"
            print(f"output {j} at assignment {r['assignment_msb_first']}: circuit bit now {now}, expected {r['expected_bit']}")
            bad = bad or now != r["expected_bit"]
        print("REPRODUCED" if bad else "not reproduced (fixed)")
        return 1 if bad else 0
    rs = run_jobs(GVRUN, [job], "c03replay", timeout_per_job=120.0)
    res = rs.get(job_id(job), "(no-result)")
    print("program:", r.get("program")); print("options:", r.get("options"), "operands:", r.get("x"), r.get("y"))
    print("recorded: got", r.get("got"), "want", r.get("want")); print("now     :", res[:3000])
    bad = "(bad " in res or not res.startswith("(gates")
    print("REPRODUCED" if bad else "not reproduced (fixed)")
    return 1 if bad else 0
