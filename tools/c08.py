"""C08 — match exhaustiveness verdicts are exact and the first matching arm decides.

Flow (DESIGN.md §4 C08): generated matches (corpus first, then seeded) are
  A. given to the model (`reps` jobs): verified region representatives + an uncovered value,
  B. run as `exhaust` jobs on the real code (check, witnesses, compile, evaluate the circuit
     on the representatives / on all values of small domains) and on the extracted model
     (pattern type check, `uncovered`, `select_arm`); payloads must be equal,
  C. every missing case reported by the real code is decided by the verified `witness_ok`,
  D. oracle: the property itself on the Rust results (verdict vs `covers`, circuit result vs
     first matching arm with its binding, witnesses), which yields the failing input.
A malformed stream (token-level damage of patterns) is run on the real code only: it must
answer without a panic."""
import re
from vlib import *
import gen_match as G


# ------------------------------------------------------------------ corpus

def P_num(z, kind="u", sfx=""): return ("num", kind, z, sfx)
def P_rng(lo, hi, kind="u", sfx="", excl=False): return ("rng", kind, lo, hi, sfx, excl)
W = ("var", "_")


def corpus():
    """hand-written matches: the defects of the unrepaired tree (§6-15, 27, 28 and the ones this
    check found) and boundary cases; every one is also a regression test of the repairs"""
    out = []

    def add(name, ty, pats, structs=None, enums=None, binds=None):
        d = G.Defs()
        for s, fts in (structs or {}).items():
            d.structs[s] = sorted(fts); d.order.append(s)
        for e, vs in (enums or {}).items():
            d.enums[e] = vs; d.order.append(e)
        arms = [(i + 1, (binds or {}).get(i, "-"), p) for i, p in enumerate(pats)]
        out.append((name, {"defs": d, "ty": ty, "arms": arms, "shape": "corpus"}))

    u8, i8, u64, i64 = ("int", "u8"), ("int", "i8"), ("int", "u64"), ("int", "i64")
    add("lit300-u8", u8, [P_num(300), W])                               # §6-15
    add("lit200-i8", i8, [P_num(200), W])                               # §6-28
    add("rng200-255-i8", i8, [P_rng(200, 255), W])
    add("usize-over", ("int", "usize"), [P_rng(0, 4294967296), ("var", "y")])
    add("i8-two-ranges", i8, [P_rng(-128, -1, "s", "i8"), P_rng(0, 127, "s", "i8")])   # §6-27
    add("i8-two-ranges-mixed", i8, [P_rng(-128, -1, "s"), P_rng(0, 127)])
    add("i8-gap", i8, [P_rng(-128, -2, "s"), P_rng(0, 127)])
    add("i8-lits", i8, [P_num(-5, "s"), P_num(5), P_rng(-3, -1, "s"), W])
    add("i64-two-ranges", i64, [P_rng(-2**63, -1, "s"), P_rng(0, 2**63 - 1)])
    add("i64-max", i64, [P_num(2**63 - 1), ("var", "y")])
    add("u64-lit", u64, [P_num(5), ("var", "y")])                        # checker panicked (debug)
    add("u64-full", u64, [P_rng(0, 2**64 - 1)])
    add("u64-max-lit", u64, [P_num(2**64 - 1), W])
    add("u64-gap-at-max", u64, [P_rng(5, 2**64 - 2), P_rng(0, 4, excl=True)])
    add("u8-excl", u8, [P_rng(0, 9, excl=True), P_rng(10, 255)])
    add("u8-excl-gap", u8, [P_rng(0, 9, excl=True), P_rng(11, 255)])
    add("u8-excl-256", u8, [P_rng(0, 255, excl=True)])
    add("u8-empty-range", u8, [P_rng(5, 2), P_rng(0, 255)])
    add("u8-bind", u8, [P_rng(0, 9), ("var", "y")], binds={1: "y"})
    S = {"S": [("a", ("bool",)), ("b", ("bool",))]}
    St = ("st", "S")
    add("rest-unsound", St, [("st", "S", True, [("b", ("b", 1))]), ("st", "S", True, [("a", ("b", 0))])], structs=S)
    add("rest-incomplete", St, [("st", "S", True, [("b", ("b", 1))]),
                                ("st", "S", False, [("a", W), ("b", ("b", 0))])], structs=S)
    add("rest-ok", St, [("st", "S", True, [("a", ("b", 1))]),
                        ("st", "S", False, [("a", ("b", 0)), ("b", W)])], structs=S)
    S2 = {"S": [("a", ("bool",)), ("b", u8)]}
    add("rest-ranges", St, [("st", "S", True, [("b", P_rng(0, 9))]), ("st", "S", True, [("b", P_rng(10, 255))])], structs=S2)
    add("rest-mixed-types", St, [("st", "S", True, [("b", P_rng(0, 9))]), ("st", "S", True, [("a", ("b", 0))])], structs=S2)
    add("dup-field", St, [("st", "S", False, [("a", ("b", 1)), ("a", ("b", 0)), ("b", ("var", "b"))]),
                          ("st", "S", False, [("a", ("var", "a")), ("b", ("var", "b"))])], structs=S2, binds={0: "b", 1: "b"})
    E = {"E": [("A", None), ("B", [u8, ("bool",)])]}
    En = ("en", "E")
    add("enum-first", En, [("et", "E", "B", [P_num(5), ("b", 1)]), ("et", "E", "B", [("var", "y"), W]), ("eu", "E", "A")],
        enums=E, binds={1: "y"})
    add("enum-missing", En, [("et", "E", "B", [P_num(5), ("b", 1)]), ("eu", "E", "A")], enums=E)
    T = ("tup", [u8, ("tup", [("bool",), i8])])
    add("nested-tuple", T, [("tup", [P_rng(0, 9), ("tup", [("b", 1), P_rng(-128, 0, "s", "i8")])]),
                            ("tup", [("var", "y"), ("tup", [W, P_rng(1, 127, "s", "i8")])]),
                            ("tup", [W, ("tup", [("b", 0), ("var", "z")])]),
                            ("tup", [P_rng(10, 255), ("tup", [("b", 1), ("var", "z")])])], binds={1: "y"})
    add("bool", ("bool",), [("b", 1), ("b", 0)])
    add("bool-missing", ("bool",), [("b", 1)])
    add("unreachable", u8, [W, P_num(5)])
    return out


# ------------------------------------------------------------------ malformed stream

def malformed(rng, n, stats):
    """token-level damage of a generated program's arms (never `..0`, cf. §6-13)"""
    out = []
    frags = ["..=", "..", "0..=", "..5", "1..=2..=3", "-5..=5", "5..=-1", "S0 { .. }", "(", ")", "::", "E0::",
             "_ _", "=>", ",,", "true..false", "1u8..=2u16", "-", "256u8", "-129i8", "99999999999999999999",
             "x @ 1", "1 | 2", "&x", "..=5", "5..", "()", "(_)", "(_,)", "[_]", "S0 { a: }", "S0 { : 1 }"]
    for i in range(n):
        m = G.gen_match(rng, {})
        src = G.program_src(rng, m)
        arms = re.findall(r"^        (.*) => ", src, re.M)
        if not arms:
            continue
        a = rng.choice(arms)
        r = rng.random()
        if r < 0.5:
            b = rng.choice(frags)
        elif r < 0.75 and len(a) > 1:
            j = rng.randrange(len(a)); b = a[:j] + a[j + 1:]
        else:
            j = rng.randrange(len(a) + 1); b = a[:j] + rng.choice(frags) + a[j:]
        if re.search(r"\.\.0(?![0-9])", b):
            continue
        src2 = src.replace("        " + a + " => ", "        " + b + " => ", 1)
        out.append('(exhaust z%d (src %s) (vals))' % (i, quote(src2)))
        stats["malformed"] = stats.get("malformed", 0) + 1
    return out


# ------------------------------------------------------------------ helpers

def strip_field(s, name):
    """removes one top-level field `(name ...)` (balanced) from a payload string"""
    i = s.find("(" + name + " ")
    if i < 0:
        i = s.find("(" + name + ")")
        if i < 0:
            return s, None
    depth = 0
    j = i
    instr = False
    while j < len(s):
        c = s[j]
        if instr:
            if c == "\\": j += 1
            elif c == '"': instr = False
        elif c == '"': instr = True
        elif c == "(": depth += 1
        elif c == ")":
            depth -= 1
            if depth == 0:
                break
        j += 1
    field = s[i:j + 1]
    rest = (s[:i].rstrip() + " " + s[j + 1:].lstrip()).strip()
    return rest, field


def split_top(s):
    """top-level forms of an S-expression sequence as strings"""
    out, depth, st, instr = [], 0, None, False
    i = 0
    while i < len(s):
        c = s[i]
        if instr:
            if c == "\\": i += 1
            elif c == '"': instr = False
        elif c == '"':
            instr = True
        elif c == "(":
            if depth == 0: st = i
            depth += 1
        elif c == ")":
            depth -= 1
            if depth == 0:
                out.append(s[st:i + 1])
        elif depth == 0 and not c.isspace():
            j = i
            while j < len(s) and not s[j].isspace() and s[j] not in "()":
                j += 1
            out.append(s[i:j]); i = j; continue
        i += 1
    return out


def field_items(payload, name):
    _, f = strip_field(payload, name)
    if f is None:
        return None
    return split_top(f[1:-1])[1:]


def verdict_of(payload):
    it = field_items(payload, "verdict")
    return it[0] if it else "?"


KEYS = {
    "literal": "pattern-literal-out-of-range",
    "signed": "signed-ranges-not-split",
    "rest": "struct-rest-pattern-exhaustiveness",
    "u64": "u64-match-overflow-panic",
    "dup": "struct-pattern-duplicate-field",
}


def has_rest(p):
    k = p[0]
    if k == "st":
        return bool(p[2]) or any(has_rest(x) for _, x in p[3])
    if k in ("tup",):
        return any(has_rest(x) for x in p[1])
    if k == "et":
        return any(has_rest(x) for x in p[3])
    return False


def has_dup_field(p):
    k = p[0]
    if k == "st":
        fs = [f for f, _ in p[3]]
        return len(set(fs)) != len(fs) or any(has_dup_field(x) for _, x in p[3])
    if k == "tup":
        return any(has_dup_field(x) for x in p[1])
    if k == "et":
        return any(has_dup_field(x) for x in p[3])
    return False


def type_mentions(defs, t, pred, seen=None):
    seen = seen or set()
    k = t[0]
    if pred(t): return True
    if k == "tup": return any(type_mentions(defs, x, pred, seen) for x in t[1])
    if k == "st":
        if t[1] in seen: return False
        seen.add(t[1])
        return any(type_mentions(defs, x, pred, seen) for _, x in defs.structs[t[1]])
    if k == "en":
        if t[1] in seen: return False
        seen.add(t[1])
        return any(type_mentions(defs, x, pred, seen) for _, ts in defs.enums[t[1]] for x in (ts or []))
    return False


def classify(m, what):
    """key of the (repaired) defect class a violation on this match falls into, if any — used
    only to label replays; nothing is suppressed unless known_findings.json lists the key"""
    pats = [p for _, _, p in m["arms"]]
    if any(has_dup_field(p) for p in pats):
        return KEYS["dup"]
    if "crash" in what and type_mentions(m["defs"], m["ty"], lambda t: t == ("int", "u64")):
        return KEYS["u64"]
    if "outside" in what:
        return KEYS["literal"]
    if any(has_rest(p) for p in pats):
        return KEYS["rest"]
    if type_mentions(m["defs"], m["ty"], lambda t: t[0] == "int" and G.is_signed(t[1])):
        return KEYS["signed"]
    return None


# ------------------------------------------------------------------ the check

def run(ck):
    quick = ck.tier == "quick"
    ck.prepare("C08")
    if not (ck.harness_ok and ck.model_ok):
        return ck.finish(trusted=COMMON_TRUSTED)
    rng = ck.rng
    n_gen = 1400 if quick else 40000
    n_mal = 250 if quick else 5000
    stats = {}
    matches = {}
    for name, m in corpus():
        matches["c-" + name] = m
    for i in range(n_gen):
        matches["g%d" % i] = G.gen_match(rng, stats)

    # ---- A. model: verified representatives of every region (+ an uncovered value)
    common = {}
    repjobs = []
    for jid, m in matches.items():
        common[jid] = "%s (ty %s) %s (cap 40000)" % (m["defs"].sx(), G.ty_sx(m["ty"]), G.arms_sx(m))
        repjobs.append("(reps %s %s)" % (jid, common[jid]))
    reps = run_jobs(MODELRUN, repjobs, "c08.reps")
    log(f"[C08] reps done {time.time() - ck.t0:.1f}s")
    jobs, srcs, nvals = [], {}, {}
    undecided = 0
    small_domains = 0
    for jid, m in matches.items():
        r = reps.get(jid, "")
        vals = []
        if r.startswith("(reps undecided)") or not r.startswith("(reps"):
            undecided += 1
        else:
            vs = field_items(r, "reps") or []
            unc = field_items(r, "uncov") or []
            if len(vs) > 40:
                vs = rng.sample(vs, 40)
            vals = [u for u in unc if u != "none"] + vs
        cnt = G.count(m["defs"], m["ty"], 600)
        if cnt <= 600:
            small_domains += 1
            allv = [G.val_sx(v) for v in G.all_values(m["defs"], m["ty"])]
            if len(allv) > 300:
                allv = rng.sample(allv, 300)
            vals = vals + [v for v in allv if v not in set(vals)]
        src = G.program_src(rng, m)
        srcs[jid] = src
        nvals[jid] = vals
        jobs.append("(exhaust %s (src %s) %s (vals %s))" % (jid, quote(src), common[jid], " ".join(vals)))

    # ---- B. both sides
    rs, ml = run_both(jobs, "c08", timeout_per_job=1.0)
    log(f"[C08] exhaust jobs done {time.time() - ck.t0:.1f}s")
    mism = 0
    useful_cmp = [0, 0]
    verdicts = {}
    wjobs, wmeta = [], {}
    force_jobs = []
    evaluations = 0
    arm_hits = 0
    for jid, m in matches.items():
        r, mo = rs.get(jid, "(no-result)"), ml.get(jid, "(no-result)")
        r_cmp, missing = strip_field(r, "missing")
        m_cmp, uncov = strip_field(mo, "uncov")
        m_cmp, umissing = strip_field(m_cmp, "umissing")
        # the Gallina model of the REAL algorithm (Exhaust/Useful.v, proved sound and complete) against the real one:
        # same witnesses (sorted), in particular the same verdict
        if umissing is not None and umissing != "(umissing nofuel)":
            rv0 = verdict_of(r)
            if rv0 == "nonexh" or rv0 == "accepted":
                want = "(umissing" + ((" " + missing[len("(missing "):-1]) if missing else "") + ")"
                useful_cmp[0] += 1
                if " ".join(umissing.split()) != " ".join(want.split()):
                    useful_cmp[1] += 1
                    if useful_cmp[1] <= 3:
                        ck.violation("the model of check.rs's usefulness algorithm (Exhaust/Useful.v) and the real checker "
                                     "report different missing cases", {"program": srcs[jid], "rust_missing": missing,
                                     "model_missing": umissing, "correspondence": "Exhaust/Useful.v check_exhaustive vs "
                                     "check.rs check_exhaustiveness (witness lists, sorted)"}, found_input=False)
        rv, mv = verdict_of(r), verdict_of(mo)
        verdicts[rv.split(" ")[0].strip("()") + ("" if not rv.startswith("(err") else ":" + rv[5:-1])] = \
            verdicts.get(rv.split(" ")[0].strip("()") + ("" if not rv.startswith("(err") else ":" + rv[5:-1]), 0) + 1
        base = {"program": srcs[jid], "job_common": common[jid], "rust": r, "model": mo}
        rruns = field_items(r, "run") or []
        mruns = field_items(mo, "run") or []
        evaluations += len(rruns)
        # --- D. oracle on the real code's results
        if rv.startswith("(crash") or rv == "crash" or "crash" in rruns or "compile-crash" in rruns:
            what = "the checker/compiler panics on a match (crash %s)" % rv
            ck.violation(what, base, key=classify(m, "crash"))
        elif mv == "undecided":
            pass
        elif rv == "accepted" and mv == "nonexh":
            unc = (field_items(mo, "uncov") or ["?"])[0]
            res = "?"
            if unc in nvals[jid] and nvals[jid].index(unc) < len(rruns):
                res = rruns[nvals[jid].index(unc)]
            what = ("accepted as exhaustive, but the arms do not cover the type: no arm matches %s; "
                    "the compiled circuit returns %s for it" % (unc, res))
            ck.violation(what, dict(base, uncovered_value=unc, circuit_result=res), key=classify(m, what))
        elif rv == "nonexh" and mv == "accepted":
            what = "rejected as non-exhaustive (missing: %s) although the arms cover every value of the type" % missing
            ck.violation(what, base, key=classify(m, what))
        elif rv == "accepted" and mv == "(err type)":
            # the model's (repaired) pattern type check refuses a pattern the real code accepts:
            # look for the behavioural consequence with the type check of the model switched off
            force_jobs.append(jobs[list(matches).index(jid)].replace("(exhaust %s " % jid, "(exhaust %s (force) " % jid, 1))
        elif rv == "accepted" and mv == "accepted":
            for i, (a, b) in enumerate(zip(rruns, mruns)):
                if a == b:
                    arm_hits += 1
                    continue
                what = ("for the scrutinee %s the compiled circuit returns %s, the first matching arm (with its "
                        "binding) gives %s" % (nvals[jid][i], a, b))
                ck.violation(what, dict(base, scrutinee=nvals[jid][i], circuit_result=a, expected=b),
                             key=classify(m, what))
                break
        # --- C. witnesses reported by the real code
        if rv == "nonexh":
            ws = field_items(r, "missing") or []
            single = []
            for w in ws:
                parts = split_top(w[1:-1])[1:]
                if len(parts) != 1:
                    what = "a reported missing case is not one pattern of the scrutinee's type: %s" % w
                    ck.violation(what, base, key=classify(m, what))
                else:
                    single.append(parts[0])
            if len(single) > 10:
                single = rng.sample(single, 10)
            if single:
                wjobs.append("(witness %s %s (ws %s))" % (
                    jid, common[jid].replace("(cap 40000)", "(cap 15000)"), " ".join(single)))
                wmeta[jid] = single
        # --- correspondence
        if mv != "undecided" and r_cmp != m_cmp:
            mism += 1
            if mism <= 5:
                ck.violation("model and implementation disagree (parsed patterns / verdict / selected arms)",
                             dict(base, rust_cmp=r_cmp, model_cmp=m_cmp, correspondence="exhaust jobs"),
                             found_input=False)
    # forced re-runs: the pattern semantics of the model on programs its type check refuses
    if force_jobs:
        fm = run_jobs(MODELRUN, force_jobs, "c08.force")
        for jid, mo in fm.items():
            m = matches[jid]
            r = rs[jid]
            rruns = field_items(r, "run") or []
            mruns = field_items(mo, "run") or []
            base = {"program": srcs[jid], "job_common": common[jid], "rust": r, "model_forced": mo}
            mv = verdict_of(mo)
            found = False
            if mv == "nonexh":
                unc = (field_items(mo, "uncov") or ["?"])[0]
                what = ("a pattern outside the scrutinee's type is accepted and the match is taken as exhaustive, "
                        "but no arm matches %s" % unc)
                ck.violation(what, base, key=classify(m, what)); found = True
            else:
                for i, (a, b) in enumerate(zip(rruns, mruns)):
                    if a != b:
                        what = ("a pattern outside the scrutinee's type (or naming a field twice) is accepted and "
                                "compiled to a truncated/ambiguous comparison: for the scrutinee %s the circuit returns "
                                "%s, the first matching arm gives %s" % (nvals[jid][i], a, b))
                        ck.violation(what, dict(base, scrutinee=nvals[jid][i], circuit_result=a, expected=b),
                                     key=classify(m, "outside"))
                        found = True
                        break
            if not found:
                ck.violation("a pattern that is not well-typed for the scrutinee (number outside the type, field "
                             "twice, ...) is accepted; no scrutinee value with a wrong result found",
                             base, key=classify(m, "outside"), found_input=False)
    # witnesses
    log(f"[C08] oracle pass done {time.time() - ck.t0:.1f}s")
    wres = run_jobs(MODELRUN, wjobs, "c08.wit") if wjobs else {}
    log(f"[C08] witness jobs done {time.time() - ck.t0:.1f}s")
    nwit = 0
    wundecided = 0
    for jid, ws in wmeta.items():
        res = (field_items(wres.get(jid, ""), "wok") or [])
        m = matches[jid]
        for w, ok in zip(ws, res):
            nwit += 1
            if ok == "u":
                wundecided += 1
            if ok == "1" or ok == "u":
                continue
            what = ("the reported missing case %s %s" % (
                w, "is not a pattern of the scrutinee's type" if ok == "illtyped"
                else "denotes no value of the type or also denotes a value that some arm matches"))
            ck.violation(what, {"program": srcs[jid], "job_common": common[jid], "rust": rs[jid], "witness": w,
                                "witness_ok": ok}, key=classify(m, what))
    ck.obligation("correspondence: parsed patterns, accept/reject verdict and the arm (with binding) selected by the "
                  "compiled circuit equal the model on every generated match", mism == 0, f"{mism} differing jobs")
    ck.obligation("correspondence Exhaust/Useful.v = check.rs usefulness: the model of the real exhaustiveness algorithm "
                  "(proved sound and complete, UsefulProofs.v) returns exactly the real checker's missing cases on every "
                  "generated well-typed match", useful_cmp[1] == 0 and useful_cmp[0] > 0,
                  f"{useful_cmp[1]} of {useful_cmp[0]} differ")
    ck.coverage["useful_model_tied_matches"] = useful_cmp[0]
    ck.obligation("the verified procedure decided at least 98% of the generated matches (the others exceed the cap on "
                  "region products and are skipped, never guessed)", undecided * 50 <= len(matches),
                  f"{undecided} undecided of {len(matches)}")
    # ---- malformed stream: the real code only
    mal = malformed(rng, n_mal, stats)
    mr = run_jobs(GVRUN, mal, "c08.mal", timeout_per_job=1.0)
    mal_verdicts = {}
    for j in mal:
        jid = job_id(j)
        r = mr.get(jid, "(no-result)")
        v = verdict_of(r)
        mal_verdicts[v] = mal_verdicts.get(v, 0) + 1
        if "crash" in v or r.startswith("(abort") or r.startswith("(timeout") or r == "(no-result)":
            src = sx_parse(j)[0][2][1][1]
            if re.search(r"\.\.0(?![0-9])", src):
                continue
            ck.violation("the front end panics on a damaged match arm (%s)" % v, {"job": j, "rust": r})
    distinct = len(set(common.values()))
    ck.coverage.update({
        "evaluations": len(jobs) + evaluations + len(mal),
        "distinct_nontrivial": distinct,
        "rule": "generated matches: exact partitions of the scrutinee type (integer domains cut at MIN/MAX/0/-1/"
                "2^k boundaries into adjacent ranges and literals, products for tuples/structs/enum payloads, `..`, "
                "shorthand fields, binders), the same with dropped arms / bounds shifted by one / duplicated arms / a "
                "wildcard in the middle, arms in shuffled order; random arm lists with and without a final wildcard "
                "(empty and overlapping ranges, unsigned literals on signed scrutinees); ill-typed patterns (numbers "
                "outside the type, signed literal on unsigned, arity, unknown/missing/duplicate fields, unit vs tuple "
                "variants); scrutinee values = the verified region representatives (<= 40 sampled) + the model's "
                "uncovered value + all values for domains <= 600; distinct by structured job",
        "traces_validated_against_impl": len(jobs) - mism,
        "input_distribution": stats,
        "rust_verdicts": verdicts,
        "malformed_verdicts": mal_verdicts,
        "circuit_evaluations": evaluations,
        "circuit_results_equal_first_matching_arm": arm_hits,
        "witnesses_checked": nwit - wundecided,
        "witnesses_undecided": wundecided,
        "small_domains_enumerated": small_domains,
        "undecided": undecided,
    })
    # at most two replays per kind of violation, so that every kind shows among the reported lines
    seen_kinds, kept, later = {}, [], []
    for v in ck.violations:
        kind = re.sub(r"\(.*", "", v[0])[:60]
        seen_kinds[kind] = seen_kinds.get(kind, 0) + 1
        (kept if seen_kinds[kind] <= 2 else later).append(v)
    ck.violations = kept + later
    ck.samples = [jobs[0][:600], jobs[len(jobs) // 2][:600], jobs[-1][:600]]
    return ck.finish(trusted=COMMON_TRUSTED + [
        "modelled: the pattern language and its meaning (Exhaust/Pat.v), the pattern type check of check.rs:1593-1830 "
        "as repaired (bounds inside the type, no field twice); NOT modelled: Rust's usefulness algorithm itself — its "
        "verdict and witnesses are validated per generated match against the verified decision procedures; the "
        "lowering of patterns to comparator circuits is tied by evaluation of the compiled circuit on the verified "
        "region representatives (and on all values of small domains), not by a lowering proof",
        "the Python printer of a match to source text and to the structured job (tied by the (pats ..) echo of the "
        "parser's output on every job)"],
        extra_assumptions=["patterns do not bind one name twice; scrutinee types are bool, sized integers, tuples, "
                           "structs and enums (arrays cannot be matched)",
                           "`a..0` ranges are not generated (parser panic, finding of C07)"])


def replay(path):
    """./check C08 --replay <file>: re-runs the recorded match on the real code and on the model"""
    import json
    with BuildLock():           # the replay must see the current working tree of the repo
        ok, out = build_harness()
        ok2, out2 = build_ocaml()
    if not (ok and ok2):
        print("build failed:", (out + out2)[-2000:])
        return 2
    d = json.load(open(path))
    r = d.get("replay", {})
    if "job" in r:
        job = r["job"]
    else:
        vals = r.get("scrutinee") or r.get("uncovered_value") or ""
        job = "(exhaust replay (src %s) %s (vals %s))" % (quote(r.get("program", "")), r.get("job_common", ""), vals)
    rs = run_jobs(GVRUN, [job], "c08.replay.rs")
    print("what :", d.get("what"))
    print("rust :", rs.get(job_id(job)))
    if "(defs" in job:
        ml = run_jobs(MODELRUN, [job], "c08.replay.ml")
        print("model:", ml.get(job_id(job)))
    return 0
