"""Hand-written construct-coverage programs, always run first by the program-level checks (C01, C02, C05, C06, C14,
C15).  Every language construct the compiler lowers appears at least once in a position where a wrong offset, width,
order, scope or merge changes the result; literals carry suffixes (the literal-inference defect is a recorded C05
finding), some programs are laid out over several lines (panic locations have distinct start/end lines).  The expected
results are NOT written here: they are computed by the specification interpreter Lang/Sem.v on every run."""

VALUE = [
    # --- tuples: reads and writes at every index, nested
    ("tuple-assign-index-2-3", "pub fn main(x: u8, y: u16) -> (u8, u16, u8, u16) { let mut t = (1u8, 2u16, 3u8, 4u16); t.2 = x; t.3 = t.3 + y; t }"),
    ("tuple-assign-each-index", "pub fn main(a: u8, b: u8, c: u8, d: u8) -> (u8, bool, u16, u8, i8) { let mut t = (0u8, false, 0u16, 0u8, 0i8); t.0 = a; t.1 = a > b; t.2 = (b as u16) * 3u16; t.3 = c ^ d; t.4 = d as i8; t }"),
    ("tuple-assign-nested", "pub fn main(i: usize, x: u8) -> [(bool, u16, u8); 3] { let mut a = [(false, 7u16, 1u8), (true, 8u16, 2u8), (false, 9u16, 3u8)]; a[i].2 = x; a[1].1 = a[1].1 + (x as u16); a }"),
    ("tuple-in-tuple-assign", "pub fn main(x: u8, y: u8) -> ((u8, u8, u8), (u16, (u8, u8, u8))) { let mut t = ((1u8, 2u8, 3u8), (4u16, (5u8, 6u8, 7u8))); t.1.1.2 = x; t.0.1 = y; t.1.1.0 += x; t }"),
    ("tuple-read-each-index", "pub fn main(t: (u8, bool, u16, i8, u32)) -> (u32, i8, u16, bool, u8) { (t.4, t.3, t.2, t.1, t.0) }"),
    # --- structs
    ("struct-assign-fields", "struct P { a: u8, b: u16, c: bool, d: u8 }\npub fn main(x: u8, y: u8) -> P { let mut p = P { a: 1u8, b: 2u16, c: false, d: 3u8 }; p.d = x; p.b = (y as u16) + p.b; p.c = x > y; p }"),
    ("struct-literal-field-order", "struct P { a: u8, b: u16, c: u8 }\npub fn main(x: u8, y: u16, z: u8) -> (P, u8) { let p = P { c: z, a: x, b: y }; let q = P { b: y + 1u16, c: x, a: z }; (p, q.a ^ q.c) }"),
    ("struct-nested-access", "struct In { v: (u8, u8), w: [u8; 2] }\nstruct Out { i: In, k: u8 }\npub fn main(a: u8, b: u8) -> (u8, u8, u8) { let mut o = Out { i: In { v: (a, b), w: [b, a] }, k: 9u8 }; o.i.w[1] = o.k; o.i.v.1 = a ^ b; (o.i.v.1, o.i.w[1], o.i.w[0]) }"),
    # --- arrays
    ("array-const-index-each", "pub fn main(a: [u16; 4]) -> (u16, u16, u16, u16) { (a[3], a[1], a[0], a[2]) }"),
    ("array-dynamic-read", "pub fn main(a: [u16; 5], i: usize) -> u16 { a[i] }"),
    ("array-dynamic-write", "pub fn main(a: [u16; 5], i: usize, v: u16) -> [u16; 5] { let mut r = a; r[i] = v; r }"),
    ("array-of-arrays", "pub fn main(a: [[u8; 3]; 2], i: usize, j: usize) -> (u8, [[u8; 3]; 2]) { let mut m = a; m[i][j] = m[1][2] ^ 255u8; (a[i][j], m) }"),
    ("array-repeat-and-range", "pub fn main(x: u8) -> ([u8; 4], [u8; 3], u8) { let r = [x; 4]; let g = [2u8, 3u8, 4u8]; let mut s = 0u8; for e in 1u8..4u8 { s = s ^ (e & x); } (r, g, s) }"),
    ("array-eq", "pub fn main(a: [u8; 3], b: [u8; 3]) -> (bool, bool) { (a == b, a != [1u8, 2u8, 3u8]) }"),
    # --- operators: every op, signed and unsigned, op-assign
    ("ops-unsigned", "pub fn main(a: u8, b: u8) -> (u8, u8, u8, u8, u8, u8) { (a & b, a | b, a ^ b, !a, a >> 3u8, a << 1u8) }"),
    ("ops-arith-u16", "pub fn main(a: u16, b: u16) -> (u16, u16, u16, u16, u16) { (a + b, a - b, a * b, a / b, a % b) }"),
    ("ops-arith-i8", "pub fn main(a: i8, b: i8) -> (i8, i8, i8, i8, i8, i8) { (a + b, a - b, a * b, a / b, a % b, -a) }"),
    ("ops-compare-signed", "pub fn main(a: i16, b: i16) -> (bool, bool, bool, bool, bool, bool) { (a < b, a <= b, a > b, a >= b, a == b, a != b) }"),
    ("ops-compare-unsigned", "pub fn main(a: u32, b: u32) -> (bool, bool, bool, bool) { (a < b, a <= b, a > b, a >= b) }"),
    ("ops-shift-signed", "pub fn main(a: i8, s: u8) -> (i8, i8) { (a >> s, a << s) }"),
    ("op-assign-all", "pub fn main(a: u8, b: u8) -> u8 { let mut x = a; x += b; x -= 1u8; x *= 2u8; x /= 3u8; x %= 7u8; x &= 254u8; x |= b; x ^= a; x <<= 1u8; x >>= 2u8; x }"),
    ("div-literal-pow2-signed", "pub fn main(a: i8, b: i64) -> (i8, i8, i8, i64, i64) { (a / 2i8, a / 4i8, a / 64i8, b / 2i64, b / 1024i64) }"),
    ("div-literal-unsigned", "pub fn main(a: u8) -> (u8, u8, u8, u8) { (a / 2u8, a / 3u8, a / 16u8, a % 8u8) }"),
    ("mul-literal", "pub fn main(a: u8, b: i8) -> (u8, u8, u8, i8, i8) { (a * 3u8, 5u8 * a, a * 0u8, b * 3i8, 2i8 * b) }"),
    ("casts-widen-narrow", "pub fn main(a: u8, b: i8, c: u64, d: i32) -> (u16, i16, u64, i64, u8, i8, u32, usize, bool) { (a as u16, b as i16, b as u64, b as i64, c as u8, d as i8, d as u32, a as usize, true) }"),
    ("bool-ops", "pub fn main(a: bool, b: bool, c: bool) -> (bool, bool, bool, bool, bool, bool) { (a & b, a | c, a ^ b, !c, a == b, a != c) }"),
    ("xor-not-identities", "pub fn main(a: u8, b: u8) -> (u8, u8, u8, u8, u8) { let m = !a ^ b; let acc = !b; ((!a ^ b) ^ a, m ^ a, (acc ^ a) ^ b, a ^ (!a ^ b), (a ^ b) ^ !a) }"),
    ("xor-not-identities-bool", "pub fn main(a: bool, b: bool, c: bool) -> (bool, bool, bool, bool) { ((!a ^ b) ^ a, (b ^ !a) ^ a, a ^ (b ^ !a), ((a & b) ^ (a & c)) ^ (a & (b ^ c))) }"),
    ("and-distribution", "pub fn main(a: u8, b: u8, c: u8) -> (u8, u8, u8, u8) { let p = a & c; let q = a & (b ^ c); let r = (b ^ c) & a; let s = (a & b) ^ (a & c); (p, q, r, s) }"),
    ("and-both-orders", "pub fn main(a: u8, b: u8) -> (u8, u8, u8) { (a & b, b & a, (a & b) ^ (b & a)) }"),
    ("short-circuit", "pub fn main(a: u8, b: u8) -> (bool, bool) { (b != 0u8 && a / b > 1u8, b == 0u8 || a % b == 0u8) }"),
    # --- control flow
    ("if-chain-several-vars", "pub fn main(v: u8, w: u8) -> (u8, u8, u8, u8) { let mut lo = 0u8; let mut hi = 0u8; let mut sum = 0u8; let mut cnt = 0u8; if v < 10u8 { lo = v; cnt = 1u8; } else if v < 100u8 { hi = v; sum = w; cnt = 2u8; } else { lo = w; hi = w; sum = v ^ w; cnt = 3u8; } (lo, hi, sum, cnt) }"),
    ("if-value-and-effect", "pub fn main(c: bool, a: u16, b: u16) -> (u16, u16) { let mut t = a; let r = if c { t = t ^ b; a & b } else { t = t | b; a ^ b }; (r, t) }"),
    ("if-condition-with-effect", "pub fn main(x: u8) -> (u8, u8) { let mut acc = x; let mut calls = 0u8; let r = if { acc = acc ^ 1u8; calls = calls + 1u8; acc > 10u8 } { acc = acc ^ 100u8; 1u8 } else { acc = acc ^ 50u8; 2u8 }; (acc ^ r, calls) }"),
    ("if-mut-main-param", "pub fn main(mut x: u8, y: u8) -> (u8, u8) { if y > 10u8 { x = 100u8; } let z = x; if y > 200u8 { x = 1u8; } else { x = x ^ 3u8; } (z, x) }"),
    ("match-mut-main-param", "pub fn main(mut x: u8, mut t: (u8, u8), y: u8) -> (u8, (u8, u8)) { match y { 0u8 => { x = 7u8; } 1u8..10u8 => { t.1 = y; } _ => { t.0 = x; x = y; } } (x, t) }"),
    ("match-overlapping-arms", "pub fn main(x: u8) -> (u8, u8) { let a = match x { 0u8..=10u8 => 1u8, 5u8..=20u8 => 2u8, 15u8..=30u8 => 3u8, _ => 4u8 }; let b = match (x > 3u8, x) { (true, 7u8) => 100u8, (true, y) => y, (_, z) => z ^ 1u8 }; (a, b) }"),
    ("match-signed-ranges", "pub fn main(x: i8) -> u8 { match x { -128i8..=-100i8 => 1u8, -99i8..=-1i8 => 2u8, 0i8 => 3u8, 1i8..=126i8 => 4u8, 127i8 => 5u8 } }"),
    ("match-unsigned-range-on-signed", "pub fn main(x: i8, y: i16) -> (u8, u8) { (match x { 0..=9 => 1u8, 10..100 => 2u8, _ => 3u8 }, match y { 0..=255 => 1u8, _ => 2u8 }) }"),
    ("match-enum-bindings", "enum E { A, B(u8), C(u16, bool), D(u8, u8, u8) }\npub fn main(e: E) -> u16 { match e { E::A => 1u16, E::B(0u8) => 2u16, E::B(v) => v as u16, E::C(w, true) => w, E::C(_, false) => 3u16, E::D(a, _, c) => (a as u16) ^ (c as u16) } }"),
    ("match-struct-patterns", "struct S { a: u8, b: bool, c: u16 }\npub fn main(s: S) -> u16 { match s { S { a: 0u8, b: true, c } => c, S { c: 7u16, .. } => 1u16, S { b: false, a, .. } => a as u16, S { a: 1u8..5u8, b: _, c: _ } => 2u16, _ => 3u16 } }"),
    ("match-nested-tuple", "pub fn main(t: (u8, (bool, i8)), d: u8) -> u8 { match t { (0u8, (true, _)) => 1u8, (n, (false, -3i8..=2i8)) => n ^ d, (a, (_, b)) => a ^ (b as u8) } }"),
    ("for-nested-loops", "pub fn main(a: [[u8; 2]; 3]) -> (u8, u8) { let mut s = 0u8; let mut c = 0u8; for row in a { for e in row { s = s ^ e; c = c + 1u8; } let c = 0u8; s = s ^ c; } (s, c) }"),
    ("for-tuple-pattern", "pub fn main(a: [(u8, bool); 3]) -> u8 { let mut s = 0u8; for (v, f) in a { if f { s = s ^ v; } } s }"),
    ("let-patterns", "struct S { a: u8, b: (u8, u16) }\npub fn main(s: S, t: (u8, (bool, u8))) -> (u8, u16, bool) { let S { a, b: (x, y) } = s; let (p, (q, r)) = t; (a ^ x ^ p ^ r, y, q) }"),
    ("calls-nested-args-order", "fn f(a: u8, b: u8, c: u8) -> u8 { (a & 240u8) | ((b ^ c) & 15u8) }\nfn g(c: u8, a: u8) -> u8 { f(c, a, c ^ a) }\npub fn main(a: u8, b: u8, c: u8) -> (u8, u8, u8) { (f(c, b, a), g(a, b), f(g(b, c), a, f(a, a, b))) }"),
    ("block-values-shadowing", "pub fn main(a: u8, b: u8) -> (u8, u8) { let x = { let a = b; let b = a ^ 1u8; a ^ b }; let y = { let x = a; let z = { let x = b; x ^ 2u8 }; z ^ x }; (x, y) }"),
    ("consts", "const K: u8 = 7u8;\nconst L: u16 = 300u16;\npub fn main(a: u8) -> (u8, u16) { (a ^ K, (a as u16) + L) }"),
    ("const-shadowed-by-main-param", "const C: u8 = 2u8;\npub fn main(C: bool, x: u8) -> (bool, u8) { (C, x) }"),
    ("const-shadowed-by-main-param-same-type", "const C: u8 = 2u8;\nconst D: u8 = 9u8;\npub fn main(C: u8, x: u8) -> (u8, u8) { (C ^ x, D) }"),
    ("const-shadowed-by-caller-local", "const C: u8 = 2u8;\nfn f(y: u8) -> u8 { y ^ C }\npub fn main(x: u8) -> (u8, u8) { let C = 5u8; (f(x), C) }"),
    ("const-shadowed-by-caller-local-other-type", "const C: u8 = 2u8;\nfn f(y: u8) -> u8 { y ^ C }\npub fn main(x: u8) -> (u8, bool) { let C = x > 3u8; (f(x), C) }"),
    ("const-shadowed-in-callee", "const C: u8 = 2u8;\nfn f(C: u8) -> u8 { C ^ 1u8 }\nfn g(y: u8) -> u8 { let C = y; f(C ^ 8u8) ^ C }\npub fn main(x: u8) -> (u8, u8, u8) { (f(x), g(x), C) }"),
    ("caller-local-invisible-in-callee", "fn f(y: u8) -> u8 { let t = y ^ 1u8; t }\npub fn main(x: u8, t: u8) -> (u8, u8) { let y = t; (f(x), y ^ t) }"),
    ("assign-value-assigns-same-variable", "pub fn main(mut a: [u32; 3], v: u32) -> [u32; 3] { a[1usize] = { a[2usize] = v; 0u32 }; a }"),
    ("assign-value-assigns-same-tuple", "pub fn main(v: u8) -> (u8, u8, u8) { let mut t = (1u8, 2u8, 3u8); t.0 = { t.2 = v; t.1 = t.1 ^ v; 9u8 }; t }"),
    ("op-assign-value-assigns-same-variable", "pub fn main(v: u8) -> u8 { let mut x = v; x ^= { x = x ^ 255u8; 1u8 }; x }"),
    ("zero-sized-values", "pub fn main(a: u8, _u: (), _e: [u8; 0], c: u8) -> (u8, (), u8) { (a, (), c) }"),
    ("zero-sized-middle-party", "pub fn main(a: u8, _b: (), c: u8) -> u8 { a ^ c }"),
]

# programs whose interesting behaviour is the panic record (reason, location); several lines on purpose
PANIC = [
    ("panic-multi-line-expr", "pub fn main(x: u8, y: u8) -> u8 {\n    (\n        x   + y\n    ) + 1u8\n}"),
    ("panic-multi-line-nested", "pub fn main(a: [u8; 3], i: usize, d: u8) -> u8 {\n    let q = a[\n        i\n    ] / d;\n    let r = a[0] +\n        a[1] +\n        a[2];\n    q ^ r\n}"),
    ("panic-in-if-condition", "pub fn main(x: u8, d: u8) -> u8 { if x / d < 10u8 { 1u8 } else { 2u8 } }"),
    ("panic-in-if-condition-gt", "pub fn main(x: u8, d: u8) -> u8 { if x / d > 10u8 { 1u8 } else { 2u8 } }"),
    ("panic-repeated-after-branch", "pub fn main(b: bool, x: u8, d: u8) -> u8 { let y = if b { x / d } else { 0u8 }; let z = x / d; y ^ z }"),
    ("panic-repeated-after-short-circuit", "pub fn main(b: bool, x: u8, d: u8) -> (bool, u8) { let p = b && (x / d > 1u8); (p, x / d) }"),
    ("panic-repeated-after-match", "pub fn main(k: u8, x: u8, y: u8) -> u8 { let a = match k { 0u8 => x + y, 1u8 => 1u8, _ => 2u8 }; let b = x + y; a ^ b }"),
    ("panic-first-wins", "pub fn main(a: [u8; 2], i: usize, x: u8, d: u8) -> u8 { let p = x + 200u8; let q = a[i]; let r = x / d; p ^ q ^ r }"),
    ("panic-in-untaken-branch", "pub fn main(c: bool, x: u8, d: u8) -> u8 { if c { x / d } else { x } }"),
    ("panic-in-callee", "fn div(a: u8, b: u8) -> u8 { a / b }\npub fn main(c: bool, x: u8, d: u8) -> u8 { if c { div(x, d) } else { div(x, 1u8) } }"),
    ("panic-in-loop", "pub fn main(a: [u8; 3], d: [u8; 3]) -> u8 { let mut s = 0u8; for i in 0usize..3usize { s = s ^ (a[i] / d[i]); } s }"),
    ("panic-three-way-chain", "pub fn main(c: bool, d: bool, arr: [u8; 3]) -> u8 { if c { arr[0] } else if d { arr[1] } else { arr[2] } }"),
    ("panic-neg-min-and-div", "pub fn main(a: i8, b: i8) -> (i8, i8) { (-a, a / b) }"),
    ("panic-shift-amount", "pub fn main(a: u8, s: u8) -> (u8, u8) { (a << s, a >> s) }"),
    ("panic-nested-index-assign-first-failure", "pub fn main(z: u8, w: usize) -> [[u8; 2]; 2] { let mut a = [[1u8, 2u8], [3u8, 4u8]]; let i = w | 2usize; let k = z - z; a[i][(z / k) as usize] = z; a }"),
    ("panic-nested-index-assign-second-failure", "pub fn main(z: u8, w: usize) -> [[u8; 2]; 2] { let mut a = [[1u8, 2u8], [3u8, 4u8]]; let i = w & 1usize; let k = z - z; a[i][(z / k) as usize] = z; a }"),
    ("panic-nested-index-read-first-failure", "pub fn main(z: u8, w: usize) -> u8 { let a = [[1u8, 2u8], [3u8, 4u8]]; let i = w | 2usize; let k = z - z; a[i][(z / k) as usize] }"),
    ("panic-assign-value-before-index", "pub fn main(z: u8, w: usize) -> [u8; 2] { let mut a = [1u8, 2u8]; let i = w | 2usize; let k = z - z; a[i] = z / k; a }"),
    ("panic-three-level-assign", "pub fn main(z: u8, w: usize) -> [[[u8; 2]; 2]; 2] { let mut a = [[[1u8, 2u8], [3u8, 4u8]], [[5u8, 6u8], [7u8, 8u8]]]; let k = z - z; a[w & 1usize][w | 2usize][(z / k) as usize] = z; a }"),
    ("panic-cast-free", "pub fn main(a: i16) -> (u8, i8) { (a as u8, a as i8) }"),
]


# a mutable variable that SHADOWS a same-named binding of an enclosing scope (parameter, outer let, loop variable) and
# is assigned in a branch / arm / operand / loop body: the merge must pick the innermost binding (round-8 seed C14-r8)
VALUE += [
    ("shadow-param-if", "pub fn main(c: bool, x: u8) -> u8 { let mut x = x; if c { x = x + 1u8; } x }"),
    ("shadow-param-if-else", "pub fn main(c: bool, x: u8) -> u8 { let mut x = x; if c { x = x ^ 1u8; } else { x = x ^ 2u8; } x }"),
    ("shadow-param-match", "pub fn main(sel: u8, acc: u8) -> u8 { let mut r = 0u8; { let mut acc = acc; match sel { 0u8 => { acc = acc ^ 10u8; } 1u8 => { acc = acc ^ 20u8; } _ => {} } r = acc; } r }"),
    ("shadow-outer-let-block", "pub fn main(c: bool, x: u8) -> (u8, u8) { let y = x; let mut r = 0u8; { let mut y = y ^ 1u8; if c { y = y ^ 4u8; } r = y; } (r, y) }"),
    ("shadow-twice", "pub fn main(c: bool, d: bool, x: u8) -> (u8, u8) { let mut x = x; let mut r = 0u8; { let mut x = x ^ 8u8; if d { x = x ^ 16u8; } r = x; } if c { x = x ^ 1u8; } (x, r) }"),
    ("shadow-in-and-operand", "pub fn main(c: bool, x: u8) -> (bool, u8) { let mut x = x; let b = c && ({ x = x ^ 3u8; x > 4u8 }); (b, x) }"),
    ("shadow-in-loop-if", "pub fn main(c: [bool; 3], x: u8) -> u8 { let mut x = x; for b in c { if b { x = x ^ 5u8; x = (x << 1u8) | (x >> 7u8); } } x }"),
    ("shadow-loop-variable", "pub fn main(c: bool, a: [u8; 2]) -> u8 { let mut s = 0u8; for e in a { let mut e = e; if c { e = e ^ 255u8; } s = s ^ e; } s }"),
    ("shadow-other-type", "pub fn main(c: bool, x: u8) -> u16 { let mut x = (x as u16) << 4u8; if c { x = x | 3u16; } x }"),
    ("shadow-immutable-then-mutable", "pub fn main(c: bool, x: u8) -> u8 { let x = x ^ 1u8; let mut r = 0u8; { let mut x = x; if c { x = x ^ 2u8; } r = x; } r ^ x }"),
    ("shadow-callee-param", "fn f(c: bool, x: u8) -> u8 { let mut x = x; if c { x = x ^ 9u8; } x }\npub fn main(c: bool, x: u8) -> u8 { f(c, x) ^ f(!c, x) }"),
    ("shadow-const", "const K: u8 = 7u8;\npub fn main(c: bool, x: u8) -> u8 { let mut K = K ^ x; if c { K = K ^ 1u8; } K }"),
]


def all_sources():
    return list(VALUE) + list(PANIC)
