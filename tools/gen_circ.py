"""Generators for circuit values (C16, C10, C11)."""

HUGE = [4294967295, 4294967296, 18446744073709551615, 9223372036854775807]


def rand_bits(rng, n):
    return "".join(rng.choice("01") for _ in range(n))


def fmt_gate(g):
    return "(" + " ".join(str(x) for x in g) + ")"


def fmt_ssa_fields(ig, gates, outs):
    return "(ig %s) (gates %s) (outs %s)" % (
        " ".join(map(str, ig)), " ".join(fmt_gate(g) for g in gates), " ".join(map(str, outs)))


def fmt_ins(ins):
    return "(ins %s)" % " ".join('"%s"' % b for b in ins)


def valid_ssa(rng, max_parties=3, max_bits=4, max_gates=14, max_outs=6, style=None):
    """A valid SSA circuit built topologically, with adversarial structure:
    repeated operands, dead gates, dead inputs, outputs that are inputs / repeated."""
    while True:
        ig = [rng.randint(0, max_bits) for _ in range(rng.randint(1, max_parties))]
        if sum(ig) > 0:
            break
    n_in = sum(ig)
    style = style or rng.choice(["uniform", "recent", "fanout", "chain"])
    gates = []
    hot = rng.randrange(n_in)
    for k in range(rng.randint(0, max_gates)):
        i = n_in + k

        def pick():
            if style == "recent" and rng.random() < 0.7:
                return rng.randint(max(0, i - 3), i - 1)
            if style == "fanout" and rng.random() < 0.5:
                return hot
            if style == "chain" and rng.random() < 0.8:
                return i - 1
            return rng.randrange(i)
        kind = rng.choice("xxaan")
        if kind == "n":
            gates.append(("n", pick()))
        else:
            a = pick()
            b = a if rng.random() < 0.12 else pick()
            gates.append((kind, a, b))
        if rng.random() < 0.2:
            hot = i
    n = n_in + len(gates)
    outs = []
    for _ in range(rng.randint(1, max_outs)):
        r = rng.random()
        if r < 0.15:
            outs.append(rng.randrange(n_in))          # an input as output
        elif r < 0.3 and outs:
            outs.append(rng.choice(outs))             # repeated output
        elif r < 0.7:
            outs.append(rng.randint(max(0, n - 4), n - 1))
        else:
            outs.append(rng.randrange(n))
    return ig, gates, outs


def corrupt_ssa(rng, ig, gates, outs):
    ig, gates, outs = list(ig), list(gates), list(outs)
    n_in = sum(ig)
    what = rng.choice(["fwd", "self", "oor", "huge", "out_oor", "out_eq_len", "no_out", "no_in",
                       "zero_in", "first_gate", "out_huge"])
    if what in ("fwd", "self", "oor", "huge") and gates:
        k = rng.randrange(len(gates))
        i = n_in + k
        bad = {"fwd": rng.randint(i + 1, i + 3), "self": i, "oor": n_in + len(gates) + rng.randint(0, 3),
               "huge": rng.choice(HUGE)}[what]
        g = list(gates[k])
        g[rng.randrange(1, len(g))] = bad
        gates[k] = tuple(g)
    elif what == "out_oor":
        outs[rng.randrange(len(outs))] = n_in + len(gates) + rng.randint(1, 3)
    elif what == "out_eq_len":
        outs[rng.randrange(len(outs))] = n_in + len(gates)
    elif what == "out_huge":
        outs[rng.randrange(len(outs))] = rng.choice(HUGE)
    elif what == "no_out":
        outs = []
    elif what == "no_in":
        ig = []
    elif what == "zero_in":
        ig = [0] * len(ig)
    elif what == "first_gate" and gates:
        g = list(gates[0]); g[1] = n_in; gates[0] = tuple(g)
    return ig, gates, outs, what


def ins_for(rng, ig, wrong=False):
    ins = [rand_bits(rng, n) for n in ig]
    if wrong:
        w = rng.choice(["drop", "extra", "short", "long"])
        if w == "drop" and ins:
            ins.pop()
        elif w == "extra":
            ins.append(rand_bits(rng, rng.randint(0, 2)))
        elif w == "short" and ins and ins[0]:
            ins[0] = ins[0][:-1]
        else:
            if ins:
                ins[0] += "1"
            else:
                ins.append("")
    return ins


# ------------------------------------------------------------------ register circuits

def fmt_reg_fields(ir, insts, mx, outs, ands):
    return "(ir %s) (insts %s) (max %d) (outs %s) (ands %d)" % (
        " ".join(map(str, ir)),
        " ".join("(%d %s)" % (o, fmt_gate(op)) for o, op in insts),
        mx, " ".join(map(str, outs)), ands)


def valid_reg(rng, max_parties=3, max_bits=3, max_ops=12):
    while True:
        ir = [rng.randint(0, max_bits) for _ in range(rng.randint(1, max_parties))]
        if sum(ir) > 0:
            break
    insts = []
    written = []
    pos = 0
    if rng.random() < 0.3:
        # validate() only asks an Input instruction at position i to write register i and to name an
        # existing input bit: the loaded bits may be a subset of the declared ones, repeated, in any
        # order, and max_reg_count may be smaller than the number of declared input bits
        pairs = [(p, k) for p, n in enumerate(ir) for k in range(n)]
        for _ in range(rng.randint(1, len(pairs) + 1)):
            p, k = rng.choice(pairs)
            insts.append((pos, ("i", p, k)))
            written.append(pos)
            pos += 1
        mx = pos + rng.choice([0, 0, 1, 2])
    else:
        for p, n in enumerate(ir):
            for k in range(n):
                insts.append((pos, ("i", p, k)))
                written.append(pos)
                pos += 1
        mx = pos + rng.randint(0, 4)
    ands = 0
    for _ in range(rng.randint(0, max_ops)):
        kind = rng.choice("xxaan")
        out = rng.randrange(mx)
        if kind == "n":
            op = ("n", rng.choice(written))
        else:
            a = rng.choice(written)
            b = a if rng.random() < 0.1 else rng.choice(written)
            op = (kind, a, b)
            ands += kind == "a"
        insts.append((out, op))
        if out not in written:
            written.append(out)
    outs = [rng.choice(written) for _ in range(rng.randint(1, 5))]
    return ir, insts, mx, outs, ands


def corrupt_reg(rng, ir, insts, mx, outs, ands):
    ir, insts, outs = list(ir), list(insts), list(outs)
    what = rng.choice(["max0", "max_minus", "in_party", "in_index", "in_pos", "in_late", "read_unwritten",
                       "out_unwritten", "out_ge_max", "inst_out_ge_max", "op_ge_max", "no_out", "zero_in",
                       "no_insts", "huge", "in_party_eq", "in_index_eq", "in_empty_party", "in_empty_party"])
    written = set(o for o, _ in insts)
    unwritten = [r for r in range(mx) if r not in written]
    if what == "max0":
        mx = 0
        if rng.random() < 0.5:
            insts = []
            outs = [0]
    elif what == "max_minus":
        mx = max(0, max(written | {0}) - rng.randint(0, 1))
    elif what == "in_empty_party":
        # an Input instruction naming a ZERO-SIZE party with index 0 (the party is added next to the real ones)
        ks = [k for k, (_, op) in enumerate(insts) if op[0] == "i"]
        if ks:
            k = rng.choice(ks)
            o, op = insts[k]
            pos = rng.randint(0, len(ir))
            ir.insert(pos, 0)
            insts = [(oo, (("i", pp[1] + (1 if pp[1] >= pos else 0), pp[2]) if pp[0] == "i" else pp)) for oo, pp in insts]
            insts[k] = (o, ("i", pos, 0))
    elif what in ("in_party", "in_index", "in_party_eq", "in_index_eq", "in_pos"):
        ks = [k for k, (_, op) in enumerate(insts) if op[0] == "i"]
        if ks:
            k = rng.choice(ks)
            o, op = insts[k]
            if what == "in_party":
                op = ("i", len(ir) + rng.randint(0, 3), op[2])
            elif what == "in_party_eq":
                op = ("i", len(ir), op[2])
            elif what == "in_index":
                op = ("i", op[1], ir[op[1]] + rng.randint(0, 3))
            elif what == "in_index_eq":
                op = ("i", op[1], ir[op[1]])
            else:
                o = o + 1
            insts[k] = (o, op)
    elif what == "in_late":
        # an Input instruction after the gates, at the position equal to its register
        k = len(insts)
        if k < mx:
            insts.append((k, ("i", rng.randrange(len(ir)), rng.randint(0, 3))))
    elif what == "read_unwritten" and unwritten:
        insts.append((rng.randrange(mx), ("x", rng.choice(unwritten), rng.choice(sorted(written)))))
    elif what == "out_unwritten" and unwritten:
        outs[rng.randrange(len(outs))] = rng.choice(unwritten)
    elif what == "out_ge_max":
        outs[rng.randrange(len(outs))] = mx + rng.randint(0, 2)
    elif what == "inst_out_ge_max" and insts:
        k = rng.randrange(len(insts))
        insts[k] = (mx + rng.randint(0, 2), insts[k][1])
    elif what == "op_ge_max":
        insts.append((rng.randrange(max(mx, 1)), ("a", mx + rng.randint(0, 2), rng.choice(sorted(written)))))
    elif what == "no_out":
        outs = []
    elif what == "zero_in":
        ir = [0] * len(ir)
    elif what == "no_insts":
        insts = []
    elif what == "huge":
        outs[rng.randrange(len(outs))] = 4294967295
    return ir, insts, mx, outs, ands, what
