#!/usr/bin/env python3
"""probe.py <file.garble | -e 'source text'> [ninputs]
Compiles one program with the real compiler (/repo, 4 configurations), evaluates it on boundary-directed / random
inputs and prints, per input: the source-semantics result (extracted Lang/Sem.v on the exported typed AST), the
bit-level semantics (extracted Compile/TSem.v) and the real circuit's decoded output; then the structural tie
(model circuit = real circuit).  A debugging aid for reading the model against the code; not a check."""
import sys, os
sys.path.insert(0, os.path.dirname(os.path.abspath(__file__)))
from vlib import *
import progcheck as PC
import lowertie


class _CK:
    import random
    rng = random.Random(1)
    pid = "probe"


def main():
    if len(sys.argv) < 2:
        print(__doc__); return 2
    if sys.argv[1] == "-e":
        src = sys.argv[2]; rest = sys.argv[3:]
    else:
        src = open(sys.argv[1]).read(); rest = sys.argv[2:]
    n = int(rest[0]) if rest else 6
    recs = PC.run_programs(_CK(), [("probe", src)], "probe", ninputs=n)
    r = recs[0]
    print("status:", r["status"], r.get("rust_raw", "")[:200] if r["status"] != "compiled" else "")
    if r["status"] == "compiled":
        print("validate:", r["validate"], r["ig"], r["nouts"])
        for k, ins in enumerate(r["inss"]):
            cfgs = {c: v[k] for c, v in r["runs"].items()}
            same = len(set(cfgs.values())) == 1
            print(f"input {ins}\n   Sem.v : {r['model'][k] if k < len(r['model']) else '?'}\n   TSem  : {r['tsem'][k] if k < len(r['tsem']) else '?'}"
                  f"\n   real  : {cfgs['ssa-dedup']}" + ("" if same else f"   (configurations differ: {cfgs})"))
        t = lowertie.run_tie("probe", [("probe", src)])[0]
        print("structural tie:", t["status"], t.get("detail", "")[:200] if t["status"] != "equal" else f"({t.get('gates')} gates)")
    return 0


if __name__ == "__main__":
    sys.exit(main())
