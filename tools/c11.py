"""C11 — Bristol export/import preserves the function; malformed files are rejected."""
import re
from vlib import *
import gen_circ as G

PANIC = 161
U64 = 18446744073709551615
HUGE_TOK = [str(U64), str(U64 + 1), str(2 ** 63), str(2 ** 60), str(2 ** 32), "340282366920938463463374607431768211456",
            "99999999999999999999", "-1", "+3", "007", "0x10", "1e3", "1_0", "+", "-0", "3.0"]
WORDS = ["XOR", "AND", "INV", "NAND", "EQ", "EQW", "MAND", "xor", "Xor", "OR", "NOT", "INVX", "XORAND", "a", "#"]

PROGRAMS = [
    ("mul16", "pub fn main(x: u16, y: u16) -> u16 { x * y }"),
    ("add64", "pub fn main(x: u64, y: u64) -> u64 { x + y }"),
    ("add4_in_out", "pub fn main(x: u64, y: u64) -> u64 { x + 4 }"),
    ("and_bool", "pub fn main(x: bool, y: bool) -> bool { x & y }"),
    ("const_out", "pub fn main(x: u8) -> (u8, bool, u8) { (7u8, true, x ^ 255u8) }"),
    ("dup_out", "pub fn main(x: u8, y: u8) -> (u8, u8, u8) { let z = x & y; (z, z, !z) }"),
    ("if_else", "pub fn main(x: i8, y: i8) -> i8 { if x > y { x - y } else { y / 2i8 } }"),
    ("array", "pub fn main(a: [u8; 3], i: usize) -> u8 { a[i] + 1u8 }"),
    ("tuple3", "pub fn main(x: u8, y: u8, z: u8) -> (u8, u8) { (x ^ y ^ z, (x & y) | z) }"),
    ("shift", "pub fn main(x: u16) -> u16 { (x << 3u8) ^ (x >> 2u8) }"),
]
PROGRAMS_THOROUGH = [("mul64", "pub fn main(x: u64, y: u64) -> u64 { x * y }")]

# hand-written files: the witnesses of the repaired importer defects (DESIGN §6-20 and the
# further overflow sites), the malformed files of /repo/tests/convert.rs, token oddities
CORPUS_IN = [
    ("k_sub_overflow", [["1", "3"], ["1", "2"], ["1", "5"], [], ["2", "1", "0", "1", "2", "XOR"]]),
    ("k_sub_overflow0", [["1", "3"], ["1", "2"], ["1", "5"]]),
    ("k_capacity", [["1", str(U64)], ["1", "2"], ["1", "1"]]),
    ("k_capacity60", [["1", "3"], ["1", "2"], ["1", str(2 ** 60)]]),
    ("k_in_sum", [["1", "3"], ["2", str(U64), "1"], ["1", "1"]]),
    ("k_out_sum", [["1", "3"], ["1", "2"], ["2", str(U64), "1"]]),
    ("k_arity_add", [["1", "3"], ["1", "2"], ["1", "1"], [str(U64), "1", "0", "0", "XOR"]]),
    ("k_next_wire", [["1", "1"], ["1", str(U64)], ["1", "1"], ["1", "1", "0", "0", "INV"]]),
    ("k_next_wire2", [["2", str(U64)], ["1", str(U64 - 1)], ["1", "1"], ["1", "1", "0", str(U64 - 1), "INV"],
                      ["1", "1", "0", str(U64 - 1), "INV"]]),
    ("t_first", [["2", "5", "4"]]),
    ("t_input", [["2", "5"], ["2"]]),
    ("t_parties", [["2", "5"], ["2", "2", "2", "3"]]),
    ("t_out_missing", [["2", "5"], ["2", "2", "2"], ["1"]]),
    ("t_out_mismatch", [["2", "5"], ["2", "2", "2"], ["1", "2", "3"]]),
    ("t_too_many", [["2", "5"], ["2", "2", "2"], ["1", "2"], [], ["2", "1", "0", "2", "4", "3", "AND"]]),
    ("t_invalid_index", [["2", "5"], ["2", "2", "2"], ["1", "2"], [], ["2", "1", "0", "2", "4", "AND"],
                         ["2", "1", "1", "3", "5", "AND"]]),
    ("t_wronginput", [["2", "5"], ["2", "2", "2"], ["1", "2"], [], ["1", "1", "0", "2", "4", "AND"]]),
    ("t_unknown", [["2", "5"], ["2", "2", "2"], ["1", "2"], [], ["2", "1", "0", "2", "4", "NAND"]]),
    ("t_parse", [["2", "a"]]),
    ("e_empty", []),
    ("e_blank", [[]]),
    ("e_ok", [["1", "3"], ["1", "2"], ["1", "1"], [], ["2", "1", "0", "1", "2", "XOR"]]),
    ("e_plus", [["+1", "003"], ["1", "2"], ["1", "1"], [], ["2", "1", "0", "1", "2", "XOR"]]),
    ("e_overwrite_in", [["1", "3"], ["1", "2"], ["1", "1"], [], ["2", "1", "0", "1", "1", "XOR"]]),
    ("e_twice", [["2", "3"], ["1", "2"], ["1", "1"], [], ["2", "1", "0", "1", "2", "XOR"], ["2", "1", "0", "1", "2", "AND"]]),
    ("e_fwd", [["2", "4"], ["1", "2"], ["1", "1"], ["2", "1", "0", "3", "2", "XOR"], ["2", "1", "0", "1", "3", "AND"]]),
    ("e_out_is_input", [["0", "2"], ["1", "2"], ["1", "2"]]),
    ("e_numword", [["1", "3"], ["1", "2"], ["1", "1"], ["2", "1", "0", "1", "2", "7"]]),
    ("e_short", [["1", "3"], ["1", "2"], ["1", "1"], ["1", "1", "0", "INV"]]),
    ("e_inv2", [["1", "3"], ["1", "2"], ["1", "1"], ["2", "1", "0", "1", "2", "INV"]]),
    ("e_xor1", [["1", "3"], ["1", "2"], ["1", "1"], ["1", "1", "0", "2", "XOR"]]),
    ("e_outs2", [["1", "3"], ["1", "2"], ["1", "1"], ["2", "2", "0", "1", "2", "XOR"]]),
    ("e_zero_arity", [["1", "3"], ["1", "2"], ["1", "1"], ["0", "1", "2", "XOR", "XOR"]]),
]


# ---------------------------------------------------------------- circuits for the exporter

def export_circuit(rng, big=False):
    """A valid SSA circuit shaped like a compiled one: 161 panic outputs (any wires, often
    one wire repeated) followed by the real outputs."""
    style = rng.choice(["uniform", "recent", "fanout", "chain"])
    mg = rng.choice([3, 8, 20, 60]) if not big else rng.choice([200, 600])
    ig, gates, _ = G.valid_ssa(rng, max_parties=3, max_bits=4, max_gates=mg, max_outs=1, style=style)
    n_in = sum(ig)
    if not gates:
        gates = [("x", 0, 0)]
    n = n_in + len(gates)
    r = rng.random()
    if r < 0.4:
        w = rng.randrange(n)
        panic = [w] * PANIC
    elif r < 0.7:
        panic = [rng.randrange(n) for _ in range(PANIC)]
    else:
        base = [rng.randrange(n) for _ in range(3)]
        panic = [rng.choice(base) for _ in range(PANIC)]
    feat = set()
    outs = []
    k = rng.choice([0, 1, 1, 2, 3, 5, 8, 12]) if rng.random() < 0.9 else rng.randint(13, 30)
    with_input = rng.random() < 0.08
    for _ in range(k):
        q = rng.random()
        if q < 0.25 and outs:
            outs.append(rng.choice(outs)); feat.add("repeated")
        elif q < 0.45:
            outs.append(rng.randint(max(n_in, n - 3), n - 1)); feat.add("last")
        elif q < 0.55:
            outs.append(n_in); feat.add("first-gate")
        else:
            outs.append(rng.randrange(n_in, n))
    if with_input and outs:
        outs[rng.randrange(len(outs))] = rng.randrange(n_in); feat.add("input-as-output")
    used = set()
    for g in gates:
        used.update(g[1:])
    if any(o in used for o in outs):
        feat.add("output-feeds-gate")
    if any(g[0] == "n" for g in gates):
        feat.add("not-gate")
    if len(set(outs)) < len(outs):
        feat.add("repeated")
    if not outs:
        feat.add("no-real-output")
    return ig, gates, panic + outs, feat


def corrupt_export(rng, ig, gates, outs):
    """invalid circuit values, for the tie only (the property does not speak about them)"""
    ig, gates, outs = list(ig), list(gates), list(outs)
    n_in = sum(ig)
    what = rng.choice(["short_outs", "fwd", "self", "oor", "huge", "out_oor", "out_eq_len", "out_huge",
                       "out_alias_fresh", "many_oor_outs", "no_in", "sum_overflow"])
    if what == "short_outs":
        outs = outs[:rng.choice([0, 1, 100, 160])]
    elif what in ("fwd", "self", "oor", "huge") and gates:
        k = rng.randrange(len(gates)); i = n_in + k
        bad = {"fwd": rng.randint(i + 1, i + 3), "self": i, "oor": n_in + len(gates) + rng.randint(0, 3),
               "huge": rng.choice(G.HUGE)}[what]
        g = list(gates[k]); g[rng.randrange(1, len(g))] = bad; gates[k] = tuple(g)
    elif what == "out_oor":
        outs.append(n_in + len(gates) + rng.randint(1, 3))
    elif what == "out_eq_len":
        outs.append(n_in + len(gates))
    elif what == "out_huge":
        outs.append(rng.choice(G.HUGE))
    elif what == "out_alias_fresh":
        # a repeated output plus an (invalid) output equal to the wire the de-aliasing creates
        n = n_in + len(gates)
        outs = outs[:PANIC] + [n_in, n_in, n + 1, n + 1]
    elif what == "many_oor_outs":
        n = n_in + len(gates)
        outs = outs[:PANIC] + [n + 5 + j for j in range(n + 3)] + [n_in]
    elif what == "no_in":
        ig = []
    elif what == "sum_overflow":
        ig = [U64, 1]
    return ig, gates, outs, what


def inputs_for(rng, ig, k):
    return [[G.rand_bits(rng, n) for n in ig] for _ in range(k)]


def fmt_inss(inss):
    return "(inss %s)" % " ".join("(%s)" % " ".join('"%s"' % b for b in ins) for ins in inss)


def is_valid_ssa(ig, gates, outs):
    n_in = sum(ig)
    if n_in == 0 or not outs:
        return False
    for k, g in enumerate(gates):
        if any(x >= n_in + k for x in g[1:]):
            return False
    n = n_in + len(gates)
    return all(o < n for o in outs) and n + n_in <= 4294967295


# ---------------------------------------------------------------- files for the importer

def q(t):
    return quote(t)


def fmt_in_job(jid, lines, sep=0):
    return "(bristol-in %s (sep %d) (lines %s))" % (
        jid, sep, " ".join("(l%s)" % "".join(" " + q(t) for t in l) for l in lines))


def mutate_file(rng, lines):
    """one or two edits of a valid export"""
    ls = [list(l) for l in lines]
    kinds = []
    for _ in range(1 if rng.random() < 0.7 else 2):
        kind = rng.choice(["drop", "dup", "swap", "count", "huge", "nohdr", "word", "arity", "trunc", "blank",
                           "tok", "numword", "wire", "outwire", "hdr_extra", "hdr_short", "shuffle", "outs_arity"])
        kinds.append(kind)
        gl = [i for i, l in enumerate(ls) if i >= 3 and l]
        if kind == "drop" and ls:
            del ls[rng.randrange(len(ls))]
        elif kind == "dup" and ls:
            i = rng.randrange(len(ls)); ls.insert(i, list(ls[i]))
        elif kind == "swap" and len(ls) >= 2:
            i, j = rng.randrange(len(ls)), rng.randrange(len(ls)); ls[i], ls[j] = ls[j], ls[i]
        elif kind == "count" and len(ls) >= 3:
            i = rng.randrange(3)
            if ls[i]:
                j = rng.randrange(len(ls[i]))
                try:
                    v = int(ls[i][j])
                    ls[i][j] = str(max(0, v + rng.choice([-2, -1, 1, 2, 161, -v])))
                except ValueError:
                    pass
        elif kind == "huge" and ls:
            i = rng.randrange(len(ls))
            if ls[i]:
                ls[i][rng.randrange(len(ls[i]))] = rng.choice(HUGE_TOK)
        elif kind == "nohdr" and ls:
            del ls[:rng.randint(1, 3)]
        elif kind == "word" and gl:
            i = rng.choice(gl); ls[i][-1] = rng.choice(WORDS)
        elif kind == "arity" and gl:
            i = rng.choice(gl)
            r = rng.random()
            if r < 0.3:
                ls[i][0] = str(rng.choice([0, 1, 2, 3, 4]))
            elif r < 0.5:
                ls[i][1] = str(rng.choice([0, 2]))
            elif r < 0.75 and len(ls[i]) > 2:
                del ls[i][rng.randrange(len(ls[i]))]
            else:
                ls[i].insert(rng.randrange(len(ls[i]) + 1), str(rng.randint(0, 9)))
        elif kind == "trunc" and ls:
            ls = ls[:rng.randrange(len(ls) + 1)]
        elif kind == "blank":
            ls.insert(rng.randrange(len(ls) + 1), [])
        elif kind == "tok" and ls:
            i = rng.randrange(len(ls))
            if ls[i]:
                ls[i][rng.randrange(len(ls[i]))] = rng.choice(HUGE_TOK + WORDS)
        elif kind == "numword" and gl:
            i = rng.choice(gl); ls[i][rng.randrange(len(ls[i]) - 1)] = rng.choice(WORDS)
        elif kind in ("wire", "outwire") and gl:
            i = rng.choice(gl)
            try:
                nw = int(ls[0][1])
            except (ValueError, IndexError):
                nw = 10
            j = len(ls[i]) - 2 if kind == "outwire" else rng.randrange(2, max(3, len(ls[i]) - 1))
            if 0 <= j < len(ls[i]):
                ls[i][j] = str(rng.choice([0, 1, max(0, nw - 1), nw, nw + 1, rng.randrange(nw + 2), U64]))
        elif kind == "hdr_extra" and len(ls) >= 3:
            ls[rng.randrange(3)].append(str(rng.randint(0, 5)))
        elif kind == "hdr_short" and len(ls) >= 3:
            i = rng.randrange(3)
            if ls[i]:
                ls[i].pop()
        elif kind == "shuffle" and len(ls) > 4:
            body = ls[4:]; rng.shuffle(body); ls = ls[:4] + body
        elif kind == "outs_arity" and len(ls) >= 3:
            ls[2] = [str(rng.randint(0, 3))] + [str(rng.randint(0, 4)) for _ in range(rng.randint(0, 3))]
    return ls, "+".join(kinds)


def random_file(rng):
    def tok():
        r = rng.random()
        if r < 0.6:
            return str(rng.randint(0, 12))
        if r < 0.8:
            return rng.choice(WORDS[:3])
        if r < 0.9:
            return rng.choice(HUGE_TOK)
        return rng.choice(WORDS)
    r = rng.random()
    if r < 0.5:
        # plausible header, random gate lines
        nin = [rng.randint(0, 3) for _ in range(rng.randint(1, 2))]
        ng = rng.randint(0, 6)
        nw = sum(nin) + ng + rng.choice([0, 0, 0, -1, 1])
        no = rng.randint(0, 3)
        ls = [[str(ng), str(max(0, nw))], [str(len(nin))] + [str(x) for x in nin], ["1", str(no)]]
        if rng.random() < 0.6:
            ls.append([])
        for k in range(ng):
            if rng.random() < 0.75:
                a = rng.choice([1, 2, 2])
                ws = [str(rng.randrange(max(1, nw))) for _ in range(a)]
                o = str(sum(nin) + k) if rng.random() < 0.7 else str(rng.randrange(max(1, nw + 1)))
                ls.append([str(a), "1"] + ws + [o, "INV" if a == 1 else rng.choice(["XOR", "AND"])])
            else:
                ls.append([tok() for _ in range(rng.randint(0, 8))])
        return ls
    return [[tok() for _ in range(rng.randint(0, 7))] for _ in range(rng.randint(0, 7))]


# ---------------------------------------------------------------- specification side (python)

def ssa_eval_py(ig, gates, outs, ins):
    vals = [c == "1" for bits in ins for c in bits]
    for g in gates:
        if g[0] == "x":
            vals.append(vals[g[1]] ^ vals[g[2]])
        elif g[0] == "a":
            vals.append(vals[g[1]] & vals[g[2]])
        else:
            vals.append(not vals[g[1]])
    return "".join("1" if vals[o] else "0" for o in outs)


def bristol_check_and_eval(lines, ig, n_real_outs, inss):
    """Independent reading of an exported file as Bristol fashion: declared counts, every
    non-input wire assigned exactly once and before use, outputs = the last wires.
    Returns (problem or None, [output bit strings])."""
    try:
        ng, nw = int(lines[0][0]), int(lines[0][1])
        hin = [int(t) for t in lines[1]]
        hout = [int(t) for t in lines[2]]
    except (ValueError, IndexError):
        return "unreadable header", []
    if hin != [len(ig)] + list(ig):
        return "input line does not declare the parties of the circuit", []
    if hout != [1, n_real_outs]:
        return f"output line {hout} does not declare the {n_real_outs} non-panic outputs", []
    glines = [l for l in lines[3:] if l]
    n_in = sum(ig)
    if ng != len(glines):
        return f"declared gate count {ng} but {len(glines)} gate lines", []
    if nw != n_in + len(glines):
        return f"declared wire count {nw} but {n_in} inputs + {len(glines)} gates", []
    assigned = set(range(n_in))
    prog = []
    for l in glines:
        kind = l[-1]
        ar = {"XOR": 2, "AND": 2, "INV": 1}.get(kind)
        if ar is None or l[0] != str(ar) or l[1] != "1" or len(l) != ar + 4:
            return f"malformed gate line {l}", []
        ws = [int(t) for t in l[2:2 + ar]]
        o = int(l[2 + ar])
        for w in ws:
            if w not in assigned:
                return f"wire {w} used before it is assigned in {l}", []
        if o in assigned:
            return f"wire {o} assigned twice (or is an input) in {l}", []
        if o >= nw:
            return f"wire {o} out of range in {l}", []
        assigned.add(o)
        prog.append((kind, ws, o))
    if len(assigned) != nw:
        return "some wire is never assigned", []
    res = []
    for ins in inss:
        vals = {}
        k = 0
        for bits in ins:
            for c in bits:
                vals[k] = c == "1"; k += 1
        for kind, ws, o in prog:
            vals[o] = (vals[ws[0]] ^ vals[ws[1]]) if kind == "XOR" else (vals[ws[0]] & vals[ws[1]]) if kind == "AND" else (not vals[ws[0]])
        res.append("".join("1" if vals[w] else "0" for w in range(nw - n_real_outs, nw)))
    return None, res


def strip_exh(s):
    return re.sub(r"\s*\(exh [^()]*\([^()]*\)\)", "", s)


# ---------------------------------------------------------------- the check

def run(ck):
    quick = ck.tier == "quick"
    rng = ck.rng
    ck.prepare("C11")
    if not (ck.harness_ok and ck.model_ok):
        return ck.finish(trusted=COMMON_TRUSTED)
    n_out, n_big, n_in_mut, n_in_rand = (5000, 30, 45000, 15000) if quick else (25000, 100, 300000, 100000)
    dist = {}

    def count(k):
        dist[k] = dist.get(k, 0) + 1

    # ---- phase 0: real programs through garble_lang::compile / compile_to_bristol (Rust only)
    progs = PROGRAMS + ([] if quick else PROGRAMS_THOROUGH)
    pjobs = ["(bristol-prog p_%s (src %s))" % (name, quote(src)) for name, src in progs]
    prs = run_jobs(GVRUN, pjobs, "c11p.rs", timeout_per_job=20)
    out_jobs, meta = [], {}
    prog_export = {}
    for name, src in progs:
        r = prs.get("p_" + name, "(no-result)")
        m = re.match(r"\(circuit \(ssa (.*?)\)\) \(export (.*)\)$", r)
        if not m:
            ck.violation("compiling a corpus program / compile_to_bristol failed", {"program": src, "rust": r},
                         found_input=(r.find("crash") >= 0))
            continue
        body = m.group(1)
        sx = sx_parse("(" + body + ")")[0]
        ig = [int(x) for x in sx_field(sx, "ig")[1:]]
        gates = [tuple([g[0]] + [int(x) for x in g[1:]]) for g in sx_field(sx, "gates")[1:]]
        outs = [int(x) for x in sx_field(sx, "outs")[1:]]
        # the list-based model evaluates in quadratic time: no model-side evaluation of big circuits
        inss = inputs_for(rng, ig, 4 if len(gates) <= 4000 else 0)
        jid = "c_" + name
        out_jobs.append(f"(bristol-out {jid} {body} {fmt_inss(inss)} (exh 1))")
        meta[jid] = {"kind": "program", "ig": ig, "gates": gates, "outs": outs, "inss": inss, "valid": True,
                     "feat": {"compiled"}}
        prog_export[jid] = m.group(2)
        count("out:program")

    # ---- phase 1: circuits through the exporter and back
    for i in range(n_out + n_big):
        ig, gates, outs, feat = export_circuit(rng, big=(i >= n_out))
        what = "valid"
        if i < n_out and rng.random() < 0.18:
            ig, gates, outs, what = corrupt_export(rng, ig, gates, outs)
        valid = is_valid_ssa(ig, gates, outs) and len(outs) >= PANIC
        inss = inputs_for(rng, ig, 3) if sum(ig) < 100 else []
        jid = f"o{i}"
        out_jobs.append(f"(bristol-out {jid} {G.fmt_ssa_fields(ig, gates, outs)} {fmt_inss(inss)} (exh 1))")
        meta[jid] = {"kind": what, "ig": ig, "gates": gates, "outs": outs, "inss": inss, "valid": valid, "feat": feat}
        count("out:" + what)
        for f in feat:
            count("feature:" + f)
    by_id = {job_id(j): j for j in out_jobs}
    rs, ml = run_both(out_jobs, "c11o", timeout_per_job=2.0 if quick else 20.0, base_timeout=120 if quick else 900)
    mism_out = 0
    exports = []
    n_roundtrip = n_exh_inputs = n_refused = n_wf = 0
    for jid, job in sorted(by_id.items(), key=lambda kv: len(kv[1])):
        r, m = rs.get(jid, "(no-result)"), ml.get(jid, "(no-result)")
        me = meta[jid]
        rcmp = strip_exh(r)
        if rcmp != m:
            mism_out += 1
            if mism_out <= 3:
                ck.violation("model and implementation disagree on export / import-of-export / evaluation",
                             {"job": job[:4000], "rust": r[:4000], "model": m[:4000], "correspondence": "bristol-out jobs"},
                             found_input=False)
        if jid in prog_export and not rcmp.startswith("(export " + prog_export[jid] + ") (import"):
            ck.violation("compile_to_bristol writes a different file than format_as_bristol on the compiled circuit",
                         {"job": job[:2000], "compile_to_bristol": prog_export[jid][:2000], "rust": r[:2000]})
        # ---- oracle: the property on the real code's results
        if not me["valid"]:
            continue
        real_outs = me["outs"][PANIC:]
        n_in = sum(me["ig"])
        has_input_out = any(o < n_in for o in real_outs)
        if has_input_out:
            if not r.startswith("(export (err OutputWireIsInput))"):
                ck.violation("a circuit whose non-panic outputs include an input wire is not refused",
                             {"job": job[:4000], "rust": r[:2000]})
            n_refused += 1
            continue
        try:
            fields = sx_parse("(" + r + ")")[0]
        except Exception:
            fields = []
        fex = sx_field(fields, "export")
        lines = None
        if fex and isinstance(fex[1], list) and fex[1] and fex[1][0] == "lines":
            lines = [list(l[1:]) for l in fex[1][1:]]
        if lines is None:
            ck.violation("export of a valid circuit fails or panics", {"job": job[:4000], "rust": r[:2000]})
            continue
        exports.append((jid, lines))
        # well-formed Bristol + independent Bristol evaluation = non-panic outputs
        prob, bouts = bristol_check_and_eval(lines, me["ig"], len(real_outs), me["inss"])
        if prob:
            ck.violation("exported file is not well-formed Bristol: " + prob, {"job": job[:4000], "rust": r[:4000]})
            continue
        n_wf += 1
        for ins, bo in zip(me["inss"], bouts):
            want = ssa_eval_py(me["ig"], me["gates"], real_outs, ins)
            if bo != want:
                ck.violation("the exported Bristol file computes other output bits than the circuit",
                             {"job": job[:4000], "input": ins, "bristol": bo, "circuit": want})
        fim = sx_field(fields, "import")
        if not (fim and isinstance(fim[1], list) and fim[1] and fim[1][0] == "ok"):
            ck.violation("importing the export of a valid circuit fails or panics",
                         {"job": job[:4000], "rust": r[:4000]})
            continue
        n_roundtrip += 1
        fev = sx_field(fields, "evals")
        pairs = fev[1:] if fev else []
        for ins, p in zip(me["inss"], pairs):
            e1, e2 = p[0], p[1]
            if not (isinstance(e1, tuple) and isinstance(e2, tuple)) or e1[1][PANIC:] != e2[1]:
                ck.violation("import(export(c)) computes other non-panic output bits than c",
                             {"job": job[:4000], "input": ins, "circuit_eval": e1, "imported_eval": e2})
        if len(pairs) != len(me["inss"]):
            ck.violation("evaluation results missing", {"job": job[:2000], "rust": r[:2000]}, found_input=False)
        ex = sx_field(fields, "exh")
        if ex:
            n_exh_inputs += int(ex[1])
            if int(ex[2]) > 0:
                ck.violation("import(export(c)) differs from c on some input (all inputs up to 16 bits, 64 random ones beyond)",
                             {"job": job[:4000], "input": ex[3], "bad_inputs": int(ex[2])})
    ck.obligation("correspondence: format_as_bristol, bristol_to_garble on its output and both evaluations equal "
                  "the model on every generated circuit", mism_out == 0, f"{mism_out} differing jobs")

    # ---- phase 2: files through the importer
    in_jobs, in_meta = [], {}
    for name, lines in CORPUS_IN:
        for sep in (0, 1):
            jid = f"{name}_{sep}"
            in_jobs.append(fmt_in_job(jid, lines, sep)); in_meta[jid] = "corpus"
            count("in:corpus")
    for jid, lines in exports[:200 if quick else 2000]:
        if sum(len(l) for l in lines) < 4000:
            in_jobs.append(fmt_in_job("v" + jid, lines, rng.randrange(4))); in_meta["v" + jid] = "valid-export"
            count("in:valid-export")
    small = [(j, l) for j, l in exports if len(l) <= 40] or exports
    mut_kinds = {}
    for i in range(n_in_mut):
        if not small:
            break
        _, lines = rng.choice(small)
        ls, kind = mutate_file(rng, lines)
        jid = f"m{i}"
        in_jobs.append(fmt_in_job(jid, ls, rng.randrange(4))); in_meta[jid] = "mut:" + kind
        for k in kind.split("+"):
            mut_kinds[k] = mut_kinds.get(k, 0) + 1
        count("in:mutated")
    for i in range(n_in_rand):
        jid = f"r{i}"
        in_jobs.append(fmt_in_job(jid, random_file(rng), rng.randrange(4))); in_meta[jid] = "random"
        count("in:random")
    in_by_id = {job_id(j): j for j in in_jobs}
    rs2, ml2 = run_both(in_jobs, "c11i", timeout_per_job=1.0)
    mism_in = 0
    verdicts = {}
    for jid, job in sorted(in_by_id.items(), key=lambda kv: len(kv[1])):
        r, m = rs2.get(jid, "(no-result)"), ml2.get(jid, "(no-result)")
        v = re.match(r"\(import (\(ok|\(err \w+|crash)", r)
        vk = v.group(1).strip("(") if v else r[:20]
        verdicts[vk] = verdicts.get(vk, 0) + 1
        if not v or v.group(1) == "crash":
            ck.violation("the importer panics / aborts / hangs on a text file instead of returning an error",
                         {"job": job[:4000], "rust": r[:1000], "model": m[:1000], "kind": in_meta[jid]})
        if r != m:
            mism_in += 1
            if mism_in <= 3:
                ck.violation("model and implementation disagree on the importer's verdict",
                             {"job": job[:4000], "rust": r[:2000], "model": m[:2000], "correspondence": "bristol-in jobs"},
                             found_input=False)
    ck.obligation("correspondence: bristol_to_garble (through compile_bristol_to_circuit) equals the model on every "
                  "generated file (circuit, error kind + payload)", mism_in == 0, f"{mism_in} differing jobs")

    all_jobs = out_jobs + in_jobs
    nontrivial = len(set(re.sub(r"^\(\S+ \S+ ", "", j) for j in out_jobs if meta[job_id(j)]["valid"])) + \
        len(set(re.sub(r"^\(\S+ \S+ \(sep \d\) ", "", j) for j in in_jobs if j.count("(l ") >= 3))
    ck.coverage.update({
        "evaluations": len(all_jobs), "distinct_nontrivial": nontrivial,
        "rule": "export jobs: valid SSA circuits built topologically (4 wiring styles, Not gates, Xor(a,a)) whose outputs "
                "are 161 panic wires (one wire repeated / random / few wires) followed by 0..30 real outputs (repeated, "
                "last wires, first gate, outputs feeding later gates, 8% with an input wire => refusal expected), 18% "
                "corrupted circuit values for the tie only, the circuits of compiled Garble programs; import jobs: "
                "hand-written corpus, valid exports re-tokenised with 4 separator styles, 1-2 random edits of valid "
                "exports (18 edit kinds), random token lines. Non-trivial = valid circuit (export jobs) or file with at "
                "least 3 non-empty lines (import jobs); distinct by payload",
        "traces_validated_against_impl": len(all_jobs) - mism_out - mism_in,
        "input_distribution": dist, "mutation_kinds": mut_kinds, "rust_import_verdicts": verdicts,
        "valid_circuits_round_tripped": n_roundtrip, "exports_checked_well_formed": n_wf,
        "refusals_checked": n_refused, "exhaustive_input_assignments": n_exh_inputs,
        "programs_compiled": len(prog_export),
    })
    ck.samples = [out_jobs[0][:600], out_jobs[len(out_jobs) // 2][:600], in_jobs[0], in_jobs[len(in_jobs) // 2][:600],
                  in_jobs[-1][:600]]
    return ck.finish(trusted=COMMON_TRUSTED + [
        "modelled: convert.rs format_as_bristol / bristol_to_garble / parse_line on token lines; trusted glue: "
        "splitting text into lines and whitespace-separated tokens and reading decimal usize tokens (the Rust side of "
        "the tie runs the real tokeniser on a real file; the model side classifies tokens in ocaml/jbristol.ml), file "
        "I/O errors, allocation below the limit parameter of the model's export (2^26 words in the runner)",
        "tokens in generated files are printable ASCII without whitespace"],
        extra_assumptions=["circuits whose non-panic outputs include input wires are outside the round-trip quantifier "
                           "(the exporter refuses them; the refusal itself is checked)",
                           "usize is 64 bits"])


def replay(path):
    """./check C11 --replay <file>: re-runs the job of a replay file on the real code and on the
    model and prints both results (exit 1 when they differ or the real code crashes)."""
    import json
    d = json.load(open(path))
    job = d.get("replay", {}).get("job")
    if not job:
        print("no job in replay file (obligation-only replay):", d.get("what")); return 1
    with BuildLock():
        build_coq(); build_ocaml(); build_harness()
    rs = run_jobs(GVRUN, [job], "c11rp.rs", timeout_per_job=60)
    ml = run_jobs(MODELRUN, [job], "c11rp.ml", timeout_per_job=600)
    jid = job_id(job)
    r, m = rs.get(jid, "(no-result)"), ml.get(jid, "(no-result)")
    print("what :", d.get("what")); print("job  :", job[:2000]); print("rust :", r[:2000]); print("model:", m[:2000])
    bad = strip_exh(r) != m or "crash" in r or re.search(r"\(exh \d+ [1-9]", r) is not None
    print("REPRODUCED" if bad else "not reproduced (real code and model agree, no crash)")
    return 1 if bad else 0
