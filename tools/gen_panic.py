"""Scripts for the panic-record layer (C02, C06): structured "panic programs" (trees of
push / if / match / && / || that follow the save-branch-swap-branch-mux protocol of
compile.rs), their compilation to `panicrec` job operations, raw operation scripts, and the
two reference semantics used by the oracle (tree level = source semantics, operation level =
the algebraic laws)."""
import itertools

M32 = 1 << 32

# ---------------------------------------------------------------------------- trees
# node ::= ("push", cond, site) | ("if", cond, [nodes], [nodes]) | ("and", cond, [nodes])
#        | ("or", cond, [nodes]) | ("match", [(cond, [nodes])...])
# cond ::= wire operand: int (raw wire 0/1/inputs) or "hK"
# site ::= (reason, sl, sc, el, ec)


def site_of(i):
    """distinct, recognisable reason/location for the i-th push of a script"""
    return (1 + i % 3, 10 + i, 1 + 2 * i, 10 + i + (i % 2), 7 + 3 * i)


class Compiler:
    """tree -> op list.  Slots are allocated like local variables of compile.rs."""

    def __init__(self, nh0=0):
        self.ops = []
        self.nh = nh0
        self.nslot = 0

    def slot(self):
        self.nslot += 1
        return self.nslot - 1

    def gate(self, kind, *args):
        self.ops.append((kind,) + tuple(args))
        self.nh += 1
        return "h%d" % (self.nh - 1)

    def seq(self, nodes):
        for n in nodes:
            self.node(n)

    def node(self, n):
        k = n[0]
        if k == "push":
            self.ops.append(("push", n[1]) + tuple(n[2]))
        elif k == "if":
            # ExprEnum::If: before = peek.clone(); T; pt = replace(before.clone()); F;
            # pf = replace(before); muxed = mux(c, pt, pf); replace(muxed)
            before, pt, pf = self.slot(), self.slot(), self.slot()
            self.ops.append(("save", before))
            self.seq(n[2])
            self.ops.append(("swap", before, pt))
            self.seq(n[3])
            self.ops.append(("swap", before, pf))
            self.ops.append(("muxp", n[1], pt, pf))
        elif k == "and":
            # x && y: before_y = peek.clone(); y; mux(x, peek.clone(), before_y)
            before, cur = self.slot(), self.slot()
            self.ops.append(("save", before))
            self.seq(n[2])
            self.ops.append(("save", cur))
            self.ops.append(("muxp", n[1], cur, before))
        elif k == "or":
            before, cur = self.slot(), self.slot()
            self.ops.append(("save", before))
            self.seq(n[2])
            self.ops.append(("save", cur))
            self.ops.append(("muxp", n[1], before, cur))
        elif k == "match":
            # muxed = peek.clone(); before = peek.clone(); for each arm: replace(before.clone());
            # arm; s = !prev & is_match; muxed = mux(s, peek.clone(), muxed); prev |= is_match
            muxed, before, cur = self.slot(), self.slot(), self.slot()
            self.ops.append(("save", muxed))
            self.ops.append(("save", before))
            prev = 0
            for is_match, body in n[1]:
                self.ops.append(("replace", before))
                self.seq(body)
                np = self.gate("not", prev)
                s = self.gate("and", np, is_match)
                self.ops.append(("save", cur))
                self.ops.append(("muxp", s, cur, muxed))
                self.ops.append(("save", muxed))
                prev = self.gate("or", prev, is_match)
            self.ops.append(("replace", muxed))
        else:
            raise ValueError(k)


def compile_tree(prelude, nodes):
    """prelude: gate ops that build condition wires (their handles come first)."""
    c = Compiler(nh0=len(prelude))
    c.ops = list(prelude)
    c.seq(nodes)
    return c.ops


def fmt_job(jid, dedup, inputs, ops, truth=True, repeat=0):
    return "(panicrec %s (dedup %d) (inputs %s) (script %s)%s%s)" % (
        jid, 1 if dedup else 0, " ".join(map(str, inputs)),
        " ".join("(%s)" % " ".join(map(str, op)) for op in ops), " (truth 1)" if truth else "",
        " (repeat %d)" % repeat if repeat else "")


# ---------------------------------------------------------------------------- semantics

class Tables:
    """truth tables (python ints, bit k = assignment k) of raw wires and handles; assignment k
    gives input i the bit (k >> (n-1-i)) & 1 (same convention as the harness)."""

    def __init__(self, n):
        self.n = n
        self.size = 1 << n
        self.mask = (1 << self.size) - 1
        self.tabs = {0: 0, 1: self.mask}
        for i in range(n):
            t = 0
            for k in range(self.size):
                if (k >> (n - 1 - i)) & 1:
                    t |= 1 << k
            self.tabs[2 + i] = t
        self.hs = []

    def val(self, o):
        if isinstance(o, str):
            return self.hs[int(o[1:])]
        return self.tabs[o]

    def gate(self, op):
        k = op[0]
        v = [self.val(o) for o in op[1:]]
        m = self.mask
        if k == "xor": r = v[0] ^ v[1]
        elif k == "and": r = v[0] & v[1]
        elif k == "not": r = v[0] ^ m
        elif k == "or": r = v[0] | v[1]
        elif k == "eq": r = (v[0] ^ v[1]) ^ m
        elif k == "mux": r = (v[0] & v[1]) | ((v[0] ^ m) & v[2])
        else: raise ValueError(k)
        self.hs.append(r)

    def holds(self, o, k):
        return (self.val(o) >> k) & 1 == 1


GATES = ("xor", "and", "not", "or", "eq", "mux")


def trunc_site(s):
    return (s[0],) + tuple(x % M32 for x in s[1:])


def ops_semantics(n, ops):
    """The algebraic laws, operation by operation: the observable state is, per assignment,
    None or the (reason, location) of the first raised panic.  Returns (final obs list,
    tables, trace) where trace lists for each assignment the push operations that fired."""
    T = Tables(n)
    cur = [None] * T.size
    slots = {}
    for op in ops:
        k = op[0]
        if k in GATES:
            T.gate(op)
        elif k == "push":
            site = trunc_site(tuple(op[2:]))
            cur = [c if c is not None else (site if T.holds(op[1], a) else None)
                   for a, c in enumerate(cur)]                       # first failure wins
        elif k == "save":
            slots[op[1]] = list(cur)
        elif k == "replace":
            cur = list(slots[op[1]])
        elif k == "swap":
            old = cur
            cur = list(slots[op[1]])
            slots[op[2]] = old
        elif k == "muxp":
            t, f = slots[op[2]], slots[op[3]]
            cur = [t[a] if T.holds(op[1], a) else f[a] for a in range(T.size)]
        else:
            raise ValueError(k)
    return cur, T


def tree_semantics(n, prelude, nodes):
    """Source-level reading of a tree: execute in evaluation order on each assignment, the
    first push whose condition holds on the executed path is THE panic; code in branches not
    taken, arms not selected, short-circuited operands never runs."""
    T = Tables(n)
    for op in prelude:
        T.gate(op)
    # match nodes create handles (not/and/or per arm) after the prelude: mirror the numbering
    # only for truth values of the *given* conditions, which never refer to those handles.
    out = []
    for a in range(T.size):
        class Stop(Exception):
            pass
        res = [None]

        def run(nodes):
            for nd in nodes:
                k = nd[0]
                if k == "push":
                    if T.holds(nd[1], a):
                        res[0] = trunc_site(tuple(nd[2]))
                        raise Stop()
                elif k == "if":
                    run(nd[2] if T.holds(nd[1], a) else nd[3])
                elif k == "and":
                    if T.holds(nd[1], a):
                        run(nd[2])
                elif k == "or":
                    if not T.holds(nd[1], a):
                        run(nd[2])
                elif k == "match":
                    for c, body in nd[1]:
                        if T.holds(c, a):
                            run(body)
                            break
        try:
            run(nodes)
        except Stop:
            pass
        out.append(res[0])
    return out


def tree_size(nodes):
    s = 0
    for nd in nodes:
        k = nd[0]
        if k == "push": s += 1
        elif k == "if": s += 1 + tree_size(nd[2]) + tree_size(nd[3])
        elif k in ("and", "or"): s += 1 + tree_size(nd[2])
        elif k == "match": s += 1 + sum(tree_size(b) for _, b in nd[1])
    return s


def tree_kinds(nodes, acc):
    for nd in nodes:
        acc[nd[0]] = acc.get(nd[0], 0) + 1
        if nd[0] == "if":
            tree_kinds(nd[2], acc); tree_kinds(nd[3], acc)
        elif nd[0] in ("and", "or"):
            tree_kinds(nd[2], acc)
        elif nd[0] == "match":
            for _, b in nd[1]:
                tree_kinds(b, acc)
    return acc


def renumber_sites(nodes, start=0):
    """gives the i-th push (in textual order) the site site_of(i)"""
    cnt = [start]

    def go(ns):
        out = []
        for nd in ns:
            k = nd[0]
            if k == "push":
                out.append(("push", nd[1], site_of(cnt[0]))); cnt[0] += 1
            elif k == "if":
                t = go(nd[2]); f = go(nd[3]); out.append(("if", nd[1], t, f))
            elif k in ("and", "or"):
                out.append((k, nd[1], go(nd[2])))
            elif k == "match":
                out.append(("match", [(c, go(b)) for c, b in nd[1]]))
        return out
    return go(nodes)


# ---------------------------------------------------------------------------- exhaustive

def exhaustive_trees(size, push_conds, if_conds):
    """all sequences of push / if nodes of total size exactly `size` (a push counts 1, an if
    counts 1 + its branches)"""
    memo = {}

    def seqs(n):
        if n in memo:
            return memo[n]
        if n == 0:
            memo[n] = [[]]
            return memo[n]
        out = []
        for rest_n in range(n - 1, -1, -1):
            first_n = n - rest_n            # size of the first node
            firsts = []
            if first_n == 1:
                firsts += [("push", c, None) for c in push_conds]
            inner = first_n - 1
            for tn in range(inner + 1):
                fn = inner - tn
                if first_n >= 1:
                    for c in if_conds:
                        for t in seqs(tn):
                            for f in seqs(fn):
                                firsts.append(("if", c, t, f))
            for fi in firsts:
                for r in seqs(rest_n):
                    out.append([fi] + r)
        memo[n] = out
        return out

    return seqs(size)


# ---------------------------------------------------------------------------- random

def random_prelude(rng, n_inputs, n_conds):
    """condition wires built through push_* requests"""
    ops = []
    inputs = list(range(2, 2 + n_inputs))
    for i in range(n_conds):
        pool = inputs + ["h%d" % j for j in range(i)] + [0, 1]
        k = rng.choice(["and", "xor", "or", "not", "eq", "and", "or"])
        if k == "not":
            ops.append((k, rng.choice(pool)))
        else:
            ops.append((k, rng.choice(pool), rng.choice(pool)))
    return ops


def random_tree(rng, conds, size, depth=0):
    nodes = []
    left = size
    while left > 0:
        r = rng.random()
        if r < 0.5 or left < 2 or depth >= 3:
            nodes.append(("push", rng.choice(conds), None)); left -= 1
        elif r < 0.75:
            a = rng.randint(0, left - 1); b = rng.randint(0, left - 1 - a)
            nodes.append(("if", rng.choice(conds), random_tree(rng, conds, a, depth + 1),
                          random_tree(rng, conds, b, depth + 1)))
            left -= 1 + a + b
        elif r < 0.85:
            a = rng.randint(0, left - 1)
            nodes.append((rng.choice(["and", "or"]), rng.choice(conds), random_tree(rng, conds, a, depth + 1)))
            left -= 1 + a
        else:
            narms = rng.randint(1, 3)
            arms = []
            used = 1
            for _ in range(narms):
                a = rng.randint(0, max(0, min(3, left - used)))
                arms.append((rng.choice(conds), random_tree(rng, conds, a, depth + 1)))
                used += a
            nodes.append(("match", arms))
            left -= used
    return nodes


def random_ops(rng, n_inputs, length):
    """unstructured operation stream (does not follow the compile.rs protocol): the laws
    must hold for it as well"""
    ops = []
    nh = 0
    slots = []
    inputs = list(range(2, 2 + n_inputs))
    npush = 0
    for _ in range(length):
        pool = inputs + ["h%d" % j for j in range(nh)] + [0, 1]
        r = rng.random()
        if r < 0.2:
            k = rng.choice(["and", "xor", "or", "not"])
            ops.append((k, rng.choice(pool)) if k == "not" else (k, rng.choice(pool), rng.choice(pool)))
            nh += 1
        elif r < 0.55 or not slots:
            if rng.random() < 0.3 or not slots:
                if rng.random() < 0.5:
                    ops.append(("push", rng.choice(pool)) + site_of(npush)); npush += 1
                s = rng.randint(0, 5); ops.append(("save", s))
                if s not in slots: slots.append(s)
            else:
                ops.append(("push", rng.choice(pool)) + site_of(npush)); npush += 1
        elif r < 0.7:
            ops.append(("replace", rng.choice(slots)))
        elif r < 0.8:
            d = rng.randint(0, 5); ops.append(("swap", rng.choice(slots), d))
            if d not in slots: slots.append(d)
        else:
            ops.append(("muxp", rng.choice(pool), rng.choice(slots), rng.choice(slots)))
    return ops
