"""Shared machinery for /verif/check: builds, proof re-check, job running, comparison,
evidence, violations and known findings."""
import fcntl, hashlib, json, os, re, subprocess, sys, time, random, signal
from concurrent.futures import ThreadPoolExecutor

VERIF = os.path.dirname(os.path.dirname(os.path.abspath(__file__)))
REPO = os.environ.get("VERIF_REPO", "/repo")
COQ = os.path.join(VERIF, "coq")
OCAML = os.path.join(VERIF, "ocaml")
HARNESS = os.path.join(VERIF, "harness")
WORK = os.path.join(VERIF, "work")
EVID = os.path.join(VERIF, "evidence")
REPLAY = os.path.join(EVID, "replay")
GVRUN = os.path.join(HARNESS, "target", "debug", "gv-run")
GVRUN_REL = os.path.join(HARNESS, "target", "release", "gv-run")
MODELRUN = os.path.join(OCAML, "_build", "default", "modelrun.exe")
NCPU = min(16, os.cpu_count() or 4)

ENV = dict(os.environ)
ENV["CARGO_NET_OFFLINE"] = "true"
ENV.setdefault("RUST_MIN_STACK", str(64 * 1024 * 1024))

FORBIDDEN = re.compile(
    r"\b(Admitted|admit|Axiom|Axioms|Parameter|Parameters|Conjecture|Conjectures|Hypothesis|Hypotheses|Variable|Variables)\b"
    r"|Unset\s+Guard|bypass_check|Admit\s+Obligations|type-in-type|impredicative-set|Unset\s+Universe|Unset\s+Positivity")


def log(*a):
    print(*a, file=sys.stderr, flush=True)


def sh(cmd, cwd=None, timeout=None, env=None):
    p = subprocess.run(cmd, cwd=cwd, timeout=timeout, env=env or ENV, shell=isinstance(cmd, str),
                       stdout=subprocess.PIPE, stderr=subprocess.STDOUT, text=True, errors="replace")
    out = "\n".join(l for l in p.stdout.splitlines() if not l.startswith("WARNING: "))
    return p.returncode, out


class BuildLock:
    def __enter__(self):
        os.makedirs(WORK, exist_ok=True)
        self.f = open(os.path.join(VERIF, ".build.lock"), "w")
        fcntl.flock(self.f, fcntl.LOCK_EX)
        return self

    def __exit__(self, *a):
        fcntl.flock(self.f, fcntl.LOCK_UN)
        self.f.close()


# --------------------------------------------------------------------------- builds

def coq_sources():
    out = []
    for root, _, files in os.walk(COQ):
        for f in files:
            if f.endswith(".v"):
                out.append(os.path.join(root, f))
    return sorted(out)


def scan_forbidden():
    """Admitted / Axiom / ... anywhere in the development (comments are stripped first).
    Section-local Variable/Hypothesis are allowed only inside a Section."""
    bad = []
    for path in coq_sources():
        src = open(path).read()
        # strip comments (nested)
        out, depth, i = [], 0, 0
        while i < len(src):
            if src.startswith("(*", i):
                depth += 1; i += 2
            elif src.startswith("*)", i) and depth > 0:
                depth -= 1; i += 2
            else:
                if depth == 0:
                    out.append(src[i])
                i += 1
        code = "".join(out)
        sect = 0
        for lineno, line in enumerate(code.split("\n"), 1):
            if re.match(r"\s*Section\s+\w+", line):
                sect += 1
            if re.match(r"\s*End\s+\w+", line) and sect > 0:
                sect -= 1  # (also matches Module ends; harmless: only lowers the count)
            for m in FORBIDDEN.finditer(line):
                w = m.group(0)
                if w in ("Variable", "Variables", "Hypothesis", "Hypotheses") and sect > 0:
                    continue
                bad.append(f"{os.path.relpath(path, VERIF)}:{lineno}: {w}")
    return bad


def build_coq():
    """Full .vo build of the development (no-op when current). Returns (ok, log)."""
    if not os.path.exists(os.path.join(COQ, "Makefile")) or \
            os.path.getmtime(os.path.join(COQ, "Makefile")) < os.path.getmtime(os.path.join(COQ, "_CoqProject")):
        rc, out = sh("coq_makefile -f _CoqProject -o Makefile", cwd=COQ)
        if rc != 0:
            return False, out
    # translator: the hash-iteration sites of the current /repo sources (only Props/C06.v depends on them)
    try:
        import sites
        sites.regenerate(VERIF, REPO)
    except Exception as e:  # a source tree the scanner cannot read is a broken obligation of C06, not of the build
        log(f"sites.py failed: {e}")
    rc, out = sh(f"timeout 3000 make -k -j{NCPU}", cwd=COQ)
    return rc == 0, out


def prop_uptodate(prop_file):
    """the compiled property file and everything it depends on are current (used to keep a failure in one
    property's files from alarming the others)"""
    rc, _ = sh(f"make -q Props/{prop_file}.vo", cwd=COQ)
    return rc == 0


def build_ocaml():
    """Re-extract when any .vo is newer than the stamp, then dune build."""
    gen = os.path.join(OCAML, "gen")
    os.makedirs(gen, exist_ok=True)
    stamp = os.path.join(gen, ".stamp")
    newest = 0
    for root, _, files in os.walk(COQ):
        for f in files:
            if f.endswith(".vo") or (f == "Extract.v"):
                newest = max(newest, os.path.getmtime(os.path.join(root, f)))
    if not os.path.exists(stamp) or os.path.getmtime(stamp) < newest:
        for f in os.listdir(gen):
            if f.endswith((".ml", ".mli")):
                os.remove(os.path.join(gen, f))
        rc, out = sh("timeout 900 coqc -Q ../../coq GV ../../coq/Extract/Extract.v", cwd=gen)
        for f in ("Extract.vo", "Extract.glob", ".Extract.aux", "Extract.vos", "Extract.vok"):
            try:
                os.remove(os.path.join(COQ, "Extract", f))
            except OSError:
                pass
        if rc != 0:
            return False, out
        open(stamp, "w").write(str(time.time()))
    rc, out = sh("timeout 900 dune build ./modelrun.exe", cwd=OCAML)
    return rc == 0, out


def build_harness(release=False):
    cmd = "timeout 1800 cargo build --offline" + (" --release" if release else "")
    rc, out = sh(cmd, cwd=HARNESS)
    return rc == 0, out


def print_assumptions(prop_file, theorems):
    """Loads the compiled property file and prints the assumptions of each theorem.
    Returns dict name -> text."""
    os.makedirs(WORK, exist_ok=True)
    path = os.path.join(WORK, f"pa_{prop_file}_{os.getpid()}.v")
    with open(path, "w") as f:
        f.write(f"From GV Require Import Props.{prop_file}.\n")
        for t in theorems:
            f.write(f'Goal True. idtac "@@BEGIN {t}". Abort.\nPrint Assumptions {t}.\n')
        f.write('Goal True. idtac "@@END". Abort.\n')
    rc, out = sh(f"timeout 600 coqc -noglob -Q {COQ} GV {path}", cwd=WORK)
    for ext in (".v", ".vo", ".vok", ".vos"):
        try:
            os.remove(path[:-2] + ext)
        except OSError:
            pass
    try:
        os.remove(os.path.join(WORK, "." + os.path.basename(path)[:-2] + ".aux"))
    except OSError:
        pass
    res = {}
    if rc != 0:
        return None, out
    cur = None
    for line in out.splitlines():
        m = re.match(r"@@BEGIN (\S+)", line)
        if m:
            cur = m.group(1); res[cur] = ""
        elif line.startswith("@@END"):
            cur = None
        elif cur is not None:
            res[cur] += line.strip() + " "
    return res, out


def theorems_in(prop_file):
    src = open(os.path.join(COQ, "Props", prop_file + ".v")).read()
    return re.findall(r"^\s*(?:Theorem|Lemma|Corollary)\s+(\w+)", src, re.M)


ALLOWED_AXIOMS = set()  # none: every theorem must be "Closed under the global context"


# --------------------------------------------------------------------------- jobs

def parse_results(text):
    """result file -> dict id -> payload string (one top-level form per line)."""
    res = {}
    for line in text.splitlines():
        line = line.strip()
        if not line.startswith("("):
            continue
        sp = line.find(" ")
        if sp < 0:
            continue
        res[line[1:sp]] = line[sp + 1:-1]
    return res


def job_id(job):
    m = re.match(r"\(\S+\s+(\S+)", job)
    return m.group(1)


def _child_limits():
    """deep (non-tail) recursion of the extracted model over long wire lists needs a large stack"""
    import resource
    try:
        resource.setrlimit(resource.RLIMIT_STACK, (resource.RLIM_INFINITY, resource.RLIM_INFINITY))
    except (ValueError, OSError):
        pass


def _run_shard(exe, jobs, tag, timeout_per_job, base_timeout):
    """Runs `exe` over jobs; a job that kills the process or exceeds the deadline is reported
    as (abort ..)/(timeout) and the remaining jobs are run in a fresh process."""
    results = {}
    pending = list(jobs)
    n = 0
    while pending:
        n += 1
        jf = os.path.join(WORK, f"{tag}.{n}.jobs")
        rf = os.path.join(WORK, f"{tag}.{n}.res")
        with open(jf, "w") as f:
            f.write("\n".join(pending) + "\n")
        if os.path.exists(rf):
            os.remove(rf)
        to = base_timeout + timeout_per_job * len(pending)
        status = None
        try:
            p = subprocess.run([exe, jf, rf], env=ENV, timeout=to, stdout=subprocess.PIPE,
                               stderr=subprocess.PIPE, preexec_fn=_child_limits)
            if p.returncode != 0:
                status = f"(abort {p.returncode})"
        except subprocess.TimeoutExpired:
            status = "(timeout)"
        got = parse_results(open(rf, errors="replace").read()) if os.path.exists(rf) else {}
        results.update(got)
        for fn in (jf, rf):
            try:
                os.remove(fn)
            except OSError:
                pass
        if status is None:
            missing = [j for j in pending if job_id(j) not in got]
            for j in missing:
                results[job_id(j)] = "(no-result)"
            break
        # first job without a result is the offender
        idx = 0
        while idx < len(pending) and job_id(pending[idx]) in got:
            idx += 1
        if idx >= len(pending):
            break
        if status == "(timeout)" and len(pending) - idx > 1 and timeout_per_job * 1 < to:
            # a whole-batch deadline does not single out a job: re-run it alone
            one = pending[idx]
            r1 = _run_single(exe, one, tag + ".s", max(5.0, timeout_per_job * 20))
            results[job_id(one)] = r1
        else:
            results[job_id(pending[idx])] = status
        pending = pending[idx + 1:]
    return results


def _run_single(exe, job, tag, timeout):
    jf = os.path.join(WORK, f"{tag}.one.jobs")
    rf = os.path.join(WORK, f"{tag}.one.res")
    with open(jf, "w") as f:
        f.write(job + "\n")
    if os.path.exists(rf):
        os.remove(rf)
    try:
        p = subprocess.run([exe, jf, rf], env=ENV, timeout=timeout, stdout=subprocess.PIPE,
                           stderr=subprocess.PIPE, preexec_fn=_child_limits)
        got = parse_results(open(rf, errors="replace").read()) if os.path.exists(rf) else {}
        if job_id(job) in got:
            return got[job_id(job)]
        return f"(abort {p.returncode})"
    except subprocess.TimeoutExpired:
        return "(timeout)"
    finally:
        for fn in (jf, rf):
            try:
                os.remove(fn)
            except OSError:
                pass


def run_jobs(exe, jobs, tag, shards=NCPU, timeout_per_job=0.5, base_timeout=60):
    os.makedirs(WORK, exist_ok=True)
    if not jobs:
        return {}
    shards = max(1, min(shards, (len(jobs) + 7) // 8))
    parts = [jobs[i::shards] for i in range(shards)]
    results = {}
    with ThreadPoolExecutor(max_workers=shards) as ex:
        futs = [ex.submit(_run_shard, exe, part, f"{tag}.{os.getpid()}.{i}", timeout_per_job, base_timeout)
                for i, part in enumerate(parts)]
        for f in futs:
            results.update(f.result())
    return results


def run_both(jobs, tag, **kw):
    """Returns (rust_results, model_results)."""
    with ThreadPoolExecutor(max_workers=2) as ex:
        fr = ex.submit(run_jobs, GVRUN, jobs, tag + ".rs", **kw)
        fm = ex.submit(run_jobs, MODELRUN, jobs, tag + ".ml", **kw)
        return fr.result(), fm.result()


# --------------------------------------------------------------------------- sexp (python side)

def sx_parse(s):
    """Parse one or more S-expressions into nested python lists / strs (quoted strings are
    returned as ('str', bytes-as-str))."""
    pos = 0
    n = len(s)

    def skip():
        nonlocal pos
        while pos < n and s[pos] in " \t\r\n":
            pos += 1

    def parse():
        nonlocal pos
        skip()
        c = s[pos]
        if c == "(":
            pos += 1
            items = []
            while True:
                skip()
                if s[pos] == ")":
                    pos += 1
                    return items
                items.append(parse())
        if c == '"':
            pos += 1
            out = []
            while True:
                c = s[pos]; pos += 1
                if c == '"':
                    return ("str", "".join(out))
                if c == "\\":
                    e = s[pos]; pos += 1
                    if e == "n": out.append("\n")
                    elif e == "t": out.append("\t")
                    elif e == "r": out.append("\r")
                    elif e == "x":
                        out.append(chr(int(s[pos:pos + 2], 16))); pos += 2
                    else: out.append(e)
                else:
                    out.append(c)
        st = pos
        while pos < n and s[pos] not in " \t\r\n()\"":
            pos += 1
        return s[st:pos]

    out = []
    while True:
        skip()
        if pos >= n:
            return out
        out.append(parse())


def sx_field(l, key):
    for x in l:
        if isinstance(x, list) and x and x[0] == key:
            return x
    return None


def quote(s):
    out = ['"']
    for ch in s:
        c = ord(ch)
        if ch == '"': out.append('\\"')
        elif ch == "\\": out.append("\\\\")
        elif ch == "\n": out.append("\\n")
        elif 0x20 <= c <= 0x7e: out.append(ch)
        else: out.append("\\x%02x" % (c & 0xff))
    out.append('"')
    return "".join(out)


# --------------------------------------------------------------------------- replay

def generic_replay(path):
    """./check <ID> --replay <file>: re-runs the recorded case against the CURRENT /repo and the current model and
    prints both sides; exit 1 if the recorded discrepancy is still there, 0 if it is gone."""
    import progcheck as PC
    r = json.load(open(path))
    rep = r.get("replay", {}) if isinstance(r.get("replay"), dict) else {}
    print("property:", r.get("property"), "|", r.get("what", "")[:300])
    with BuildLock():
        build_coq(); build_ocaml(); build_harness()
    if "program" in rep:
        src = rep["program"]
        given = rep.get("inputs_per_param")
        job = f"(program q0 (src {quote(src)})" + (f" (given {given})" if given else " (rand 8) (seed 1)") + ")"
        rs = run_jobs(GVRUN, [job], "replay.rs", timeout_per_job=20.0)
        out = rs.get("q0", "(no-result)")
        print("real compiler:", out[:400])
        bad = False
        if out.startswith("(compile ok)"):
            forms = PC.split_top(out)
            ast, inss, runs = PC.field(forms, "ast"), PC.field(forms, "inss"), PC.field(forms, "runs")
            ml = run_jobs(MODELRUN, [f"(sem s0 {ast} {inss})", f"(tsem t0 {ast} {inss})"], "replay.ml", timeout_per_job=20.0)
            sem = PC.split_top(ml.get("s0", ""))
            sem = sem[1:] if sem and sem[0].startswith("(wt ") else sem
            tsem = PC.split_top(ml.get("t0", ""))
            print("source semantics (Sem.v):     ", " ".join(sem)[:400])
            print("bit-level semantics (TSem.v): ", " ".join(tsem)[:400])
            for cfg in PC.split_top(runs[len("(runs "):-1]):
                print("circuit", cfg[:400])
                res = PC.split_top(cfg[cfg.index(" ") + 1:-1]) if " " in cfg else []
                for k, x in enumerate(res):
                    if k < len(tsem) and tsem[k].startswith(("(ok ", "(panic ")) and tsem[k] != x:
                        bad = True
                    if k < len(sem) and PC.classify(sem[k], x) not in (None, "outside-model"):
                        bad = True
            if rep.get("expected") and rep.get("expected") not in out:
                bad = True
            import lowertie
            t = lowertie.run_tie("replay", [("replay", src)])[0]
            print("structural tie (Compile/Lower.v vs compile.rs):", t["status"], t.get("detail", "")[:300] if t["status"] != "equal" else "")
            if t["status"] in ("differs", "model-failed"):
                bad = True
        else:
            bad = "crash" in out or "abort" in out or "timeout" in out or "accepted" in r.get("what", "")
        print("REPRODUCED" if bad else "not reproduced on the current tree")
        return 1 if bad else 0
    if "job" in rep:
        job = rep["job"]
        rs = run_jobs(GVRUN, [job], "replay.rs", timeout_per_job=30.0)
        ml = run_jobs(MODELRUN, [job], "replay.ml", timeout_per_job=30.0)
        a, b = rs.get(job_id(job), "(no-result)"), ml.get(job_id(job), "(no-result)")
        print("real code:", a[:1500]); print("model:    ", b[:1500])
        a2 = re.sub(r"\s*\(truth .*\)$", "", a)
        print("REPRODUCED (model and code differ)" if a2 != b else "model and code agree on this job now")
        return 1 if a2 != b else 0
    print(json.dumps(rep, indent=1)[:3000])
    print("this replay file has no automatic replay; see its fields above")
    return 1


# --------------------------------------------------------------------------- findings / evidence

def load_known():
    p = os.path.join(VERIF, "known_findings.json")
    if not os.path.exists(p):
        return []
    return json.load(open(p)).get("findings", [])


def coqchk(prop_file):
    """coqchk -o on GV.Props.<prop_file>: True iff it succeeds and reports no axioms, no type-in-type, no
    unsafe fixpoints, no assumed positivity."""
    try:
        p = subprocess.run(["coqchk", "-o", "-silent", "-Q", ".", "GV", "GV.Props." + prop_file], cwd=COQ,
                           stdout=subprocess.PIPE, stderr=subprocess.STDOUT, timeout=3000, text=True, env=ENV)
    except subprocess.TimeoutExpired:
        return False, "coqchk timed out"
    out = p.stdout
    flat = " ".join(out.split())
    good = (p.returncode == 0 and "* Axioms: <none>" in flat
            and "relying on type-in-type: <none>" in flat and "unsafe (co)fixpoints: <none>" in flat
            and "positivity is assumed: <none>" in flat)
    return good, out


class Check:
    """State of one property check run."""

    def __init__(self, pid, tier, seed):
        self.pid, self.tier, self.seed = pid, tier, seed
        self.t0 = time.time()
        self.rng = random.Random(seed * 1000003 + int(hashlib.sha256(pid.encode()).hexdigest()[:8], 16))
        self.violations = []      # (what, replay dict)
        self.known_hits = []
        self.obligations = []     # (name, ok, detail)
        self.coverage = {}
        self.samples = []
        self.assumptions = []
        self.known = [k for k in load_known() if k.get("property") == pid and k.get("status") == "known"]
        os.makedirs(REPLAY, exist_ok=True)
        os.makedirs(WORK, exist_ok=True)
        prev = os.path.join(WORK, "prev_replay")     # the previous run's replays stay readable (not evidence)
        os.makedirs(prev, exist_ok=True)
        for f in os.listdir(REPLAY):
            if f.startswith(pid + "-"):
                os.replace(os.path.join(REPLAY, f), os.path.join(prev, f))

    # -- obligations (proof side)
    def obligation(self, name, ok, detail=""):
        self.obligations.append((name, bool(ok), detail))

    def prepare(self, prop_file, need_harness=True, need_model=True, release=False):
        """Builds everything and re-checks the theorems of Props/<prop_file>.v."""
        with BuildLock():
            ok, out = build_coq()
            if not ok:
                log(out[-3000:])
                ok = prop_uptodate(prop_file)     # some other property's file does not build: not ours
            self.coq_ok = ok
            bad = scan_forbidden()
            self.obligation("no Admitted/Axiom/Parameter/guard switches in the development", not bad, "; ".join(bad[:5]))
            thms = theorems_in(prop_file)
            pa = None
            if ok:
                pa, paout = print_assumptions(prop_file, thms)
            for t in thms:
                if pa is None or t not in pa:
                    self.obligation(f"theorem {t} (Props/{prop_file}.v) checks", False, "does not compile")
                else:
                    txt = pa[t].strip()
                    closed = txt.startswith("Closed under the global context")
                    self.obligation(f"theorem {t} (Props/{prop_file}.v) checks; assumptions: {txt[:80]}", closed,
                                    "" if closed else "unexpected assumptions: " + txt[:300])
            if ok and self.tier == "thorough":
                # independent re-check of the compiled property file and everything it depends on
                cok, cout = coqchk(prop_file)
                self.obligation(f"coqchk re-checks Props/{prop_file}.vo and its dependencies; axioms: none", cok,
                                cout[-400:] if not cok else "")
            self.model_ok = self.harness_ok = True
            if need_model:
                if ok:
                    mok, mout = build_ocaml()
                else:
                    mok, mout = os.path.exists(MODELRUN), "coq build failed; using the last model runner"
                self.model_ok = mok
                if not mok:
                    log(mout[-3000:])
                self.obligation("model extraction and runner build", mok, mout[-300:] if not mok else "")
            if need_harness:
                hok, hout = build_harness()
                self.harness_ok = hok
                if not hok:
                    log(hout[-3000:])
                self.obligation("harness builds against /repo working tree (feature verif_hooks)", hok,
                                hout[-300:] if not hok else "")
                if release and hok:
                    hok2, hout2 = build_harness(release=True)
                    self.obligation("release harness builds", hok2, hout2[-300:] if not hok2 else "")
        return self.coq_ok and self.model_ok and self.harness_ok

    # -- violations
    def match_known(self, key):
        for k in self.known:
            if k.get("key") == key:
                return k
        return None

    def violation(self, what, replay, key=None, found_input=True):
        """Record a violation (or a known finding when `key` is listed)."""
        if key is not None:
            k = self.match_known(key)
            if k is not None:
                if k["key"] not in [h["key"] for h in self.known_hits]:
                    self.known_hits.append(k)
                return
        self.violations.append((what, replay, found_input))

    def finish(self, level="proof", extra_assumptions=None, trusted=None, checker_cmd=None):
        wall = time.time() - self.t0
        for k in self.known_hits:
            print(f"KNOWN-FINDING: property={self.pid} {k['what']}")
        broken = [o for o in self.obligations if not o[1]]
        rc = 0
        lines = []
        seen = set()
        any_found = any(f for _, _, f in self.violations)
        for what, replay, found in self.violations:
            if any_found and not found:
                continue  # a concrete failing input exists: report that, not the bare mismatch
            h = hashlib.sha256(json.dumps(replay, sort_keys=True, default=str).encode()).hexdigest()[:12]
            if h in seen:
                continue
            seen.add(h)
            path = os.path.join(REPLAY, f"{self.pid}-{h}.json")
            json.dump({"property": self.pid, "what": what, "replay": replay, "seed": self.seed, "tier": self.tier},
                      open(path, "w"), indent=1, default=str)
            lines.append(f"VIOLATION property={self.pid} replay={path}" + ("" if found else " no-failing-input-found"))
            rc = 1
            if len(lines) >= 10:
                break
        if broken and not any(f for _, _, f in self.violations):
            # an obligation no longer checks and the search found no failing input
            path = os.path.join(REPLAY, f"{self.pid}-obligation.json")
            json.dump({"property": self.pid, "what": "proof obligation or correspondence no longer checks",
                       "broken": [{"obligation": n, "detail": d} for n, _, d in broken],
                       "seed": self.seed, "tier": self.tier}, open(path, "w"), indent=1)
            if not lines:
                lines.append(f"VIOLATION property={self.pid} replay={path} no-failing-input-found")
            rc = 1
        for l in lines:
            print(l)
        cov = dict(self.coverage)
        cov["obligations"] = len(self.obligations)
        cov["discharged"] = sum(1 for o in self.obligations if o[1])
        cov["obligation_list"] = [{"name": n, "ok": ok, **({"detail": d} if d else {})} for n, ok, d in self.obligations]
        cov["checker_cmd"] = checker_cmd or f"make -C {COQ} (coqc 8.16.1, full .vo build) + coqc Print Assumptions per theorem"
        cov["trusted_base"] = trusted or []
        cov["samples"] = self.samples[:8] if self.samples else [o[0] for o in self.obligations[:3]]
        cov.setdefault("evaluations", 0)
        cov.setdefault("distinct_nontrivial", 0)
        ev = {"property_id": self.pid, "tier": self.tier, "seed": self.seed, "level": level,
              "coverage": cov, "assumptions": (extra_assumptions or []), "wall_s": round(wall, 2),
              "violations": len(lines),
              "known_findings_reproduced": [k["key"] for k in self.known_hits]}
        os.makedirs(EVID, exist_ok=True)
        json.dump(ev, open(os.path.join(EVID, f"{self.pid}.json"), "w"), indent=1, default=str)
        log(f"[{self.pid}] {self.tier} done in {wall:.1f}s: obligations {cov['discharged']}/{cov['obligations']}, "
            f"evaluations {cov.get('evaluations')}, violations {len(lines)}")
        return rc


COMMON_TRUSTED = [
    "Coq 8.16.1 kernel (coqc, full .vo build; vm_compute where a theorem says so; no native_compute)",
    "no axioms: every property theorem prints 'Closed under the global context'",
    "extraction: ExtrOcamlBasic only (bool/option/unit/list/prod/sumbool to OCaml natives), no Extract Constant/Inductive of our own; N/Z/positive stay Coq binary numbers; OCaml 4.13.1",
    "hand-written OCaml driver /verif/ocaml/{sx,conv,j*,modelrun}.ml (S-expression reader, number/bit converters, result printer)",
    "Rust harness /verif/harness (job reader, catch_unwind wrapper, result printer) built against /repo's working tree with feature verif_hooks",
    "Python generators, comparer and known-findings matcher under /verif/tools",
    "the correspondence is differential: model = code on the instances run; theorems are about the model",
]
