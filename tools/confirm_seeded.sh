#!/bin/bash
# confirms each seeded change in a scratch worktree of /repo: with the change the existing suite passes
# and the demonstration fails; without it the demonstration passes. usage: confirm_seeded.sh <dir-with-patch.diff-demo.rs> ...
W=/tmp/confirm
for d in "$@"; do
  name=$(basename $d)
  cd $W && git checkout -q -- . && rm -f tests/demo.rs
  if ! git apply $d/patch.diff; then echo "$name: PATCH-DOES-NOT-APPLY"; continue; fi
  CARGO_NET_OFFLINE=true cargo test --offline --no-fail-fast > /tmp/confirm_$name.with.log 2>&1
  suites_ok=$(grep -c "^test result: ok" /tmp/confirm_$name.with.log); suites_bad=$(grep -c "^test result: FAILED" /tmp/confirm_$name.with.log)
  cp $d/demo.rs tests/demo.rs
  CARGO_NET_OFFLINE=true cargo test --offline --test demo > /tmp/confirm_$name.demo_with.log 2>&1
  demo_with=$(grep "^test result" /tmp/confirm_$name.demo_with.log | head -1)
  git apply -R $d/patch.diff
  CARGO_NET_OFFLINE=true cargo test --offline --test demo > /tmp/confirm_$name.demo_without.log 2>&1
  demo_without=$(grep "^test result" /tmp/confirm_$name.demo_without.log | head -1)
  rm -f tests/demo.rs
  echo "$name: suite_with_change ok=$suites_ok failed=$suites_bad | demo with: $demo_with | demo without: $demo_without"
done
cd $W && git checkout -q -- .
