#!/usr/bin/env python3
"""Translator (trusted, DESIGN.md §3.3 / §11.5): regenerates coq/Generated/Sites.v from /repo/src on every
build. It lists every place where the compiler iterates a HashMap / HashSet (`for .. in`, .iter(), .keys(),
.values(), .into_iter(), .drain(), .iter_mut(), .values_mut()) as a key
    file|enclosing fn|normalised source line|ordinal of that line within the fn
The Coq theorem Props/C06.v:C06_hash_iteration_sites_discharged requires every key to be listed in the
committed table Compile/SiteTable.v (with the reason why its order cannot reach the emitted circuit). A new,
changed or moved iteration makes that theorem fail: a broken obligation of C06.
Approximation (regular expressions, no Rust parser): a name is hash-typed in a file if it is declared there
with a HashMap/HashSet type annotation, initialised by HashMap::new()/HashSet::new()/with_capacity, collected
into an annotated HashMap, or is one of the HashMap-typed struct fields of any source file."""
import os, re, sys

FILES = ["ast.rs", "check.rs", "circuit.rs", "compile.rs", "env.rs", "eval.rs", "lib.rs", "literal.rs",
         "register_circuit.rs", "convert.rs", "circuit_type.rs"]
# names that are hash-typed through a pattern binding the regular expressions cannot see (the inner map of const_deps)
EXTRA_NAMES = {"compile.rs": {"deps"}, "check.rs": {"deps"}, "lib.rs": {"deps"}, "eval.rs": {"deps"}}
ITER_METHODS = r"\.(iter|iter_mut|keys|values|values_mut|into_iter|drain|into_keys|into_values)\s*\("


def strip_comments(src):
    out, i, n = [], 0, len(src)
    while i < n:
        if src.startswith("//", i):
            while i < n and src[i] != "\n":
                i += 1
        elif src.startswith("/*", i):
            depth = 1; i += 2
            while i < n and depth:
                if src.startswith("/*", i): depth += 1; i += 2
                elif src.startswith("*/", i): depth -= 1; i += 2
                else:
                    if src[i] == "\n": out.append("\n")
                    i += 1
        elif src[i] == '"':
            out.append('"'); i += 1
            while i < n and src[i] != '"':
                if src[i] == "\\": i += 1
                if i < n and src[i] == "\n": out.append("\n")
                i += 1
            out.append('"'); i += 1
        else:
            out.append(src[i]); i += 1
    return "".join(out)


def hash_fields(srcs):
    """HashMap/HashSet-typed struct fields of all files"""
    fields = set()
    for src in srcs.values():
        for m in re.finditer(r"^\s*(?:pub(?:\([^)]*\))?\s+)?(\w+)\s*:\s*Hash(?:Map|Set)\s*<.*,\s*$", src, re.M):
            fields.add(m.group(1))
    return fields


def local_hash_names(src):
    names = set()
    for m in re.finditer(r"(\w+)\s*:\s*&?\s*(?:mut\s+)?(?:std::collections::)?Hash(?:Map|Set)\s*<", src):
        names.add(m.group(1))
    for m in re.finditer(r"let\s+(?:mut\s+)?(\w+)\s*(?::[^=;]+)?=\s*Hash(?:Map|Set)::(?:new|with_capacity)", src):
        names.add(m.group(1))
    for m in re.finditer(r"let\s+(?:mut\s+)?(\w+)\s*:\s*Hash(?:Map|Set)", src):
        names.add(m.group(1))
    for m in re.finditer(r"let\s+(?:mut\s+)?(\w+)\s*=[^;]*collect::<\s*Hash(?:Map|Set)", src):
        names.add(m.group(1))
    # destructured struct patterns `CachedPanicResult { result: t, cache: cache_t }`
    for m in re.finditer(r"cache\s*:\s*(\w+)", src):
        names.add(m.group(1))
    return names


def sites(repo="/repo"):
    srcs = {}
    for f in FILES:
        p = os.path.join(repo, "src", f)
        if os.path.exists(p):
            srcs[f] = strip_comments(open(p, errors="replace").read())
    fields = hash_fields(srcs)
    out = []
    for f, src in srcs.items():
        # split into function chunks: local names are scoped to the enclosing fn
        starts = [m.start() for m in re.finditer(r"\bfn\s+\w+", src)]
        bounds = [0] + starts + [len(src)]
        counts = {}
        for a, b in zip(bounds, bounds[1:]):
            chunk = src[a:b]
            m = re.match(r"fn\s+(\w+)", chunk)
            fn = m.group(1) if m else "(top)"
            names = local_hash_names(chunk) | fields | EXTRA_NAMES.get(f, set())
            if not names:
                continue
            alt = "|".join(sorted(re.escape(n) for n in names))
            recv = re.compile(r"(?<![\w])(?:[\w.&*()]*?[.&(\s])?(" + alt + r")\s*" + ITER_METHODS)
            forin = re.compile(r"\bfor\s+.+?\s+in\s+(.+?)\s*\{")
            for line in chunk.split("\n"):
                norm = " ".join(line.split())
                hit = bool(recv.search(line))
                fm = forin.search(line)
                if fm and re.fullmatch(r"[&*\s]*(?:mut\s+)?(?:\w+\.)*(" + alt + r")", fm.group(1).strip()):
                    hit = True
                if hit:
                    k = (f, fn, norm)
                    counts[k] = counts.get(k, 0) + 1
                    out.append(f"{f} ## {fn} ## {norm} ## {counts[k]}")
    return out


def coq_string(s):
    return '"' + s.replace('"', '""') + '"'


def render(keys):
    lines = ["(* GENERATED by tools/sites.py from /repo/src on every build: do not edit. *)",
             "From Coq Require Import String List.", "Import ListNotations.", "Open Scope string_scope.", "",
             "Definition hash_iteration_sites : list string :=", "  ["]
    lines += ["    " + coq_string(k) + (";" if i + 1 < len(keys) else "") for i, k in enumerate(keys)]
    lines += ["  ].", ""]
    return "\n".join(lines)


def regenerate(verif, repo="/repo"):
    keys = sites(repo)
    text = render(keys)
    path = os.path.join(verif, "coq", "Generated", "Sites.v")
    os.makedirs(os.path.dirname(path), exist_ok=True)
    if not os.path.exists(path) or open(path).read() != text:
        open(path, "w").write(text)
    return keys


if __name__ == "__main__":
    verif = os.path.dirname(os.path.dirname(os.path.abspath(__file__)))
    ks = sites(sys.argv[1] if len(sys.argv) > 1 else "/repo")
    for k in ks:
        print(k)
    if "--write" in sys.argv:
        regenerate(verif)
