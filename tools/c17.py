"""C17 — ill-typed programs are rejected: every static rule violation is a type error."""
import re
from vlib import *
import progcheck as PC

# statements that break one documented rule each, wherever they are inserted
def bad_statements(rng):
    v = "zq%d" % rng.randint(0, 999)
    return [
        ("operand types disagree", f"let {v}: u8 = 1u8 + 1u16;"),
        ("operand types disagree (signedness)", f"let {v}: i8 = 1i8 + 1u8;"),
        ("binding type disagrees with annotation", f"let {v}: u8 = true;"),
        ("branch types disagree", f"let {v}: u8 = if true {{ 1u8 }} else {{ false }};"),
        ("non-Boolean condition", f"let {v}: u8 = if 7u8 {{ 1u8 }} else {{ 2u8 }};"),
        ("unknown identifier", f"let {v}: u8 = undefined_identifier_{v};"),
        ("out-of-scope identifier", f"{{ let inner_{v}: u8 = 1u8; }} let {v}: u8 = inner_{v};"),
        ("identifier of an earlier match arm", f"let {v}: u8 = match (true, 1u8) {{ (true, arm_{v}) => arm_{v}, (false, _) => arm_{v} }};"),
        ("identifier of a later match arm", f"let {v}: u8 = match (true, 1u8) {{ (true, _) => arm_{v}, (false, arm_{v}) => arm_{v} }};"),
        ("identifier of a match arm after the match", f"let {v}: u8 = match 1u8 {{ arm_{v} => arm_{v} }}; let w_{v}: u8 = arm_{v};"),
        ("identifier of an if branch in the else branch", f"let {v}: u8 = if true {{ let br_{v}: u8 = 1u8; br_{v} }} else {{ br_{v} }};"),
        ("identifier of an if branch after the if", f"if true {{ let br_{v}: u8 = 1u8; }} let {v}: u8 = br_{v};"),
        ("loop variable after the loop", f"for it_{v} in [1u8, 2u8] {{ let w_{v}: u8 = it_{v}; }} let {v}: u8 = it_{v};"),
        ("loop body binding after the loop", f"for it_{v} in [1u8, 2u8] {{ let w_{v}: u8 = it_{v}; }} let {v}: u8 = w_{v};"),
        ("join-expression loop variable after the loop", f"for (ja_{v}, jb_{v}) in join([(1u8, 2u8)], [(1u8, 3u8)]) {{ let w_{v}: u8 = ja_{v}.1; }} let {v}: u8 = jb_{v}.1;"),
        ("join loop variable after the loop", f"for (ja_{v}, jb_{v}) in join_iter([(1u8, 2u8)], [(1u8, 3u8)]) {{ let w_{v}: u8 = ja_{v}.1; }} let {v}: u8 = jb_{v}.1;"),
        ("join loop body binding after the loop", f"for (ja_{v}, jb_{v}) in join_iter([(1u8, 2u8)], [(1u8, 3u8)]) {{ let w_{v}: u8 = ja_{v}.1; }} let {v}: u8 = w_{v};"),
        ("mutable shadow in a for body leaks mutability", f"let {v}: u8 = 1u8; for it_{v} in [1u8, 2u8] {{ let mut {v}: u8 = it_{v}; {v} = 2u8; }} {v} = 3u8;"),
        ("mutable shadow in a join loop body leaks mutability", f"let {v}: u8 = 1u8; for (ja_{v}, jb_{v}) in join_iter([(1u8, 2u8)], [(1u8, 3u8)]) {{ let mut {v}: u8 = ja_{v}.1; {v} = jb_{v}.1; }} {v} = 3u8;"),
        ("mutable shadow in a block leaks mutability", f"let {v}: u8 = 1u8; {{ let mut {v}: u8 = 5u8; {v} = 2u8; }} {v} = 3u8;"),
        ("mutable shadow in an if branch leaks mutability", f"let {v}: u8 = 1u8; if true {{ let mut {v}: u8 = 5u8; {v} = 2u8; }} {v} = 3u8;"),
        ("mutable shadow in a match arm leaks mutability", f"let {v}: u8 = 1u8; let m_{v}: u8 = match 1u8 {{ _ => {{ let mut {v}: u8 = 5u8; {v} = 2u8; {v} }} }}; {v} = 3u8;"),
        ("for loop over a non-array", f"for it_{v} in 5u8 {{ let w_{v}: u8 = it_{v}; }}"),
        ("join loop over arrays with different key types", f"for (ja_{v}, jb_{v}) in join_iter([(1u8, 2u8)], [(1u16, 3u8)]) {{ let w_{v}: u8 = ja_{v}.1; }}"),
        ("identifier of a block expression after it", f"let {v}: u8 = {{ let bl_{v}: u8 = 1u8; bl_{v} }} + bl_{v};"),
        ("identifier of an enum arm in another arm", f"let {v}: u8 = match (1u8, 2u8) {{ (0u8, p_{v}) => p_{v}, (q_{v}, _) => p_{v} }};"),
        ("use before definition", f"let {v}: u8 = later_{v}; let later_{v}: u8 = 1u8;"),
        ("assignment to immutable binding", f"let {v}: u8 = 1u8; {v} = 2u8;"),
        ("assignment of a wrong type", f"let mut {v}: u8 = 1u8; {v} = true;"),
        ("index of a wrong type", f"let {v}: u8 = [1u8, 2u8][true];"),
        ("unknown struct", f"let {v}: u8 = Nope_{v} {{ a: 1u8 }}.a;"),
        ("unknown function", f"let {v}: u8 = nope_{v}(1u8);"),
        ("refutable pattern in let", f"let 5u8 = 5u8;"),
        ("refutable pattern in for", f"for 5u8 in [5u8, 6u8] {{ let w_{v}: bool = true; }}"),
        ("refutable tuple pattern in let", f"let (true, {v}) = (true, 1u8);"),
        ("match arm types disagree", f"let {v}: u8 = match true {{ true => 1u8, false => 2u16 }};"),
        ("non-exhaustive match", f"let {v}: u8 = match 3u8 {{ 0u8 => 1u8, 1u8..100u8 => 2u8 }};"),
        ("tuple index out of range", f"let {v}: u8 = (1u8, 2u8).2;"),
        ("wrong array length for annotation", f"let {v}: [u8; 3] = [1u8, 2u8];"),
        ("not of a boolean", f"let {v}: bool = !(1u8 == 1u8) && 3u8;"),
        ("shift amount of a wrong type", f"let {v}: u8 = 1u8 << 1u16;"),
        ("negation of unsigned", f"let {v}: u8 = -(1u8);"),
        ("tuple pattern with a wrong number of fields", f"let ({v}, w_{v}, x_{v}) = (1u8, 2u8);"),
        # the same rules in ASSIGNMENT-TARGET position (accessor chains of `x.a[i].0 = v`)
        ("Boolean literal as index of an assignment target", f"let mut {v}: [u8; 2] = [1u8, 2u8]; {v}[true] = 3u8;"),
        ("comparison as index of an assignment target", f"let mut {v}: [u8; 2] = [1u8, 2u8]; {v}[1u8 < 2u8] = 3u8;"),
        ("equality as index of an assignment target", f"let mut {v}: [u8; 2] = [1u8, 2u8]; {v}[1u8 == 2u8] = 3u8;"),
        ("short-circuit operator as index of an assignment target", f"let mut {v}: [u8; 2] = [1u8, 2u8]; {v}[true && false] = 3u8;"),
        ("negated comparison as index of an assignment target", f"let mut {v}: [u8; 2] = [1u8, 2u8]; {v}[!(1u8 < 2u8)] = 3u8;"),
        ("if of comparisons as index of an assignment target", f"let mut {v}: [u8; 2] = [1u8, 2u8]; {v}[if true {{ 1u8 < 2u8 }} else {{ 2u8 < 1u8 }}] = 3u8;"),
        ("unit block as index of an assignment target", f"let mut {v}: [u8; 2] = [1u8, 2u8]; {v}[{{ let w_{v}: u8 = 1u8; }}] = 3u8;"),
        ("signed index of an assignment target", f"let mut {v}: [u8; 2] = [1u8, 2u8]; {v}[1i32] = 3u8;"),
        ("u8 index of an assignment target", f"let mut {v}: [u8; 2] = [1u8, 2u8]; {v}[1u8] = 3u8;"),
        ("comparison as nested index of an assignment target", f"let mut {v}: ([u8; 2], bool) = ([1u8, 2u8], true); {v}.0[1u8 < 2u8] = 3u8;"),
        ("comparison as second index of an assignment target", f"let mut {v}: [[u8; 2]; 2] = [[1u8, 2u8], [1u8, 2u8]]; {v}[0usize][1u8 < 2u8] = 3u8;"),
        ("comparison as index of a compound assignment target", f"let mut {v}: [u8; 2] = [1u8, 2u8]; {v}[1u8 < 2u8] += 3u8;"),
        ("tuple index out of range in an assignment target", f"let mut {v}: (u8, u8) = (1u8, 2u8); {v}.2 = 3u8;"),
        ("index into a non-array in an assignment target", f"let mut {v}: (u8, u8) = (1u8, 2u8); {v}[0usize] = 3u8;"),
        ("tuple access on an array in an assignment target", f"let mut {v}: [u8; 2] = [1u8, 2u8]; {v}.0 = 3u8;"),
        ("assigned value of a wrong type through an index", f"let mut {v}: [u8; 2] = [1u8, 2u8]; {v}[0usize] = 3u16;"),
        ("assigned value of a wrong type through a tuple access", f"let mut {v}: (u8, bool) = (1u8, true); {v}.1 = 3u8;"),
        ("assignment through an index to an immutable binding", f"let {v}: [u8; 2] = [1u8, 2u8]; {v}[0usize] = 3u8;"),
        ("comparison as index of an array read", f"let {v}: u8 = [1u8, 2u8][1u8 < 2u8];"),
        ("comparison as size of an array repeat", f"let {v}: [u8; 2] = [1u8; 1u8 < 2u8];"),
        ("comparison as shift amount", f"let {v}: u8 = 1u8 << (1u8 < 2u8);"),
        ("unsuffixed range at a signed array type (fix 7bf4e4f)", f"let {v}: [i8; 3] = 2..5;"),
        ("unsuffixed range beyond its element type (fix 7bf4e4f)", f"let {v}: [u8; 3] = 254..257;"),
        ("unsuffixed range at an array type of another length", f"let {v}: [u8; 4] = 2..5;"),
        ("comparison as range bound of a for loop", f"for it_{v} in 0usize..(1u8 < 2u8) {{ let w_{v}: usize = it_{v}; }}"),
    ]


def program_edits(rng, src):
    """whole-program edits (not insertion-based)"""
    out = []
    out.append(("recursion", src.replace("pub fn main(", "fn rec_fn(x: u8) -> u8 { rec_fn(x) }\npub fn main(", 1)
                .replace("{", "{ let rr: u8 = rec_fn(1u8);", 1) if False else
                ("fn rec_fn(x: u8) -> u8 { rec_fn(x) }\n" + re.sub(r"(pub fn main\([^)]*\) -> [^{]+\{)", r"\1 let rr_q: u8 = rec_fn(1u8);", src, 1))))
    out.append(("mutual recursion",
                "fn ra_q(x: u8) -> u8 { rb_q(x) }\nfn rb_q(x: u8) -> u8 { ra_q(x) }\n" +
                re.sub(r"(pub fn main\([^)]*\) -> [^{]+\{)", r"\1 let rr_q: u8 = ra_q(1u8);", src, 1)))
    out.append(("unused private function", "fn unused_q(x: u8) -> u8 { x }\n" + src))
    out.append(("variant declared twice in enum definition", "enum Dup_q { A, A(u8) }\n" + src))
    out.append(("variant declared twice in enum definition (payloads differ)", "enum Dup_q { B(u8), B(u16), C }\n" + src))
    out.append(("const of a struct type", "struct Sq_q { a: u8 }\nconst CQ_Q: Sq_q = PARTY_0::CQ_Q;\n" + src))
    out.append(("const of an undeclared type", "const CQ_Q: Nope_q = PARTY_0::CQ_Q;\n" + src))
    out.append(("one external constant at two types", "const CA_Q: u8 = PARTY_0::XQ;\nconst CB_Q: u16 = PARTY_0::XQ;\n" + src))
    out.append(("public function without parameters", src + "\npub fn nopar_q() -> u8 { 1u8 }"))
    m = re.search(r"pub fn main\(([^)]*)\)", src)
    if m and "," in m.group(1):
        first = m.group(1).split(",")[0]
        out.append(("duplicate parameter names", src.replace(m.group(0), "pub fn main(%s, %s)" % (m.group(1), first), 1)))
    # wrong number of arguments at a call site
    m = re.search(r"\b(h\d)\(", src)
    if m and ("fn " + m.group(1)) in src:
        call = re.search(r"(?<!fn )\b%s\(" % m.group(1), src)
        if call:
            i = call.end()
            out.append(("wrong number of arguments", src[:i] + "true, true, true, true, " + src[i:]))
    # missing struct field in a literal
    m = re.search(r"(S\d) \{ (f\d): ", src)
    if m and "struct " + m.group(1) in src and src.count(m.group(1) + " {") > 1:
        idx = [x.start() for x in re.finditer(re.escape(m.group(1)) + r" \{ f", src) if not src[max(0, x.start() - 7):x.start()].endswith("struct ")]
        if idx:
            i = idx[0] + len(m.group(1)) + 3
            out.append(("unknown field in struct literal", src[:i] + "zz_nofield: 1u8, " + src[i:]))
    # a struct literal that gives a field twice (wrong number of fields), no field missing
    m = re.search(r"(S\d) \{ (f\d): ", src)
    if m and "struct " + m.group(1) in src:
        idx = [x.start() for x in re.finditer(re.escape(m.group(1)) + r" \{ f", src) if not src[max(0, x.start() - 7):x.start()].endswith("struct ")]
        if idx:
            i = idx[0] + len(m.group(1)) + 3
            fm = re.match(r"(f\d): ", src[i:])
            if fm:
                # duplicate the first field initialiser with a literal of a scalar type if its type is scalar; else reuse the name with `true`
                out.append(("field given twice in struct literal", src[:i] + fm.group(1) + ": " + "{ " + src[i + len(fm.group(0)):].split(",")[0].split("}")[0] + " }, " + src[i:]))
    # a struct definition that declares a field name twice
    m = re.search(r"struct (S\d) \{ (f\d): ([^,}]+)", src)
    if m:
        out.append(("field declared twice in struct definition", src.replace(m.group(0), m.group(0) + ", " + m.group(2) + ": " + m.group(3).strip(), 1)))
    # return type mismatch: append a statement of another type at the very end of main
    mm = re.search(r"pub fn main\([^)]*\) -> ([^{]+)\{", src)
    if mm:
        ret = mm.group(1).strip()
        bad = "1u8" if ret == "bool" else "true"
        k = src.rstrip().rfind("}")
        out.append(("return type disagrees", src[:k].rstrip() + "; " + bad + " }"))
    return out


KEYWORDS = {"let", "mut", "if", "else", "match", "for", "in", "fn", "pub", "struct", "enum", "true", "false", "as",
            "u8", "u16", "u32", "u64", "usize", "i8", "i16", "i32", "i64", "bool", "main", "join", "join_iter", "const"}
INT_TYPES = ["u8", "u16", "u32", "u64", "usize", "i8", "i16", "i32", "i64"]


def mutants(rng, src, n):
    """random small mutations of a well-typed, fully annotated program: most stay well typed or become
    ill typed in ways no rule list anticipates (an identifier replaced by another one of the program,
    a statement deleted or duplicated, two statements swapped, a type or a suffix changed, mut removed,
    a closing brace moved). Used as: checker accepts => the reference rules (Lang/Wt.v) accept."""
    out = []
    idents = sorted(set(re.findall(r"\b[a-z_][a-z0-9_]*\b", src)) - KEYWORDS)
    uses = [m for m in re.finditer(r"\b[a-z_][a-z0-9_]*\b", src) if m.group(0) not in KEYWORDS]
    stmts = [m for m in re.finditer(r"(?<=[{;] )(?:let [^;{}]*;|[a-z_][a-z0-9_]* = [^;{}]*;)", src)]
    for _ in range(n):
        k = rng.choice(["ident", "ident", "ident", "del", "dup", "swap", "type", "suffix", "unmut", "brace"])
        t = None
        if k == "ident" and uses and len(idents) > 1:
            m = rng.choice(uses)
            t = src[:m.start()] + rng.choice([i for i in idents if i != m.group(0)]) + src[m.end():]
        elif k == "del" and stmts:
            m = rng.choice(stmts); t = src[:m.start()] + src[m.end():]
        elif k == "dup" and stmts:
            m = rng.choice(stmts); t = src[:m.end()] + " " + m.group(0) + src[m.end():]
        elif k == "swap" and len(stmts) > 1:
            i = rng.randrange(len(stmts) - 1); a, b = stmts[i], stmts[i + 1]
            if a.end() <= b.start() and "{" not in src[a.end():b.start()] and "}" not in src[a.end():b.start()]:
                t = src[:a.start()] + b.group(0) + src[a.end():b.start()] + a.group(0) + src[b.end():]
        elif k == "type":
            ms = list(re.finditer(r": (u8|u16|u32|u64|usize|i8|i16|i32|i64|bool)\b", src))
            if ms:
                m = rng.choice(ms); t = src[:m.start(1)] + rng.choice(INT_TYPES + ["bool"]) + src[m.end(1):]
        elif k == "suffix":
            ms = list(re.finditer(r"\d(u8|u16|u32|u64|usize|i8|i16|i32|i64)\b", src))
            if ms:
                m = rng.choice(ms); t = src[:m.start(1)] + rng.choice(INT_TYPES) + src[m.end(1):]
        elif k == "unmut":
            ms = list(re.finditer(r"let mut ", src))
            if ms:
                m = rng.choice(ms); t = src[:m.start()] + "let " + src[m.end():]
        elif k == "brace":
            ms = [m for m in re.finditer(r"\} ", src)]
            if ms and stmts:
                m = rng.choice(ms); st = rng.choice(stmts)
                if st.start() > m.end():
                    t = src[:m.start()] + src[m.end():st.end()] + " } " + src[st.end():]
        if t and t != src:
            out.append((k, t))
    return out


def mutation_pass(ck, base, quick):
    """the checker's verdict on random mutants against the reference rules: every mutant the real checker
    accepts is exported (typed AST), re-checked by the Gallina rules Lang/Wt.v and run by Sem.v"""
    rng = ck.rng
    muts = []
    for src in base[:30 if quick else 400]:
        muts += mutants(rng, src, 12 if quick else 40)
    seen, uniq = set(), []
    for k, t in muts:
        if t not in seen:
            seen.add(t); uniq.append((k, t))
    recs = PC.run_programs(ck, [("mut-%s-%d" % (k, i), t) for i, (k, t) in enumerate(uniq)], "c17.mut", ninputs=3)
    acc = [r for r in recs if r["status"] == "compiled"]
    crash = [r for r in recs if r["status"] == "crash"]
    bad = 0
    for r in acc:
        stuck = [m for m in r.get("model", []) if m.startswith("(stuck")]
        if r.get("wt") is False or stuck:
            bad += 1
            ck.violation("the checker accepts a mutated program that the reference typing rules reject "
                         f"(Lang/Wt.v verdict {r.get('wt')}, specification interpreter: {(stuck or ['-'])[0][:60]})",
                         {"program": r["src"], "mutation": r["name"]})
    for r in crash:
        if r.get("wt") is not True:
            bad += 1
            ck.violation("the compiler panics on a mutated program instead of reporting a type error",
                         {"program": r["src"], "mutation": r["name"], "rust": r.get("rust_raw", "")[:200]})
    by_kind = {}
    for r in recs:
        k = r["name"].split("-")[1]
        by_kind.setdefault(k, [0, 0]); by_kind[k][0] += 1; by_kind[k][1] += r["status"] == "compiled"
    ck.obligation("mutation stream: every mutant the real checker accepts is accepted by the reference rules Lang/Wt.v "
                  "and never reaches a typing inconsistency in Sem.v; no mutant crashes the compiler", bad == 0,
                  f"{bad} mutants")
    ck.coverage["mutation_stream"] = {"mutants": len(uniq), "accepted_by_checker": len(acc),
                                      "by_kind(tried, accepted)": by_kind}
    return len(uniq)


def run(ck):
    quick = ck.tier == "quick"
    ck.prepare("C17")
    if not ck.harness_ok:
        return ck.finish(level="other", trusted=COMMON_TRUSTED)
    rng = ck.rng
    base = PC.generated_sources(ck, 40 if quick else 600)
    # keep the accepted ones
    rs = run_jobs(GVRUN, [f"(compile b{i} (src {quote(s)}))" for i, (_, s) in enumerate(base)], "c17.base", timeout_per_job=3.0)
    base = [s for i, (_, s) in enumerate(base) if rs.get(f"b{i}", "").startswith("(ssa ")]
    edits = []
    per_rule = {}
    for src in base:
        sites = [m.start() for m in re.finditer(r"(?<=[{;] )let ", src)]
        if not quick or len(sites) <= 6:
            chosen = sites
        else:
            chosen = rng.sample(sites, 6)
        bads = bad_statements(rng)
        for site in chosen:
            for rule, stmt in (bads if not quick else rng.sample(bads, 6)):
                edits.append((rule, src[:site] + stmt + " " + src[site:], site))
        for rule, s2 in program_edits(rng, src):
            edits.append((rule, s2, -1))
        if not quick:
            # two edits at once
            for _ in range(10):
                if len(sites) >= 2:
                    a, b = sorted(rng.sample(sites, 2))
                    (r1, s1), (r2, s2) = rng.sample(bads, 2)
                    edits.append((r1 + " + " + r2, src[:a] + s1 + " " + src[a:b] + s2 + " " + src[b:], a))
    jobs = [f"(compile e{i} (src {quote(s)}))" for i, (_, s, _) in enumerate(edits)]
    res = run_jobs(GVRUN, jobs, "c17", timeout_per_job=2.0)
    accepted = 0
    verdicts = {}
    for i, (rule, s, site) in enumerate(edits):
        r = res.get(f"e{i}", "(no-result)")
        per_rule.setdefault(rule, [0, 0])
        per_rule[rule][0] += 1
        v = "accepted" if r.startswith("(ssa ") else r[:12]
        verdicts[v] = verdicts.get(v, 0) + 1
        if r.startswith("(ssa "):
            accepted += 1
            per_rule[rule][1] += 1
            ck.violation(f"a program that violates a static rule is accepted and compiled: {rule}",
                         {"program": s, "rule": rule, "inserted_at": site}, key=known_key(rule))
        elif r.startswith("crash") or "abort" in r or "timeout" in r:
            ck.violation(f"the compiler panics on an ill-typed program instead of reporting a type error: {rule}",
                         {"program": s, "rule": rule, "rust": r[:200]}, key=known_key(rule))
    n_mut = mutation_pass(ck, base, quick) if ck.model_ok else 0
    if ck.model_ok:
        # the model of check.rs (Check/Infer.v) against the real checker, on the well-typed base programs, on the
        # rule-breaking edits (both must reject) and on random mutants (either verdict, but the same)
        import checktie
        tie = [("base%d" % i, s) for i, s in enumerate(base)]
        es = [(r, s) for r, s, _ in edits]
        tie += [("edit:" + r, s) for r, s in (rng.sample(es, min(len(es), 500)) if quick else rng.sample(es, min(len(es), 8000)))]
        for src in base[:30 if quick else 300]:
            tie += [("mutant:" + k, t) for k, t in mutants(rng, src, 6 if quick else 20)]
        cnt = checktie.check_tie_pass(ck, tie, "c17")
        ck.obligation("checker-model tie: at least 300 programs are compared (same typed program, or rejected by both)",
                      cnt.get("accepted: same typed program", 0) + cnt.get("rejected by both", 0) >= 300, str(cnt))
    ck.coverage.update({
        "evaluations": len(edits) + n_mut, "distinct_nontrivial": len(set(s for _, s, _ in edits)) + n_mut,
        "rule": "well-typed, fully annotated generated programs (accepted by the real checker) x rule-breaking edits: a "
                "statement that violates one documented rule inserted at every statement boundary (nested blocks, "
                "branches, loops, callees), plus whole-program edits (recursion, mutual recursion, unused private fn, "
                "pub fn without parameters, duplicate parameters, wrong argument count, unknown field, return type); "
                "thorough: pairs of edits; every edited program must be rejected",
        "base_programs": len(base), "accepted_edits": accepted,
        "edits_per_rule(tried, accepted)": per_rule, "rust_verdicts": verdicts,
        "explanation": "C17: theorems about a function-by-function Gallina model of check.rs (scoping, rejection lemmas lifted to "
                       "every context: Props/C17.v), the model tied to the real checker on every program of the run "
                       "(coverage.checker_model_tie), plus enumeration of rule-breaking edits and mutants against the real "
                       "checker; the reference rules are the boolean re-checker Lang/Wt.v, whose verdict on the checker's "
                       "output is computed for every accepted program in C05/C01.",
    })
    ck.samples = [e[1] for e in edits[:3]]
    return ck.finish(level="proof", trusted=COMMON_TRUSTED + [
        "modelled in Coq: src/check.rs type_check (expressions, statements, patterns, functions, top level) as Check/Infer.v; "
        "tie = same typed program or both reject, per program text of the run; join / const-sized arrays / non-literal consts outside",
        "the theorems are about the model of the checker; soundness w.r.t. the reference rules Wt.v is refuted in general (known finding of C05)"])


def known_key(rule):
    if rule.startswith("refutable"):
        return "c17-refutable-pattern-accepted"
    return None
