"""C13: `sortnet` jobs (requests against push_gt_circuit / push_sorter / push_bitonic_merger /
push_bitonic_sorter) and an independent bit-parallel reference of the compare-exchange
network semantics."""


class RefCrash(Exception):
    pass


def fmt_job(jid, dedup, inputs, elems, ops, truth=True):
    es = " ".join("(%s)" % " ".join(map(str, e)) for e in elems)
    os_ = " ".join("(%s)" % " ".join(map(str, o)) for o in ops)
    return "(sortnet %s (dedup %d) (inputs %s) (elems %s) (ops %s)%s)" % (
        jid, 1 if dedup else 0, " ".join(map(str, inputs)), es, os_, " (truth 1)" if truth else "")


# ------------------------------------------------------------------ reference semantics

def input_tables(n):
    """wire -> truth table (int, bit k = value under assignment k; input i has bit (k>>(n-1-i))&1)."""
    size = 1 << n
    mask = (1 << size) - 1
    tabs = {0: 0, 1: mask}
    for i in range(n):
        t = 0
        for k in range(size):
            if (k >> (n - 1 - i)) & 1:
                t |= 1 << k
        tabs[2 + i] = t
    return tabs, size, mask


def ref_gt(bits, x, y, mask):
    """key(x) > key(y): lexicographic on the first `bits` positions, MSB first."""
    if len(x) < bits or len(y) < bits:
        raise RefCrash()
    res, eq = 0, mask
    for i in range(bits):
        res |= eq & x[i] & (y[i] ^ mask)
        eq &= (x[i] ^ y[i]) ^ mask
    return res


def ref_sorter(bits, x, y, mask):
    g = ref_gt(bits, x, y, mask)
    ng = g ^ mask
    mn = [(g & b) | (ng & a) for a, b in zip(x, y)]
    mx = [(g & a) | (ng & b) for a, b in zip(x, y)]
    return mn, mx


def ref_merger(bits, asc, v, mask):
    n = len(v)
    if n <= 1:
        return v
    m = 1
    while 2 * m < n:
        m *= 2
    v = list(v)
    for i in range(n - m):
        mn, mx = ref_sorter(bits, v[i], v[i + m], mask)
        if not asc:
            mn, mx = mx, mn
        v[i], v[i + m] = mn, mx
    return ref_merger(bits, asc, v[:m], mask) + ref_merger(bits, asc, v[m:], mask)


def ref_bsorter(bits, v, mask, asc=True):
    n = len(v)
    if n <= 1:
        return v
    h = n // 2
    lo = ref_bsorter(bits, v[:h], mask, not asc)
    up = ref_bsorter(bits, v[h:], mask, asc)
    return ref_merger(bits, asc, lo + up, mask)


def ref_run(n_inputs, elems, ops):
    """Returns (list of element tables, extras tables, size) or raises RefCrash."""
    tabs, size, mask = input_tables(n_inputs)
    v = [[tabs[w] for w in e] for e in elems]
    extra = []
    for o in ops:
        k = o[0]
        if k == "gt":
            _, bits, i, j = o
            if i >= len(v) or j >= len(v):
                raise RefCrash()
            extra.append(ref_gt(bits, v[i], v[j], mask))
        elif k == "sorter":
            _, bits, i, j = o
            if i >= len(v) or j >= len(v):
                raise RefCrash()
            mn, mx = ref_sorter(bits, v[i], v[j], mask)
            v[i] = mn
            v[j] = mx
        elif k == "merger":
            v = ref_merger(o[1], o[2] == 1, v, mask)
        elif k == "bsorter":
            v = ref_bsorter(o[1], v, mask)
    return v, extra, size


def table_to_string(t, size):
    return format(t, "0%db" % size)[::-1] if size else ""


# ------------------------------------------------------------------ generators

def corpus():
    return [
        (True, [4, 4], [[2, 3], [4, 5], [6, 7], [8, 9]], [("bsorter", 2)]),
        (True, [6], [[2, 3], [4, 5], [6, 7]], [("merger", 1, 1), ("gt", 2, 0, 1), ("sorter", 2, 0, 2)]),
        (False, [6], [[2, 3], [4, 5], [6, 7]], [("merger", 2, 0)]),
        (True, [3, 3, 3], [[2, 5, 8], [3, 6, 9], [4, 7, 10]], [("bsorter", 1)]),
        # the shape compile_bitonic_merge builds: padding, a (tag 0), reversed b (tag 1), sorted on key+tag
        (True, [4, 4], [[0, 0, 0], [0, 0, 0], [0, 0, 0], [0, 0, 0], [2, 0, 3], [4, 0, 5], [8, 1, 9], [6, 1, 7]],
         [("merger", 2, 1)]),
        (True, [2, 2], [[0, 0, 0], [2, 0, 3], [4, 1, 5], [0, 0, 0]], [("merger", 2, 1)]),
        # flags only (the final sort of `join`)
        (True, [5], [[2, 0], [3, 0], [4, 0], [5, 0], [6, 0]], [("bsorter", 1)]),
        # same wire twice, constants, ties
        (True, [2], [[2, 2], [2, 3], [1, 0], [3, 3]], [("bsorter", 2)]),
        (False, [2], [[2], [2], [3]], [("bsorter", 1), ("merger", 1, 0)]),
    ]


def random_job(rng, quick):
    """Mostly-valid structured job: returns (dedup, inputs(parties), elems, ops, class)."""
    r = rng.random()
    if r < 0.55:
        cls = "distinct-inputs"       # every element made of its own input wires
        ne = rng.choice([1, 2, 3, 3, 4, 4, 5, 6, 7, 8] if quick else [1, 2, 3, 4, 5, 6, 7, 8, 9, 10, 12, 16])
        maxbits = 12 if quick else 16
        L = rng.randint(1, max(1, min(4, maxbits // ne)))
        n = ne * L
        elems = [[2 + e * L + i for i in range(L)] for e in range(ne)]
        if rng.random() < 0.3:
            rng.shuffle(elems)
    else:
        cls = "shared-wires"          # few inputs, wires reused, constants
        n = rng.randint(1, 6)
        ne = rng.randint(1, 9)
        L = rng.randint(1, 4)
        pool = [0, 1] + list(range(2, 2 + n)) * 3
        elems = [[rng.choice(pool) for _ in range(L)] for _ in range(ne)]
    bits = rng.choice([L, L, L, rng.randint(0, L), max(L - 1, 0)])
    nops = rng.choice([1, 1, 1, 2, 3])
    ops = []
    for _ in range(nops):
        k = rng.choice(["bsorter", "bsorter", "merger", "merger", "merger", "sorter", "gt"])
        if k == "bsorter":
            ops.append(("bsorter", bits))
        elif k == "merger":
            ops.append(("merger", bits, rng.choice([1, 1, 0])))
        else:
            ops.append((k, bits, rng.randrange(ne), rng.randrange(ne)))
    parts, left = [], n
    while left > 0:
        p = rng.randint(1, left); parts.append(p); left -= p
    return rng.random() < 0.7, parts, elems, ops, cls


def malformed_job(rng):
    """Requests the Rust code answers with a panic (or silently truncates): width larger than
    an element, index out of range, elements of unequal length, empty vector, empty elements."""
    n = rng.randint(1, 5)
    ne = rng.randint(0, 5)
    pool = [0, 1] + list(range(2, 2 + n))
    kind = rng.choice(["bits-too-large", "index-out-of-range", "unequal-lengths", "empty", "zero-width"])
    L = rng.randint(1, 3)
    elems = [[rng.choice(pool) for _ in range(L)] for _ in range(ne)]
    bits = L
    if kind == "bits-too-large":
        bits = L + rng.randint(1, 3)
    elif kind == "unequal-lengths":
        elems = [[rng.choice(pool) for _ in range(rng.randint(0, 3))] for _ in range(max(ne, 2))]
        bits = rng.randint(0, 2)
    elif kind == "empty":
        elems = []
    elif kind == "zero-width":
        elems = [[] for _ in range(max(ne, 1))]
        bits = rng.choice([0, 0, 1])
    ne = len(elems)
    ops = []
    for _ in range(rng.randint(1, 2)):
        k = rng.choice(["bsorter", "merger", "sorter", "gt"])
        if k == "bsorter":
            ops.append(("bsorter", bits))
        elif k == "merger":
            ops.append(("merger", bits, rng.choice([0, 1])))
        else:
            hi = ne + 2 if kind == "index-out-of-range" else max(ne, 1)
            ops.append((k, bits, rng.randrange(hi), rng.randrange(hi)))
    return rng.random() < 0.5, [n], elems, ops, "malformed:" + kind
