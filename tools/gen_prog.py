import re
"""Type-directed generator of well-typed, fully annotated Garble programs (C01, C02, C14...).
Every literal carries its type suffix; sub-expressions are reused on purpose (the same
failing operation occurs twice); statements mutate variables through nested accessors,
inside branches, match arms, loops and callees."""

INTS = ["u8", "u16", "u32", "u64", "i8", "i16", "i32", "i64", "usize"]
BITS = {"u8": 8, "u16": 16, "u32": 32, "u64": 64, "usize": 32, "i8": 8, "i16": 16, "i32": 32, "i64": 64}


def is_int(t): return isinstance(t, str) and t in BITS
def is_signed(t): return t.startswith("i")


def paren(s):
    s2 = s.lstrip()
    if s2.startswith("{") or s2.startswith("if ") or s2.startswith("match ") or re.match(r"[A-Z]\w* \{", s2):
        return "(" + s + ")"
    return s


def tstr(t):
    if isinstance(t, str):
        return t
    k = t[0]
    if k == "arr": return "[%s; %d]" % (tstr(t[1]), t[2])
    if k == "tup": return "(" + ", ".join(tstr(x) for x in t[1]) + ("," if len(t[1]) == 1 else "") + ")"
    if k == "struct": return t[1]
    if k == "enum": return t[1]
    raise ValueError(t)


class Gen:
    def __init__(self, rng, style="mixed", max_depth=3):
        self.rng = rng
        self.style = style          # mixed | arith | mutation | panic
        self.max_depth = max_depth
        self.structs = {}           # name -> [(field, type)] sorted by name
        self.enums = {}             # name -> [(variant, [types])]
        self.fns = []               # (name, [(pname, type)], ret, text)
        self.counter = 0

    # ------------------------------------------------------------- types
    def fresh(self, p="v"):
        self.counter += 1
        if p in ("v", "m", "u", "x"):
            p = "a"             # locals share the namespace of the parameters: a0, a1, a2 ...
        return "%s%d" % (p, self.counter)

    def int_type(self):
        r = self.rng
        if self.style == "panic":
            return r.choice(["u8", "u8", "i8", "i8", "u16", "i16", "u8", "i8", "u32", "usize"])
        return r.choice(["u8", "u8", "i8", "u16", "i16", "u32", "i32", "u64", "i64", "usize"])

    def small_type(self, depth=0):
        r = self.rng
        x = r.random()
        if x < 0.55 or depth >= 2:
            return "bool" if r.random() < 0.2 else self.int_type()
        if x < 0.72:
            return ("arr", self.small_type(depth + 1), r.randint(1, 3))
        if x < 0.86:
            return ("tup", [self.small_type(depth + 1) for _ in range(r.choice([2, 2, 3, 3, 4, 5]))])
        if x < 0.93 and self.structs:
            return ("struct", r.choice(sorted(self.structs)))
        if self.enums:
            return ("enum", r.choice(sorted(self.enums)))
        return self.int_type()

    def make_defs(self):
        r = self.rng
        for i in range(r.randint(0, 2)):
            name = "S%d" % i
            if r.random() < 0.5:
                fields = sorted((("f%d" % k), r.choice(["bool", "u8", "i8", "u16"])) for k in range(r.randint(2, 4)))
            else:
                fields = sorted((("f%d" % k), self.small_type(1)) for k in range(r.randint(1, 3)))
            self.structs[name] = fields
        for i in range(r.randint(0, 2)):
            name = "E%d" % i
            variants = []
            for k in range(r.choice([1, 2, 2, 3, 3, 4, 5])):
                if r.random() < 0.4:
                    variants.append(("V%d" % k, []))
                else:
                    # the first field of a tuple variant must be a plain type name for the parser
                    ts = [("bool" if r.random() < 0.2 else self.int_type())]
                    ts += [self.small_type(1) for _ in range(r.randint(0, 1))]
                    variants.append(("V%d" % k, ts))
            self.enums[name] = variants

    # ------------------------------------------------------------- expressions
    def lit(self, t):
        r = self.rng
        if t == "bool":
            return r.choice(["true", "false"])
        bits = BITS[t]
        if is_signed(t):
            lo, hi = -(1 << (bits - 1)), (1 << (bits - 1)) - 1
        else:
            lo, hi = 0, (1 << bits) - 1
        v = r.choice([0, 1, 2, 3, 5, hi, hi - 1, lo, r.randint(lo, hi), r.randint(0, 20), 7, 10])
        v = max(lo, min(hi, v))
        if v < 0:
            return "(%d%s)" % (v, t)
        return "%d%s" % (v, t)

    def vars_of(self, env, t, mutable=None):
        return [n for (n, vt, m) in env if vt == t and (mutable is None or m == mutable)]

    def expr(self, t, env, d):
        """An expression of type t. env: list of (name, type, mutable)."""
        r = self.rng
        vs = self.vars_of(env, t)
        if d <= 0:
            if vs and r.random() < 0.7:
                return r.choice(vs)
            return self.value_expr(t, env, 0)
        x = r.random()
        if vs and x < 0.18:
            return r.choice(vs)
        if self.fns and r.random() < 0.15:
            cands = [f for f in self.fns if f[2] == t]
            if cands:
                f = r.choice(cands)
                # arguments are mostly plain variables: argument order vs parameter names matters
                return "%s(%s)" % (f[0], ", ".join(self.expr(pt, env, 0 if r.random() < 0.7 else d - 1) for _, pt in f[1]))
        if t == "bool":
            return self.bool_expr(env, d)
        if is_int(t):
            return self.int_expr(t, env, d)
        if x < 0.35:
            return self.projection(t, env, d) or self.value_expr(t, env, d)
        if x < 0.5:
            c = paren(self.expr("bool", env, d - 1))
            return "if %s { %s } else { %s }" % (c, self.expr(t, env, d - 1), self.expr(t, env, d - 1))
        return self.value_expr(t, env, d)

    def value_expr(self, t, env, d):
        """constructor form"""
        r = self.rng
        if t == "bool" or is_int(t):
            return self.lit(t)
        k = t[0]
        if k == "arr":
            if r.random() < 0.3:
                return "[%s; %d]" % (self.expr(t[1], env, d - 1), t[2])
            return "[" + ", ".join(self.expr(t[1], env, d - 1) for _ in range(t[2])) + "]"
        if k == "tup":
            return "(" + ", ".join(self.expr(x, env, d - 1) for x in t[1]) + ("," if len(t[1]) == 1 else "") + ")"
        if k == "struct":
            fields = list(self.structs[t[1]])
            r.shuffle(fields)
            return "%s { %s }" % (t[1], ", ".join("%s: %s" % (f, self.expr(ft, env, d - 1)) for f, ft in fields))
        if k == "enum":
            vn, ts = r.choice(self.enums[t[1]])
            if not ts:
                return "%s::%s" % (t[1], vn)
            return "%s::%s(%s)" % (t[1], vn, ", ".join(self.expr(x, env, d - 1) for x in ts))
        raise ValueError(t)

    def projection(self, t, env, d):
        """an expression of type t obtained by indexing / field access of a variable"""
        r = self.rng
        cands = []
        for (n, vt, _) in env:
            if isinstance(vt, tuple):
                if vt[0] == "arr" and vt[1] == t:
                    cands.append(("idx", n, vt))
                if vt[0] == "tup":
                    for i, ft in enumerate(vt[1]):
                        if ft == t:
                            cands.append(("tup", n, i))
                if vt[0] == "struct":
                    for f, ft in self.structs[vt[1]]:
                        if ft == t:
                            cands.append(("fld", n, f))
        if not cands:
            return None
        c = r.choice(cands)
        if c[0] == "idx":
            n, vt = c[1], c[2]
            if r.random() < 0.6:
                return "%s[%dusize]" % (n, r.randint(0, vt[2] - 1 + (1 if r.random() < 0.1 else 0)))
            return "%s[%s]" % (n, self.expr("usize", env, d - 1))
        if c[0] == "tup":
            return "%s.%d" % (c[1], c[2])
        return "%s.%s" % (c[1], c[2])

    def int_expr(self, t, env, d):
        r = self.rng
        x = r.random()
        if x < 0.42:
            op = r.choice(["+", "-", "*", "+", "-", "/", "%", "&", "|", "^"])
            a = paren(self.expr(t, env, d - 1))
            b = paren(self.expr(t, env, d - 1)) if r.random() < 0.8 else a     # same sub-expression twice
            return "(%s %s %s)" % (a, op, b)
        if x < 0.5:
            op = r.choice(["<<", ">>"])
            amt = paren(self.expr("u8", env, d - 1)) if r.random() < 0.5 else "%du8" % r.choice([0, 1, 2, 3, 7, 8, 15, 31, 33, 64])
            return "(%s %s %s)" % (paren(self.expr(t, env, d - 1)), op, amt)
        if x < 0.6:
            src = r.choice(INTS + ["bool"])
            return "(%s as %s)" % (paren(self.expr(src, env, d - 1)), t)
        if x < 0.62 and is_int(t):
            muts = [(n, mt) for (n, mt, m) in env if m and mt == t]
            if muts and self.rng.random() < 0.5:
                # a multiplication by a small literal whose other operand has an effect (the compiler rewrites x * c)
                mn, _ = self.rng.choice(muts)
                c = self.rng.choice([2, 3, 5])
                blk = "({ %s = %s; %s })" % (mn, self.expr(t, env, 1), mn)
                return "(%s * %d%s)" % (blk, c, t) if self.rng.random() < 0.5 else "(%d%s * %s)" % (c, t, blk)
        if x < 0.66 and is_signed(t):
            return "(-%s)" % paren(self.expr(t, env, d - 1))
        if x < 0.7:
            return "(!%s)" % paren(self.expr(t, env, d - 1))
        if x < 0.8:
            c = paren(self.expr("bool", env, d - 1))
            return "if %s { %s } else { %s }" % (c, self.expr(t, env, d - 1), self.expr(t, env, d - 1))
        if x < 0.86:
            return self.match_expr(t, env, d)
        if x < 0.95:
            p = self.projection(t, env, d)
            if p:
                return p
        if x < 0.98 and self.fns:
            cands = [f for f in self.fns if f[2] == t]
            if cands:
                f = r.choice(cands)
                return "%s(%s)" % (f[0], ", ".join(self.expr(pt, env, d - 1) for _, pt in f[1]))
        return self.lit(t)

    def bool_expr(self, env, d):
        r = self.rng
        x = r.random()
        if x < 0.35:
            t = self.int_type()
            op = r.choice(["<", ">", "<=", ">=", "==", "!="])
            return "(%s %s %s)" % (paren(self.expr(t, env, d - 1)), op, paren(self.expr(t, env, d - 1)))
        if x < 0.55:
            op = r.choice(["&&", "||"])
            rhs = paren(self.expr("bool", env, d - 1))
            muts = [(n, t) for (n, t, m) in env if m and (t == "bool" or is_int(t))]
            if muts and r.random() < 0.3:
                # a short-circuited operand with an effect: the assignment must only be visible when it is evaluated
                mn, mt = r.choice(muts)
                rhs = "({ %s = %s; %s })" % (mn, self.expr(mt, env, 1), self.expr("bool", env, max(0, d - 1)))
            return "(%s %s %s)" % (paren(self.expr("bool", env, d - 1)), op, rhs)
        if x < 0.65:
            op = r.choice(["&", "|", "^", "==", "!="])
            return "(%s %s %s)" % (paren(self.expr("bool", env, d - 1)), op, paren(self.expr("bool", env, d - 1)))
        if x < 0.72:
            return "(!%s)" % paren(self.expr("bool", env, d - 1))
        if x < 0.8:
            return "if %s { %s } else { %s }" % (paren(self.expr("bool", env, d - 1)), self.expr("bool", env, d - 1),
                                                  self.expr("bool", env, d - 1))
        if x < 0.86:
            return self.match_expr("bool", env, d)
        if x < 0.9:
            t = self.small_type(1)
            if not (isinstance(t, tuple) and t[0] in ("enum",)):
                return "(%s == %s)" % (paren(self.expr(t, env, d - 1)), paren(self.expr(t, env, d - 1)))
        p = self.projection("bool", env, d)
        return p or self.lit("bool")

    def match_expr(self, t, env, d):
        """match on a bool / small integer / enum / tuple scrutinee, exhaustive by construction"""
        r = self.rng
        kinds = ["bool", "int", "tuple"] + (["enum"] if self.enums else [])
        sp = [n for n, fs in self.structs.items() if sum(1 for _, t in fs if t == "bool" or is_int(t)) >= 2]
        if sp:
            kinds += ["struct", "struct"]
        kind = r.choice(kinds)
        if kind == "bool":
            s = self.expr("bool", env, d - 1)
            arms = [("true", []), ("false", [])]
            if r.random() < 0.3:
                arms = [("true", []), ("_", [])]
        elif kind == "int":
            st = r.choice(["u8", "i8", "u16", "i32"])
            s = self.expr(st, env, d - 1)
            arms = []
            if is_signed(st):
                arms.append(("-5%s..=-1%s" % (st, st), []))
            arms.append(("0%s" % st, []))
            arms.append(("1%s..10%s" % (st, st), []))
            b = self.fresh("n")
            arms.append((b, [(b, st, False)]))
        elif kind == "enum":
            en = r.choice(sorted(self.enums))
            s = self.expr(("enum", en), env, d - 1)
            arms = []
            vs = list(self.enums[en])
            wildcard = r.random() < 0.3
            for vn, ts in (vs[:-1] if wildcard else vs):
                if not ts:
                    arms.append(("%s::%s" % (en, vn), []))
                else:
                    bs = [(self.fresh("b"), x, False) for x in ts]
                    arms.append(("%s::%s(%s)" % (en, vn, ", ".join(b[0] for b in bs)), bs))
            if wildcard:
                arms.append(("_", []))
        elif kind == "struct":
            sn = r.choice(sp)
            s = self.expr(("struct", sn), env, d - 1)
            prim = [(f, t) for f, t in self.structs[sn] if t == "bool" or is_int(t)]
            others = [(f, t) for f, t in self.structs[sn] if not (t == "bool" or is_int(t))]

            def refut(t):
                if t == "bool":
                    return r.choice(["true", "false"])
                return r.choice(["0%s" % t, "1%s..10%s" % (t, t), "3%s" % t])
            arms = []
            for _ in range(r.randint(1, 3)):
                fs = [(f, refut(t)) for f, t in prim]
                r.shuffle(fs)
                bs = []
                if others and r.random() < 0.5:
                    pats = ["%s: %s" % fp for fp in fs]
                    for f, ft in others:
                        bname = self.fresh("b")
                        pats.append("%s: %s" % (f, bname)); bs.append((bname, ft, False))
                    arms.append(("%s { %s }" % (sn, ", ".join(pats)), bs))
                else:
                    arms.append(("%s { %s%s }" % (sn, ", ".join("%s: %s" % fp for fp in fs), ", .." if others else ""), []))
            arms.append(("_", []))
        else:
            st = ("tup", ["bool", r.choice(["u8", "i8"])])
            s = self.expr(st, env, d - 1)
            b = self.fresh("b")
            c = self.fresh("c")
            arms = [("(true, 0%s)" % st[1][1], []), ("(true, %s)" % b, [(b, st[1][1], False)]),
                    ("(false, %s)" % c, [(c, st[1][1], False)])]
        txt = ", ".join("%s => %s" % (p, self.rhs(t, env + bs, d - 1)) for p, bs in arms)
        return "match %s { %s }" % (paren(s), txt)

    def rhs(self, t, env, d):
        """an expression in a position where a block is allowed (let, arm body, tail)"""
        if d > 0 and self.rng.random() < 0.25:
            return self.block_expr(t, env, d)
        return self.expr(t, env, d)

    def block_expr(self, t, env, d):
        body, env2 = self.stmts(env, self.rng.randint(1, 2), d - 1)
        return "{ %s %s }" % (body, self.expr(t, env2, d - 1))

    # ------------------------------------------------------------- statements
    def place(self, env, d):
        """an assignable place: (text, type) through nested accessors of a mutable variable"""
        r = self.rng
        muts = [(n, t) for (n, t, m) in env if m]
        if not muts:
            return None
        n, t = r.choice(muts)
        txt = n
        for _ in range(3):
            if not isinstance(t, tuple) or r.random() < 0.35:
                break
            if t[0] == "arr":
                if r.random() < 0.6:
                    txt += "[%dusize]" % r.randint(0, t[2] - 1 + (1 if r.random() < 0.08 else 0))
                elif r.random() < 0.8:
                    txt += "[%s]" % self.expr("usize", env, d - 1)
                else:
                    # an index expression with an effect on a mutable variable (possibly the target itself): the
                    # effect must survive the assignment
                    smuts = [(mn, mt) for (mn, mt, mm) in env if mm and (mt == "bool" or is_int(mt))]
                    amuts = [(mn, mt) for (mn, mt, mm) in env if mm and isinstance(mt, tuple) and mt[0] == "arr"
                             and (mt[1] == "bool" or is_int(mt[1]))]
                    if amuts and r.random() < 0.5:
                        mn, mt = r.choice(amuts)
                        eff = "%s[%dusize] = %s;" % (mn, r.randint(0, mt[2] - 1), self.expr(mt[1], env, 1))
                    elif smuts:
                        mn, mt = r.choice(smuts)
                        eff = "%s = %s;" % (mn, self.expr(mt, env, 1))
                    else:
                        eff = ""
                    txt += "[{ %s %dusize }]" % (eff, r.randint(0, t[2] - 1))
                t = t[1]
            elif t[0] == "tup":
                i = r.randrange(len(t[1]))
                txt += ".%d" % i
                t = t[1][i]
            elif t[0] == "struct":
                f, ft = r.choice(self.structs[t[1]])
                txt += ".%s" % f
                t = ft
            else:
                break
        return txt, t

    def stmts(self, env, n, d):
        r = self.rng
        out = []
        env = list(env)
        for _ in range(n):
            x = r.random()
            if self.style == "mutation":
                # fewer plain lets, more let mut / assignments / control flow
                x = x * 0.9 + 0.1 if x > 0.1 else x * 2.5 if x < 0.04 else 0.3 + x
            if self.fns and r.random() < 0.12:
                # a call whose arguments are other values than the caller's variables of the parameters' names;
                # the caller's variables are read again afterwards (tail expression)
                f = r.choice(self.fns)
                args = []
                for pn, pt in f[1]:
                    others = [n for (n, vt, _) in env if vt == pt and n != pn]
                    args.append(r.choice(others) if others and r.random() < 0.6 else self.expr(pt, env, 1))
                name = self.fresh()
                out.append("let %s: %s = %s(%s);" % (name, tstr(f[2]), f[0], ", ".join(args)))
                env.append((name, f[2], False))
                continue
            if x < 0.25:
                t = self.small_type()
                name = self.fresh()
                out.append("let %s: %s = %s;" % (name, tstr(t), self.rhs(t, env, d)))
                env.append((name, t, False))
            elif x < 0.31:
                # destructuring let of a tuple / struct variable or expression
                cands = [(n, t) for (n, t, _) in env if isinstance(t, tuple) and t[0] in ("tup", "struct")]
                if cands:
                    n, t = r.choice(cands)
                    if t[0] == "tup":
                        names = [self.fresh() for _ in t[1]]
                        out.append("let (%s) = %s;" % (", ".join(names) + ("," if len(names) == 1 else ""), n))
                        env += [(nm, ft, False) for nm, ft in zip(names, t[1])]
                    else:
                        fs = self.structs[t[1]]
                        names = [self.fresh() for _ in fs]
                        out.append("let %s { %s } = %s;" % (t[1], ", ".join("%s: %s" % (f, nm) for (f, _), nm in zip(fs, names)), n))
                        env += [(nm, ft, False) for nm, (_, ft) in zip(names, fs)]
            elif x < 0.5:
                t = self.small_type()
                name = self.fresh("m")
                if r.random() < (0.4 if self.style == "mutation" else 0.2) and env:
                    name = r.choice(env)[0]          # shadowing (often of a binding of an enclosing scope)
                out.append("let mut %s: %s = %s;" % (name, tstr(t), self.rhs(t, env, d)))
                env = [e for e in env if e[0] != name] + [(name, t, True)]
            elif x < 0.72:
                pl = self.place(env, d)
                if pl:
                    txt, t = pl
                    if is_int(t) and r.random() < 0.4:
                        out.append("%s %s= %s;" % (txt, r.choice(["+", "-", "*", "&", "|", "^", "/", "%"]), self.expr(t, env, d)))
                    else:
                        out.append("%s = %s;" % (txt, self.rhs(t, env, d)))
            elif x < 0.82 and d > 0:
                c = paren(self.expr("bool", env, d - 1))
                muts = [(n, t) for (n, t, m) in env if m and (t == "bool" or is_int(t))]
                if muts and r.random() < 0.2:
                    # a condition with an effect: the assignment must be visible in both branches and afterwards
                    mn, mt = r.choice(muts)
                    c = "{ %s = %s; %s }" % (mn, self.expr(mt, env, 1), self.expr("bool", env, d - 1))
                a, _ = self.stmts(env, r.randint(1, 2), d - 1)
                if r.random() < 0.6:
                    b, _ = self.stmts(env, r.randint(1, 2), d - 1)
                    out.append("if %s { %s } else { %s }" % (c, a, b))
                else:
                    out.append("if %s { %s }" % (c, a))
            elif x < 0.92 and d > 0:
                if r.random() < 0.5:
                    t = r.choice(["u8", "usize", "u16"])
                    lo = r.randint(0, 3)
                    hi = lo + r.randint(1, 3)
                    v = self.fresh("i")
                    body, _ = self.stmts(env + [(v, t, False)], r.randint(1, 2), d - 1)
                    out.append("for %s in %d%s..%d%s { %s }" % (v, lo, t, hi, t, body))
                else:
                    et = self.small_type(1)
                    at = ("arr", et, r.randint(1, 3))
                    v = self.fresh("e")
                    body, _ = self.stmts(env + [(v, et, False)], r.randint(1, 2), d - 1)
                    out.append("for %s in %s { %s }" % (v, paren(self.expr(at, env, d - 1)), body))
            elif d > 0:
                body, _ = self.stmts(env, r.randint(1, 2), d - 1)
                out.append("{ %s }" % body)
        if not out:
            name = self.fresh("u")
            out.append("let %s: bool = %s;" % (name, self.expr("bool", env, 0)))
            env.append((name, "bool", False))
        return " ".join(out), env

    # ------------------------------------------------------------- bit soup (builder rewrites at source level)
    def bitsoup_expr(self, t, env, d):
        """xor / and / or / not over few variables with heavy reuse: every peephole rule of the gate builder
        (x ^ !x, (a & b) ^ (a & c), x & (y ^ z), double negation, both operand orders) is hit at source level"""
        r = self.rng
        if isinstance(t, tuple):
            return "(" + ", ".join(self.bitsoup_expr(x, env, d) for x in t[1]) + ")"
        vs = self.vars_of(env, t)
        if d <= 0 or r.random() < 0.15:
            v = r.choice(vs)
            return "(!%s)" % v if r.random() < 0.25 else v
        x = r.random()
        if x < 0.2:
            return "(!%s)" % self.bitsoup_expr(t, env, d - 1)
        a = self.bitsoup_expr(t, env, d - 1)
        b = self.bitsoup_expr(t, env, d - 1)
        y = r.random()
        if y < 0.15:
            b = a                                   # same operand twice
        elif y < 0.3:
            b = "(!%s)" % a                         # operand and its negation
        op = r.choice(["^", "^", "^", "&", "&", "|"])
        return "(%s %s %s)" % ((a, op, b) if r.random() < 0.5 else (b, op, a))

    def bitsoup_stmts(self, env):
        r = self.rng
        env = list(env)
        t = env[0][1]
        out = []
        for _ in range(r.randint(1, 4)):
            name = self.fresh()
            out.append("let %s: %s = %s;" % (name, tstr(t), self.bitsoup_expr(t, env, r.randint(1, 3))))
            env.append((name, t, False))
        return " ".join(out), env

    @staticmethod
    def layout(rng, text):
        """the same token sequence over several lines (panic locations get distinct start and end lines)"""
        out = []
        depth = 0
        for i, ch in enumerate(text):
            out.append(ch)
            if ch in ";{,(" and rng.random() < 0.25 and text[i + 1:i + 2] == " ":
                out.append("\n" + " " * rng.randint(0, 8))
        return "".join(out)

    # ------------------------------------------------------------- program
    def program(self):
        txt = self.program_one_line()
        if self.rng.random() < 0.5:
            txt = self.layout(self.rng, txt)
        return txt

    def program_one_line(self):
        r = self.rng
        self.make_defs()
        for i in range(r.randint(0, 2)):
            # names are reused across functions on purpose (counters restart): a callee's parameters and
            # locals collide with the caller's variables
            self.counter = 0
            ps = [("a%d" % k, self.small_type(1)) for k in range(r.randint(1, 3))]
            self.counter = len(ps)
            ret = self.small_type(1)
            env = [(n, t, False) for n, t in ps]
            muts = r.random() < 0.5
            if muts:
                env = [(n, t, True) for n, t in ps]
            body, env2 = self.stmts(env, r.randint(0, 2), self.max_depth - 1)
            txt = "fn h%d(%s) -> %s { %s %s }" % (
                i, ", ".join("%s%s: %s" % ("mut " if muts else "", n, tstr(t)) for n, t in ps), tstr(ret), body,
                self.expr(ret, env2, self.max_depth - 1))
            self.fns.append(("h%d" % i, ps, ret, txt))
        nparams = r.randint(1, 3)
        self.counter = 0
        ps = [("a%d" % k, self.small_type(0 if r.random() < 0.5 else 1)) for k in range(nparams)]
        if self.style == "bitsoup":
            bt = r.choice(["bool", "u8", "u8", "u16", "i8"])
            ps = [("a%d" % k, bt) for k in range(r.randint(2, 4))]
        if len(ps) == 1 and isinstance(ps[0][1], tuple) and ps[0][1][0] == "arr" and r.random() < 0.5:
            ps.append(("a1", "u8"))
        self.counter = len(ps)
        ret = self.small_type()
        if self.style == "bitsoup":
            ret = ("tup", [bt, bt]) if r.random() < 0.5 else bt
        main_muts = [r.random() < (0.5 if self.style == "mutation" else 0.2) for _ in ps]
        env = [(n, t, m) for (n, t), m in zip(ps, main_muts)]
        if self.style == "bitsoup":
            body, env2 = self.bitsoup_stmts(env)
        else:
            body, env2 = self.stmts(env, r.randint(1, 4), self.max_depth)
        main = "pub fn main(%s) -> %s { %s %s }" % (
            ", ".join("%s%s: %s" % ("mut " if m else "", n, tstr(t)) for (n, t), m in zip(ps, main_muts)), tstr(ret), body,
            self.bitsoup_expr(ret, env2, 3) if self.style == "bitsoup" else self.expr(ret, env2, self.max_depth))
        defs = []
        for n, fs in sorted(self.structs.items()):
            defs.append("struct %s { %s }" % (n, ", ".join("%s: %s" % (f, tstr(t)) for f, t in fs)))
        for n, vs in sorted(self.enums.items()):
            defs.append("enum %s { %s }" % (n, ", ".join(v if not ts else "%s(%s)" % (v, ", ".join(tstr(t) for t in ts))
                                                         for v, ts in vs)))
        used = [f for f in self.fns if (f[0] + "(") in main or any((f[0] + "(") in g[3] for g in self.fns if g is not f)]
        # private functions must be used (the checker rejects unused ones): keep those reachable from main
        keep = []
        frontier = [f for f in self.fns if (f[0] + "(") in main]
        while frontier:
            f = frontier.pop()
            if f in keep:
                continue
            keep.append(f)
            for g in self.fns:
                if g is not f and (g[0] + "(") in f[3] and g not in keep:
                    frontier.append(g)
        return "\n".join(defs + [f[3] for f in self.fns if f in keep] + [main])
