"""Program-level differential check shared by C01 / C02 / C14 (and used by C05/C06):
the real compiler's circuits (SSA/register x dedup on/off) evaluated on inputs, against the
specification interpreter coq/Lang/Sem.v run (extracted) on the typed AST the real checker
produced."""
import glob, re
from vlib import *
import gen_prog


def corpus_sources():
    out = []
    for f in sorted(glob.glob(os.path.join(VERIF, "corpus", "programs", "*.garble"))):
        src = open(f).read()
        if "pub fn main" in src and "join" not in src:
            out.append((os.path.basename(f), src))
    return out


def split_top(s):
    """top-level forms of an S-expression string (without outer parens)"""
    out, depth, start, instr = [], 0, None, False
    i = 0
    while i < len(s):
        c = s[i]
        if instr:
            if c == "\\":
                i += 1
            elif c == '"':
                instr = False
                if depth == 0:
                    out.append(s[start:i + 1])
        elif c == '"':
            instr = True
            if depth == 0:
                start = i
        elif c == "(":
            if depth == 0:
                start = i
            depth += 1
        elif c == ")":
            depth -= 1
            if depth == 0:
                out.append(s[start:i + 1])
        i += 1
    return out


def field(forms, key):
    for f in forms:
        if f.startswith("(" + key + " ") or f == "(" + key + ")":
            return f
    return None


def run_programs(ck, sources, tag, ninputs=8):
    """sources: list of (name, src). Returns list of dicts with rust / model results."""
    jobs = []
    for i, (name, src) in enumerate(sources):
        jobs.append(f"(program q{i} (src {quote(src)}) (rand {ninputs}) (seed {ck.rng.randint(1, 10**9)}))")
    rs = run_jobs(GVRUN, jobs, tag + ".rs", timeout_per_job=3.0)
    recs, semjobs = [], []
    for i, (name, src) in enumerate(sources):
        r = rs.get(f"q{i}", "(no-result)")
        rec = {"name": name, "src": src, "rust_raw": r[:300], "status": "rejected"}
        if r.startswith("(compile ok)"):
            forms = split_top(r)
            ast = field(forms, "ast")
            inss = field(forms, "inss")
            runs = field(forms, "runs")
            if ast is None or inss is None or runs is None:
                rec["status"] = "export-failed"
            else:
                rec["status"] = "compiled"
                rec["inss"] = split_top(inss[len("(inss "):-1])
                rec["runs"] = {}
                for cfg in split_top(runs[len("(runs "):-1]):
                    name_end = cfg.index(" ") if " " in cfg else len(cfg) - 1
                    rec["runs"][cfg[1:name_end]] = split_top(cfg[name_end + 1:-1]) if " " in cfg else []
                rec["validate"] = field(forms, "validate")
                rec["ig"] = field(forms, "ig")
                rec["nouts"] = field(forms, "nouts")
                rec["params"] = field(forms, "params")
                rec["ret"] = field(forms, "ret")
                semjobs.append(f"(sem q{i} {ast} {inss})")
                semjobs.append(f"(tsem t{i} {ast} {inss})")
                rec["semid"] = f"q{i}"
                rec["tsemid"] = f"t{i}"
        elif r.startswith("(compile crash") or "abort" in r or "timeout" in r:
            rec["status"] = "crash"
            forms = split_top(r)
            ast = field(forms, "ast")
            if ast:
                semjobs.append(f"(sem q{i} {ast} (inss))")
                rec["semid"] = f"q{i}"
        recs.append(rec)
    ml = run_jobs(MODELRUN, semjobs, tag + ".ml", timeout_per_job=3.0)
    for rec in recs:
        if rec["status"] == "crash" and "semid" in rec:
            m = ml.get(rec["semid"], "")
            rec["wt"] = True if m.startswith("(wt 1)") else False if m.startswith("(wt 0)") else None
        if rec["status"] == "compiled":
            m = ml.get(rec["semid"], "(no-result)")
            forms = split_top(m)
            rec["wt"] = None
            if forms and forms[0].startswith("(wt "):
                rec["wt"] = forms[0] == "(wt 1)"
                forms = forms[1:]
            rec["model"] = forms
            rec["model_raw"] = m[:300]
            rec["tsem"] = split_top(ml.get(rec["tsemid"], "(no-result)"))
    return recs


def classify(model, rust):
    """returns None if they agree, else a short kind"""
    if model.startswith("(stuck") or model.startswith("(nofuel") or model.startswith("(no-result") \
            or model.startswith("(model-crash"):
        return "outside-model"
    if model.startswith("(ok-lenient"):
        return None
    if model == rust:
        return None
    if model.startswith("(ok"):
        if rust.startswith("(ok"):
            return "wrong-value"
        if rust.startswith("(panic"):
            return "spurious-panic"
        return "eval-crash"
    if model.startswith("(panic"):
        if rust.startswith("(ok"):
            return "missed-panic"
        if rust.startswith("(panic"):
            return "wrong-panic"
        return "eval-crash"
    return "other"


def compare(recs):
    """yields (rec, cfg, input index, kind, model result, rust result) for each disagreement; also
    returns statistics"""
    stats = {"programs": 0, "compiled": 0, "evaluations": 0, "model_ok": 0, "model_panic": 0,
             "outside_model": 0, "rejected": 0, "crash": 0}
    issues = []
    for rec in recs:
        stats["programs"] += 1
        if rec["status"] != "compiled":
            stats["rejected" if rec["status"] == "rejected" else "crash"] += 1
            continue
        stats["compiled"] += 1
        model = rec.get("model", [])
        for cfg, results in rec["runs"].items():
            if results == ["compile-failed"] or len(results) != len(model):
                issues.append((rec, cfg, -1, "config-failed", "", " ".join(results)[:200]))
                continue
            for k, (m, r) in enumerate(zip(model, results)):
                stats["evaluations"] += 1
                if m.startswith("(ok"):
                    stats["model_ok"] += 1
                elif m.startswith("(panic"):
                    stats["model_panic"] += 1
                ts = rec.get("tsem", [])
                if k < len(ts):
                    stats["tsem_compared"] = stats.get("tsem_compared", 0) + 1
                    if not (ts[k].startswith("(ok ") or ts[k].startswith("(panic ")):
                        # crash / nofuel / timeout / abort of the model runner: the bit-level semantics gave no answer
                        stats["tsem_outside"] = stats.get("tsem_outside", 0) + 1
                    elif ts[k] != r:
                        issues.append((rec, cfg, k, "tsem-mismatch", ts[k], r))
                kind = classify(m, r)
                if kind == "outside-model":
                    stats["outside_model"] += 1
                elif kind:
                    issues.append((rec, cfg, k, kind, m, r))
    return issues, stats


def generated_sources(ck, n, style="mixed"):
    out = []
    for i in range(n):
        g = gen_prog.Gen(ck.rng, style=style, max_depth=ck.rng.choice([1, 2, 2, 3]))
        try:
            out.append((f"gen{i}", g.program()))
        except RecursionError:
            continue
    return out
