"""C12 — const parameters act as literal substitution; missing/mistyped ones are errors."""
import os, re
from vlib import *
import gen_consts as G

MODE = os.environ.get("VERIF_C12_MODE")  # "orig": run the model of the unrepaired code (demonstration only)

# (defs, supplied, program kind, note): witnesses of the defects of the unchanged tree (DESIGN.md §6 and
# the ones this check found), the documented examples, boundary cases.  Always run first.
def corpus():
    E = lambda p, n: ("ext", p, n)
    U = lambda n, t: ("u", n, t)
    S = lambda n, t: ("s", n, t)
    c = []
    # §6-11 chain of references: binding order
    c.append(([("A", "i32", E("PARTY_0", "A")), ("B", "i32", ("id", "A")), ("C", "i32", ("id", "B")),
               ("D", "i32", ("id", "C"))], {"PARTY_0": {"A": S(-5, "i32")}}, "obs", "6-11"))
    # §6-21 max of negative values
    c.append(([("C", "i32", ("max", [E("PARTY_0", "A"), E("PARTY_0", "B")]))],
              {"PARTY_0": {"A": S(-5, "i32"), "B": S(-3, "i32")}}, "obs", "6-21"))
    # §6-22 signed literal in a signed const expr
    c.append(([("C", "i32", ("add", E("PARTY_0", "A"), S(-1, "i32")))], {"PARTY_0": {"A": S(-5, "i32")}}, "obs", "6-22"))
    c.append(([("C", "i8", ("sub", E("PARTY_0", "A"), S(1, "i8")))], {"PARTY_0": {"A": S(-128, "i8")}}, "obs", "6-22b"))
    # §6-23 max in u64, truncated afterwards
    c.append(([("C", "u8", ("max", [("add", E("PARTY_0", "A"), U(100, "u8")), U(50, "u8")]))],
              {"PARTY_0": {"A": U(200, "u8")}}, "obs", "6-23"))
    c.append(([("C", "u8", ("min", [("sub", E("PARTY_0", "A"), U(100, "u8")), U(250, "u8")]))],
              {"PARTY_0": {"A": U(50, "u8")}}, "obs", "6-23b"))
    # §6-8 zero-sized single array parameter
    c.append(([("C", "usize", E("PARTY_0", "A"))], {"PARTY_0": {"A": U(0, "usize")}}, "single", "6-8"))
    c.append(([("C", "usize", E("PARTY_0", "A"))], {"PARTY_0": {"A": U(1, "usize")}}, "single", "size-1"))
    c.append(([("C", "usize", ("sub", E("PARTY_0", "A"), U(2, "usize")))], {"PARTY_0": {"A": U(2, "usize")}}, "all", "size-0-arith"))
    # found by this check: mistyped usize constant panics; missing + mistyped only names the missing ones
    c.append(([("C", "usize", E("PARTY_0", "A"))], {"PARTY_0": {"A": U(5, "u8")}}, "obs", "n1-mistyped-usize"))
    c.append(([("C", "usize", ("add", E("PARTY_0", "A"), U(1, "usize")))], {"PARTY_0": {"A": ("t",)}}, "obs", "n1b"))
    c.append(([("A", "u8", E("PARTY_0", "A")), ("B", "u16", E("PARTY_0", "B"))], {"PARTY_0": {"A": ("t",)}}, "obs", "n3-missing+mistyped"))
    # found by this check: a non-usize const referring to another const inside arithmetic panics
    c.append(([("A", "u8", E("PARTY_0", "A")), ("B", "u8", ("add", ("id", "A"), U(1, "u8")))],
              {"PARTY_0": {"A": U(5, "u8")}}, "obs", "n2-ref-in-arith"))
    c.append(([("A", "i16", S(-7, "i16")), ("B", "i16", ("min", [("id", "A"), E("PARTY_1", "Q")]))],
              {"PARTY_1": {"Q": S(3, "i16")}}, "obs", "n2b"))
    # found by this check: arithmetic in a bool const is accepted by the checker and panics in the compiler
    c.append(([("C", "bool", ("max", [("t",), ("f",)]))], {}, "obs", "n4-bool-arith"))
    # wrap-around at every width
    for ty in G.UNS:
        mx = 2 ** G.UNS[ty] - 1
        c.append(([("C", ty, ("add", E("PARTY_0", "A"), U(1, ty))), ("D", ty, ("sub", U(0, ty), ("id", "C")))],
                  {"PARTY_0": {"A": U(mx, ty)}}, "obs", "wrap-" + ty))
    for ty in G.SIG:
        mn = -2 ** (G.SIG[ty] - 1)
        c.append(([("C", ty, ("sub", E("PARTY_0", "A"), S(1, ty))), ("D", ty, ("max", [("id", "C"), E("PARTY_0", "A")]))],
                  {"PARTY_0": {"A": S(mn, ty)}}, "obs", "wrap-" + ty))
    # the documented examples (garble_docs/src/guide/const.md)
    c.append(([("MY_CONST", "usize", ("add", ("min", [E("PARTY_0", "MY_CONST"), E("PARTY_1", "MY_CONST")]), U(5, "usize"))),
               ("DEPENDENT_CONST", "usize", ("add", ("max", [("id", "MY_CONST"), ("sub", E("PARTY_1", "MY_CONST"), U(2, "usize"))]), U(6, "usize")))],
              {"PARTY_0": {"MY_CONST": U(3, "usize")}, "PARTY_1": {"MY_CONST": U(2, "usize")}}, "obs", "doc"))
    c.append(([("PARTIES", "usize", E("PARTIES", "TOTAL"))], {"PARTIES": {"TOTAL": U(3, "usize")}}, "all", "doc-parties"))
    c.append(([("T", "bool", ("t",)), ("F", "bool", E("PARTY_0", "F")), ("G", "bool", ("id", "F"))],
              {"PARTY_0": {"F": ("f",)}}, "obs", "bools"))
    # found by an audit sub-agent: one external constant declared at two types (a6255f9)
    c.append(([("A", "u8", E("PARTY_0", "X")), ("B", "u16", E("PARTY_0", "X"))], {"PARTY_0": {"X": U(7, "u16")}}, "obs", "two-types-u8-u16"))
    c.append(([("A", "bool", E("PARTY_0", "X")), ("B", "u8", E("PARTY_0", "X"))], {"PARTY_0": {"X": U(1, "u8")}}, "obs", "two-types-bool-u8"))
    c.append(([("A", "u8", E("PARTY_0", "X")), ("B", "i8", E("PARTY_0", "X"))], {"PARTY_0": {"X": S(-56, "i8")}}, "obs", "two-types-u8-i8"))
    c.append(([("A", "usize", E("PARTY_0", "X")), ("B", "u32", E("PARTY_0", "X"))], {"PARTY_0": {"X": U(3, "u32")}}, "all", "two-types-usize-u32"))
    c.append(([("B", "u32", E("PARTY_0", "X")), ("A", "usize", E("PARTY_0", "X"))], {"PARTY_0": {"X": U(3, "usize")}}, "all", "two-types-u32-usize"))
    c.append(([("A", "u8", E("PARTY_0", "X")), ("B", "u8", ("add", E("PARTY_0", "X"), U(1, "u8")))], {"PARTY_0": {"X": U(7, "u8")}}, "obs", "one-type-twice"))
    # missing party / extra constants
    c.append(([("A", "u8", E("PARTY_0", "A")), ("B", "u8", E("PARTY_1", "B"))], {"PARTY_0": {"A": U(1, "u8")}}, "obs", "missing-party"))
    c.append(([("A", "u8", E("PARTY_0", "A"))], {"PARTY_0": {"A": U(1, "u8"), "Z": ("t",)}, "PARTY_7": {"Q": U(1, "u8")}}, "obs", "extra"))
    return c


def strip_extra(s):
    """removes the Rust-only (extra ..) fields (balanced parentheses)"""
    out, i = [], 0
    while True:
        j = s.find("(extra ", i)
        if j < 0:
            out.append(s[i:]); break
        out.append(s[i:j].rstrip())
        depth, k = 0, j
        while True:
            if s[k] == '"':
                k += 1
                while s[k] != '"':
                    k += 2 if s[k] == "\\" else 1
            elif s[k] == "(": depth += 1
            elif s[k] == ")":
                depth -= 1
                if depth == 0: break
            k += 1
        i = k + 1
    return "".join(out).strip()


def field(payload, key):
    for x in (sx_parse(payload) if isinstance(payload, str) else payload):
        if isinstance(x, list) and x and x[0] == key:
            return x
    return None


def extras(payload):
    return [x[1] for x in sx_parse(payload) if isinstance(x, list) and x and x[0] == "extra" and len(x) > 1]


def run(ck):
    quick = ck.tier == "quick"
    rng = ck.rng
    ck.prepare("C12")
    if not (ck.harness_ok and ck.model_ok):
        return ck.finish(trusted=COMMON_TRUSTED)
    jobs, meta = [], {}
    dist = {}

    def add(defs, sup, prog, kind, expect_wt):
        jid = f"j{len(jobs)}"
        cv = None
        deps = G.deps_of(defs)
        missing = [k for k in deps if sup.get(k[0], {}).get(k[1]) is None]
        mistyped = [k for k in deps if k not in missing and G.lit_type(sup[k[0]][k[1]]) != deps[k]]
        if expect_wt and not missing and not mistyped:
            try:
                cv = G.const_spec(defs, sup)
            except G.SpecError:
                cv = None
        jobs.append(G.make_job(jid, defs, sup, prog, cv, runs=6 if quick else 24, nins=12 if quick else 64,
                               seed=rng.randrange(1 << 30), mode=MODE))
        meta[jid] = {"defs": defs, "sup": sup, "prog": prog, "kind": kind, "wt": expect_wt, "cv": cv,
                     "deps": deps, "missing": missing, "mistyped": mistyped}
        dist[kind] = dist.get(kind, 0) + 1
        dist["prog:" + prog["name"]] = dist.get("prog:" + prog["name"], 0) + 1

    def progs_for(defs, sup, small_names, which):
        cv = None
        try:
            cv = G.const_spec(defs, sup)
        except G.SpecError:
            pass
        ps = [G.observer(defs)] if which in ("obs", "all", "both") else []
        if which != "obs":
            ts = G.templates(rng, defs, cv, small_names)
            if which == "single":
                ts = [t for t in ts if t["name"] == "single-array=parties"]
            ps += ts
        return ps

    # ---- corpus
    for defs, sup, which, note in corpus():
        small = {d[0] for d in defs if d[1] == "usize"}
        wt = G.static_wt(defs)
        for p in progs_for(defs, sup, small, which):
            add(defs, sup, p, "corpus:" + note, wt)

    # ---- seeded random: mostly valid blocks x assignments x programs, plus a malformed stream
    n_blocks = 500 if quick else 8000
    for b in range(n_blocks):
        want_size = rng.random() < 0.5
        defs, exts, small_names = G.gen_block(rng, want_size)
        sm = G.small_exts(defs, small_names)
        deps = G.deps_of(defs)
        sup = G.gen_supplied(rng, exts, sm)
        # valid assignment: observer + every template
        for p in progs_for(defs, sup, small_names, "both"):
            add(defs, sup, p, "valid", True)
        # a second valid assignment, observer only (values at the boundaries)
        sup2 = G.gen_supplied(rng, exts, sm)
        add(defs, sup2, G.observer(defs), "valid", True)
        # size 0 / 1 steered
        if small_names and rng.random() < 0.6:
            sup3 = G.gen_supplied(rng, exts, sm)
            for (p, n) in sm:
                if rng.random() < 0.7:
                    sup3[p][n] = ("u", rng.choice([0, 0, 1]), "usize")
            for p in progs_for(defs, sup3, small_names, "tmpl")[:3]:
                add(defs, sup3, p, "valid:size0/1", True)
        # missing / wrong type / extra
        if deps:
            for _ in range(2):
                supm, what = G.mutate_supplied(rng, sup, deps)
                ps = progs_for(defs, supm, small_names, "both")
                add(defs, supm, rng.choice(ps), "assign:" + what, True)
        # malformed block
        if rng.random() < 0.35:
            bad, kind = G.mutate_block(rng, defs)
            supb = dict(sup)
            if kind == "bool-arith":
                supb = {p: dict(m) for p, m in sup.items()}
                supb.setdefault("PARTY_0", {}).update({"BA": ("t",), "BB": ("f",)})
            add(bad, supb, G.observer(bad), "malformed:" + kind, G.static_wt(bad))

    by_id = {job_id(j): j for j in jobs}
    rs, ml = run_both(jobs, "c12", timeout_per_job=1.0)

    mism = 0
    stats = {"ok": 0, "err": 0, "check-err": 0, "crash": 0, "other": 0, "oracle_same": 0, "oracle_inputs": 0,
             "values_checked": 0, "sizes_checked": 0, "errors_checked": 0}
    for jid, job in by_id.items():
        m = meta[jid]
        r, mo = rs.get(jid, "(no-result)"), ml.get(jid, "(no-result)")
        rc = strip_extra(r)
        replay = {"job": job, "rust": r, "model": mo, "kind": m["kind"], "program": m["prog"]["name"]}
        res = field(rc, "res") if rc.startswith("(") else None
        verdict = res[1] if res and len(res) > 1 else "other"
        stats[verdict if verdict in stats else "other"] += 1
        ex = extras(r) if r.startswith("(") else []
        # ---------------- oracle: the property itself, on the real code's results
        if verdict == "crash":
            msg = next((e for e in ex if e and e[0] == "crashmsg"), None)
            ck.violation("compile_with_constants panics" + (f": {msg[1][1]}" if msg else ""), replay, key="c12-panic")
        if verdict == "other" and not r.startswith("(ast"):
            ck.violation("harness/job failure: " + r[:200], replay, found_input=False)
        det = field(rc, "det") if res else None
        if det and det[1] != "true":
            ck.violation("the same source and constants give different results in repeated compilations "
                         "(HashMap iteration order)", replay, key="c12-nondeterministic")
        if G.ext_two_types(m["defs"]) and verdict not in ("check-err", "crash"):
            ck.violation(f"an external constant declared with two different types is not a type error: {rc[:160]}",
                         replay, key="c12-one-constant-two-types")
        if m["missing"] or m["mistyped"]:
            # every missing / mistyped constant must be named; never a panic; extra ones ignored
            exp = set()
            for (p, n) in m["missing"]:
                exp.add(f"(missing {p} {n})")
            for (p, n) in m["mistyped"]:
                exp.add(f"(badtype {G.lit_sx(m['sup'][p][n])} {m['deps'][(p, n)]})")
            if m["wt"] and verdict != "crash":
                got = set()
                if verdict == "err":
                    got = set(re.findall(r"\((?:missing \S+ [^()\s]+|badtype \([^()]*\) \w+)\)", rc[rc.index("(res err"):]))
                if verdict != "err" or not exp <= got:
                    ck.violation(f"missing/mistyped constants not all reported: expected {sorted(exp)}, got "
                                 f"{verdict} {sorted(got)}", replay, key="c12-errors-incomplete")
                stats["errors_checked"] += 1
        elif m["cv"] is not None:
            cv = m["cv"]
            ig = G.expected_ig(m["prog"]["params"], cv)
            if verdict == "ok":
                # values of the consts = documented meaning
                vals = field(res, "vals") if isinstance(res, list) else None
                if m["prog"].get("observe"):
                    expv = []
                    for n in m["prog"]["observe"]:
                        ty, v = cv[n]
                        expv.append(("t" if v else "f") if ty == "bool" else str(v))
                    if vals is None or vals[1:] != expv:
                        ck.violation(f"const values differ from the documented meaning: expected {expv}, got "
                                     f"{vals[1:] if vals else None}", replay, key="c12-values")
                    stats["values_checked"] += len(expv)
                # const_sizes follow the constants
                sizes = field(res, "sizes")
                exps = {n: v for n, (ty, v) in cv.items() if ty == "usize"}
                for (p, n), ty in m["deps"].items():
                    if ty == "usize":
                        exps[f"{p}::{n}"] = G.lit_val(m["sup"][p][n])
                got = {x[0]: int(x[1]) for x in sizes[1:]} if sizes else {}
                if got != exps:
                    ck.violation(f"const_sizes do not follow the constants: expected {exps}, got {got}", replay,
                                 key="c12-sizes")
                stats["sizes_checked"] += 1
                # number of parties / party sizes follow the constants
                gi = field(res, "ig")
                if [int(x) for x in gi[1:]] != ig:
                    ck.violation(f"party sizes do not follow the constants: expected {ig}, got {gi[1:]}", replay,
                                 key="c12-parties")
                # compile_with_constants(p, cs) ~ compile(subst p cs) on all / sampled inputs
                orc = next((e for e in ex if e and e[0] == "oracle"), None)
                if orc is None:
                    ck.violation("no oracle result", replay, found_input=False)
                elif orc[1] == "same":
                    stats["oracle_same"] += 1
                    stats["oracle_inputs"] += int(field(orc, "n")[1])
                elif orc[1] == "subst-err" or orc[1] == "subst-crash":
                    ck.violation("the substituted program does not compile (generator or substitution bug)", replay,
                                 found_input=False)
                else:
                    ck.violation(f"compile_with_constants differs from compiling the substituted program: {orc[1]}",
                                 replay, key="c12-subst-" + orc[1])
            elif verdict == "err" and sum(ig) == 0 and "(zero-sized-inputs)" in rc:
                pass  # a program without input bits is refused (error or a valid circuit)
            elif verdict != "crash":
                ck.violation(f"well-typed program with correctly supplied constants is not compiled: {rc[:200]}",
                             replay, key="c12-rejected")
        elif not m["wt"]:
            if verdict == "ok":
                stats.setdefault("illformed_accepted", 0)
                stats["illformed_accepted"] += 1
        # ---------------- correspondence: model = code
        if "(fragment true)" in mo:
            stats["in_proved_fragment"] = stats.get("in_proved_fragment", 0) + 1
        mo = strip_extra(mo)
        if rc != mo:
            mism += 1
            if mism <= 3:
                ck.violation("model and implementation disagree on a consts job",
                             {**replay, "rust_stripped": rc, "correspondence": "consts jobs"}, found_input=False)
    ck.obligation("correspondence: checker view of the const definitions, compile_with_constants verdict, errors, "
                  "const_sizes, party sizes and constant wires equal the model on every job "
                  "(and every job gives one result over repeated in-process compilations)", mism == 0,
                  f"{mism} differing jobs")
    nontrivial = len(set(re.sub(r"^\(consts \S+ ", "", j) for j in jobs))
    ck.coverage.update({
        "evaluations": len(jobs), "distinct_nontrivial": nontrivial,
        "rule": "const blocks of 1-10 definitions over bool/u8..u64/usize/i8..i64 (external values, references to "
                "earlier consts, chains, nested min/max/+/-, boundary literals) x assignments (valid with boundary "
                "values, sizes 0/1, missing const/party, wrong type, extra) x programs (observer of every const; "
                "const-sized array parameters with indexing, single array = parties, nested arrays, array repeat + "
                "trip count, join_iter, tuple parameters, operands) + malformed blocks; distinct by payload",
        "traces_validated_against_impl": len(jobs) - mism,
        "input_distribution": dist, "rust_verdicts_and_oracle": stats,
        "runs_per_job_in_process": 6 if quick else 24,
    })
    ck.samples = [jobs[0], jobs[len(jobs) // 2], jobs[-1]]
    return ck.finish(trusted=COMMON_TRUSTED + [
        "modelled: check.rs:369-459 (const definitions), compile.rs:93-380 (compile_with_constants up to the body of "
        "main, resolve_const_expr_*), literal.rs is_of_type/as_bits on scalar literals; usize = 64 bits on the host; "
        "usize products of sizes assumed not to overflow; the parser is not modelled: the job carries the const "
        "definitions in structured form and the harness checks that the real parser/checker produced exactly that",
        "const_spec of the oracle is an independent Python implementation (tools/gen_consts.py)"],
        extra_assumptions=["supplied literals are within the range of their declared type (out-of-range literals are "
                           "property C09)",
                           "for a mistyped constant the error carries the offending literal and the declared type "
                           "(CompilerError::InvalidLiteralType has no name field): 'names' is read as 'one such error "
                           "per mistyped constant'"])
