"""C13: `joinprog` jobs — Garble programs with `for .. in join_iter(a, b)` / `join(a, b)`, their
inputs (all order types of two strictly ascending arrays per size pair, multi-bit keys, key 0,
disjoint / identical sets, same-side duplicates for `join`) and the expected results computed
from `join_spec` (pairs with equal keys in ascending key order)."""

# ------------------------------------------------------------------ types and values
# ("u", bits) | ("bool",) | ("tuple", [t..]) | ("array", t, n)

U8, U16, U32, U64, BOOL = ("u", 8), ("u", 16), ("u", 32), ("u", 64), ("bool",)


def tuple_t(*ts):
    return ("tuple", list(ts))


def type_str(t):
    if t[0] == "u":
        return "u%d" % t[1]
    if t[0] == "bool":
        return "bool"
    if t[0] == "tuple":
        return "(" + ", ".join(type_str(x) for x in t[1]) + ")"
    return "[%s; %d]" % (type_str(t[1]), t[2])


def size(t):
    if t[0] == "u":
        return t[1]
    if t[0] == "bool":
        return 1
    if t[0] == "tuple":
        return sum(size(x) for x in t[1])
    return size(t[1]) * t[2]


def lit(t, v):
    if t[0] == "u":
        return "%du%d" % (v, t[1])
    if t[0] == "bool":
        return "true" if v else "false"
    if t[0] == "tuple":
        return "(" + ", ".join(lit(x, y) for x, y in zip(t[1], v)) + ")"
    return "[" + ", ".join(lit(t[1], y) for y in v) + "]"


def bits_of(t, v):
    if t[0] == "u":
        return [(v >> (t[1] - 1 - i)) & 1 for i in range(t[1])]
    if t[0] == "bool":
        return [1 if v else 0]
    if t[0] == "tuple":
        return [b for x, y in zip(t[1], v) for b in bits_of(x, y)]
    return [b for y in v for b in bits_of(t[1], y)]


def decode(t, bits, pos=0):
    """-> (value, new pos)"""
    if t[0] == "u":
        n = 0
        for i in range(t[1]):
            n = (n << 1) | bits[pos + i]
        return n, pos + t[1]
    if t[0] == "bool":
        return bool(bits[pos]), pos + 1
    if t[0] == "tuple":
        out = []
        for x in t[1]:
            v, pos = decode(x, bits, pos)
            out.append(v)
        return tuple(out), pos
    out = []
    for _ in range(t[2]):
        v, pos = decode(t[1], bits, pos)
        out.append(v)
    return tuple(out), pos


def zero(t):
    return decode(t, [0] * size(t))[0]


def key_num(t, v):
    """unsigned number denoted by the bits of a key value (the order the join uses)"""
    n = 0
    for b in bits_of(t, v):
        n = (n << 1) | b
    return n


def key_from_num(t, n):
    s = size(t)
    return decode(t, [(n >> (s - 1 - i)) & 1 for i in range(s)])[0]


def tup(v):
    """normalise lists to tuples for comparison"""
    if isinstance(v, (list, tuple)):
        return tuple(tup(x) for x in v)
    return v


# ------------------------------------------------------------------ programs

def leaves(t, name):
    """pattern for a value of type t (tuples destructured) -> (pattern, [(var, type)])"""
    if t[0] == "tuple":
        pats, ls = [], []
        for i, x in enumerate(t[1]):
            p, l = leaves(x, "%s%d" % (name, i))
            pats.append(p); ls += l
        return "(" + ", ".join(pats) + ")", ls
    return name, [(name, t)]


def u64_expr(var, t):
    if t[0] == "u":
        return "(%s as u64)" % var
    if t[0] == "bool":
        return "(if %s { 1u64 } else { 0u64 })" % var
    raise ValueError(t)


def u64_val(t, v):
    return int(v)


MULTS = [3, 5, 7, 11, 13, 2]


class LoopProgram:
    """for-join loop with an order-sensitive accumulator, a counter and (optionally) an
    operation that overflows exactly when the payload sum of a joined pair exceeds u8."""

    def __init__(self, kt, pa, pb, n, m, with_panic, destructure_in_for):
        self.kind = "loop-panic" if with_panic else "loop"
        self.spec = ("loop", kt, pa, pb, n, m, with_panic, destructure_in_for)
        self.kt, self.pa, self.pb, self.n, self.m = kt, pa, pb, n, m
        self.ea = tuple_t(kt, *pa)
        self.eb = tuple_t(kt, *pb)
        self.with_panic = with_panic
        pat_a, la = leaves(tuple_t(*pa), "x")
        pat_b, lb = leaves(tuple_t(*pb), "y")
        # element patterns: (ka, x0, x1..) — the payload fields of the element tuple are flattened
        pat_a = "(ka, " + pat_a[1:] if pa else "(ka)"
        pat_b = "(kb, " + pat_b[1:] if pb else "(kb)"
        self.la, self.lb = la, lb
        terms = []
        for i, (v, t) in enumerate(la + lb):
            if t[0] in ("u", "bool"):
                terms.append("%s * %du64" % (u64_expr(v, t), MULTS[i % len(MULTS)]))
        body = []
        self.panic_line = None
        if with_panic:
            # first u8 leaf of each side
            xa = next(v for v, t in la if t == U8)
            yb = next(v for v, t in lb if t == U8)
            body.append("        let s = %s + %s;" % (xa, yb))
            terms.append("(s as u64)")
            self.pv = (xa, yb)
        body.append("        acc = acc * 31u64 + %s;" % " + ".join(terms or ["1u64"]))
        body.append("        cnt = cnt + 1u8;")
        if kt[0] == "u":
            body.append("        ok = ok & (ka == kb);")
        # two empty arrays: a further parameter, so that the circuit has an input bit at all
        self.extra = n + m == 0
        lines = ["pub fn main(a: [%s; %d], b: [%s; %d]%s) -> (u64, u8, bool) {" % (
            type_str(self.ea), n, type_str(self.eb), m, ", _c: u8" if self.extra else ""),
            "    let mut acc = 1u64;", "    let mut cnt = 0u8;", "    let mut ok = true;"]
        if destructure_in_for:
            lines.append("    for (%s, %s) in join_iter(a, b) {" % (pat_a, pat_b))
        else:
            lines.append("    for joined in join_iter(a, b) {")
            lines.append("        let (%s, %s) = joined;" % (pat_a, pat_b))
        if with_panic:
            self.panic_line = len(lines) + 1      # 1-based line of `let s = ..`
        lines += body
        lines += ["    }", "    (acc, cnt, ok)", "}"]
        self.src = "\n".join(lines) + "\n"
        self.ret = tuple_t(U64, U8, BOOL)

    def leaf_vals(self, pt, pv):
        """values of the flattened payload leaves of one element"""
        out = []

        def go(t, v):
            if t[0] == "tuple":
                for x, y in zip(t[1], v):
                    go(x, y)
            else:
                out.append((t, v))
        for t, v in zip(pt, pv):
            go(t, v)
        return out

    def expected(self, a, b):
        """a, b: lists of element values (key, payload..). -> ('ok', (acc, cnt, ok)) | ('panic',)"""
        acc, cnt = 1, 0
        for ea, eb in join_spec(self.kt, a, b):
            lv = self.leaf_vals(self.pa, ea[1:]) + self.leaf_vals(self.pb, eb[1:])
            term = 0
            for i, (t, v) in enumerate(lv):
                if t[0] in ("u", "bool"):
                    term += u64_val(t, v) * MULTS[i % len(MULTS)]
            if self.with_panic:
                xa = next(v for t, v in self.leaf_vals(self.pa, ea[1:]) if t == U8)
                yb = next(v for t, v in self.leaf_vals(self.pb, eb[1:]) if t == U8)
                if xa + yb > 255:
                    return ("panic",)
                term += xa + yb
            if not (self.leaf_vals(self.pa, ea[1:]) + self.leaf_vals(self.pb, eb[1:])):
                term = 1
            acc = acc * 31 + term
            cnt += 1
        assert acc < 2 ** 64
        return ("ok", (acc, cnt, True))


class JoinProgram:
    """`join(a, b)`: tuples (assoc data: (bool, EA, EB)) or plain keys ((bool, K))."""

    def __init__(self, kt, pa, pb, n, m, assoc, loop_over=False):
        self.kind = "join-assoc" if assoc else "join-set"
        self.spec = ("join", kt, pa, pb, n, m, assoc)
        self.kt, self.pa, self.pb, self.n, self.m, self.assoc = kt, pa, pb, n, m, assoc
        if assoc:
            self.ea = tuple_t(kt, *pa)
            self.eb = tuple_t(kt, *pb)
            self.entry = tuple_t(BOOL, self.ea, self.eb)
        else:
            self.ea = self.eb = kt
            self.entry = tuple_t(BOOL, kt)
        self.ret = ("array", self.entry, n + m - 1)
        self.src = ("pub fn main(a: [%s; %d], b: [%s; %d]) -> [%s; const { %dusize + %dusize - 1usize }] {\n"
                    "    join(a, b)\n}\n") % (type_str(self.ea), n, type_str(self.eb), m, type_str(self.entry), n, m)

    def key_of(self, e):
        return e[0] if self.assoc else e

    def check(self, a, b, out):
        """out: decoded array of entries. Returns None or a description of the disagreement."""
        n, m = len(a), len(b)
        if len(out) != n + m - 1:
            return "length %d instead of n+m-1 = %d" % (len(out), n + m - 1)
        flags = [e[0] for e in out]
        if flags != sorted(flags):
            return "flags are not sorted (false.. then true..): %s" % flags
        ka = {}
        for e in a:
            ka.setdefault(key_num(self.kt, self.key_of(e)), []).append(tup(e))
        kb = {}
        for e in b:
            kb.setdefault(key_num(self.kt, self.key_of(e)), []).append(tup(e))
        common = sorted(set(ka) & set(kb))
        seen = []
        for e in out:
            if not e[0]:
                if tup(e[1:]) != tup(zero(("tuple", self.entry[1][1:]))):
                    return "an unflagged entry is not all zero: %s" % (e,)
                continue
            if self.assoc:
                ea, eb = tup(e[1]), tup(e[2])
                k1, k2 = key_num(self.kt, ea[0]), key_num(self.kt, eb[0])
                if k1 != k2:
                    return "a flagged entry pairs different keys: %s" % (e,)
                if ea not in ka.get(k1, []) or eb not in kb.get(k1, []):
                    return ("a flagged entry is not built from one element of a and one of b with that key "
                            "(two elements of the same array, or corrupted payload): %s" % (e,))
                seen.append(k1)
            else:
                k1 = key_num(self.kt, e[1])
                if k1 not in ka or k1 not in kb:
                    return "a flagged entry is not a common key: %s" % (e,)
                seen.append(k1)
        if sorted(seen) != common:
            return "flagged keys %s differ from the common keys %s (each exactly once)" % (sorted(seen), common)
        return None


def join_spec(kt, a, b):
    """pairs (ea, eb) with equal keys, ascending key order (inputs strictly ascending)."""
    kb = {key_num(kt, e[0]): e for e in b}
    out = []
    for e in sorted(a, key=lambda e: key_num(kt, e[0])):
        k = key_num(kt, e[0])
        if k in kb:
            out.append((e, kb[k]))
    return out


# ------------------------------------------------------------------ inputs

def delannoy(n, m, memo={}):
    if n == 0 or m == 0:
        return 1
    if (n, m) not in memo:
        memo[(n, m)] = delannoy(n - 1, m) + delannoy(n, m - 1) + delannoy(n - 1, m - 1)
    return memo[(n, m)]


def order_types(n, m):
    """every relative order of two strictly ascending key arrays of lengths n, m, as rank
    lists (a_ranks, b_ranks): lattice paths with steps A (key only in a), B, AB (common key)."""
    out = []

    def go(i, j, r, ar, br):
        if i == n and j == m:
            out.append((list(ar), list(br)))
            return
        if i < n:
            ar.append(r); go(i + 1, j, r + 1, ar, br); ar.pop()
        if j < m:
            br.append(r); go(i, j + 1, r + 1, ar, br); br.pop()
        if i < n and j < m:
            ar.append(r); br.append(r); go(i + 1, j + 1, r + 1, ar, br); ar.pop(); br.pop()
    go(0, 0, 0, [], [])
    return out


def random_order_type(rng, n, m):
    ar, br, i, j, r = [], [], 0, 0, 0
    while i < n or j < m:
        c = []
        if i < n: c.append("A")
        if j < m: c.append("B")
        if i < n and j < m: c += ["AB", "AB"]
        s = rng.choice(c)
        if "A" in s: ar.append(r); i += 1
        if "B" in s: br.append(r); j += 1
        r += 1
    return ar, br


def rank_map(rng, nranks, kbits, mode):
    """strictly increasing map rank -> key number. modes: 'small' (0,1,2..), 'shift' (1,2,..),
    'random' (random multi-bit keys), 'edges' (0 and the maximal key present)."""
    top = (1 << kbits) - 1
    if mode == "small" or nranks > top:
        return list(range(nranks))
    if mode == "shift":
        return [r + 1 for r in range(nranks)] if nranks <= top else list(range(nranks))
    ks = sorted(rng.sample(range(0, min(top + 1, 1 << 32)), nranks)) if top + 1 >= nranks else list(range(nranks))
    if mode == "edges" and nranks >= 1:
        ks[0] = 0
        if nranks >= 2:
            ks[-1] = top
    return ks


def rand_payload(rng, t, big):
    if t[0] == "u":
        if t[1] == 8:
            return rng.randint(180, 255) if big else rng.randint(0, 60)
        return rng.randint(0, 999)
    if t[0] == "bool":
        return rng.random() < 0.5
    if t[0] == "tuple":
        return tuple(rand_payload(rng, x, big) for x in t[1])
    return tuple(rand_payload(rng, t[1], big) for _ in range(t[2]))


def make_arrays(rng, prog, ar, br, mode, want_panic=False):
    """element values for rank lists ar, br. Payloads of elements without a partner are large
    (so that an effect of a non-joined window would be visible as an overflow); joined pairs
    get small payloads unless want_panic."""
    kbits = size(prog.kt)
    nr = max(ar + br) + 1 if (ar or br) else 0
    km = rank_map(rng, nr, kbits, mode)
    common = set(ar) & set(br)
    hot = rng.choice(sorted(common)) if (want_panic and common) else None

    def elems(ranks, pts):
        out = []
        for r in ranks:
            k = key_from_num(prog.kt, km[r])
            if not getattr(prog, "assoc", True):
                out.append(k)
                continue
            big = (r not in common) or (r == hot)
            out.append((k,) + tuple(rand_payload(rng, t, big) for t in pts))
        return out
    return elems(ar, prog.pa), elems(br, prog.pb)


def dup_arrays(rng, prog):
    """ascending arrays with repeated keys inside one side (for `join` only)"""
    kbits = size(prog.kt)
    uni = sorted(rng.sample(range(0, min(1 << kbits, 64)), min(4, 1 << kbits)))
    if rng.random() < 0.5:
        uni[0] = 0

    def side(n, pts):
        ks = sorted(rng.choice(uni) for _ in range(n))
        out = []
        for kn in ks:
            k = key_from_num(prog.kt, kn)
            out.append((k,) + tuple(rand_payload(rng, t, rng.random() < 0.3) for t in pts) if prog.assoc else k)
        return out
    return side(prog.n, prog.pa), side(prog.m, prog.pb)


def fmt_job(jid, prog, runs):
    from vlib import quote
    ex = ' "7u8"' if getattr(prog, "extra", False) else ""
    rs = " ".join("(run %s %s%s)" % (quote(lit(("array", prog.ea, prog.n), a)), quote(lit(("array", prog.eb, prog.m), b)), ex)
                  for a, b in runs)
    return "(joinprog %s (src %s) (runs %s))" % (jid, quote(prog.src), rs)


def program_of_spec(spec):
    """inverse of .spec (used by ./check C13 --replay); `spec` comes from ast.literal_eval"""
    if spec[0] == "loop":
        return LoopProgram(spec[1], spec[2], spec[3], spec[4], spec[5], spec[6], spec[7])
    return JoinProgram(spec[1], spec[2], spec[3], spec[4], spec[5], spec[6])
