#!/bin/sh
# runs the quick tier of every check registered in MANIFEST.json on the current tree
cd "$(dirname "$0")/.."
for id in $(python3 -c "import json; print(' '.join(c['property_id'] for c in json.load(open('MANIFEST.json'))['checks']))"); do
  /usr/bin/time -f "$id %es" ./check $id --tier quick > work/run_$id.out 2> work/run_$id.err
  rc=$?
  echo "$id rc=$rc $(grep -c '^VIOLATION' work/run_$id.out) violations, $(grep -c '^KNOWN-FINDING' work/run_$id.out) known; $(tail -1 work/run_$id.err)"
done
python3-vt - <<'PY'
import json, jsonschema, glob
sch = json.load(open('/root/.vp/EVIDENCE.schema.json'))
m = json.load(open('MANIFEST.json'))
jsonschema.validate(m, json.load(open('/root/.vp/MANIFEST.schema.json')))
for c in m['checks']:
    e = json.load(open(c['evidence_file']))
    jsonschema.validate(e, sch)
    cov = e['coverage']
    assert cov['obligations'] == cov['discharged'], (c['property_id'], cov['obligations'], cov['discharged'])
print("manifest + evidence valid")
PY
