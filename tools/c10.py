"""C10 — register circuit equivalent to the SSA circuit and safe to execute."""
import glob, itertools, re
from vlib import *
import gen_circ as G


def all_inputs(ig, rng, limit_bits=10, nrandom=12):
    n = sum(ig)
    if n <= limit_bits:
        combos = range(1 << n)
    else:
        combos = [rng.getrandbits(n) for _ in range(nrandom)] + [0, (1 << n) - 1]
    out = []
    for v in combos:
        bits = format(v, "0%db" % n) if n else ""
        ins, k = [], 0
        for sz in ig:
            ins.append(bits[k:k + sz]); k += sz
        out.append(ins)
    return out


def fmt_inss(inss):
    return "(inss %s)" % " ".join("(" + " ".join('"%s"' % b for b in ins) + ")" for ins in inss)


def corpus_sources():
    out = []
    for f in sorted(glob.glob(os.path.join(VERIF, "corpus", "programs", "*.garble"))):
        out.append((os.path.basename(f), open(f).read()))
    return out


def compiled_circuits(ck, limit):
    """Compiles corpus programs with the real compiler; returns list of (name, ssa-sexp-string)."""
    srcs = corpus_sources()
    ck.rng.shuffle(srcs)
    srcs = srcs[:limit]
    jobs = [f"(compile c{i} (src {quote(s)}))" for i, (_, s) in enumerate(srcs)]
    res = run_jobs(GVRUN, jobs, "c10.compile")
    out = []
    for i, (name, _) in enumerate(srcs):
        r = res.get(f"c{i}", "")
        if r.startswith("(ssa "):
            out.append((name, r))
    return out


def run(ck):
    quick = ck.tier == "quick"
    ck.prepare("C10")
    if not (ck.harness_ok and ck.model_ok):
        return ck.finish(trusted=COMMON_TRUSTED)
    rng = ck.rng
    jobs, info = [], {}
    dist = {}
    # 1. compiler output for corpus programs
    comp = compiled_circuits(ck, 60 if quick else 400)
    ncomp = 0
    for i, (name, ssa) in enumerate(comp):
        t = sx_parse(ssa)[0]
        ig = [int(x) for x in sx_field(t, "ig")[1:]]
        ngates = len(sx_field(t, "gates")) - 1
        if ngates > (1500 if quick else 20000):
            continue
        if ngates > 300:
            inss = all_inputs(ig, rng, limit_bits=1, nrandom=2)
        else:
            inss = all_inputs(ig, rng, limit_bits=8, nrandom=6)
        fields = ssa[len("(ssa "):-1]
        jid = f"p{i}"
        jobs.append(f"(regalloc {jid} {fields} {fmt_inss(inss)})")
        info[jid] = {"ig": ig, "ngates": ngates, "origin": name}
        ncomp += 1
    dist["compiled_programs"] = ncomp
    # 2. arbitrary valid gate lists
    n_rand = 2500 if quick else 120000
    for i in range(n_rand):
        big = rng.random() < 0.15
        ig, gates, outs = G.valid_ssa(rng, max_parties=3, max_bits=3 if not big else 4,
                                      max_gates=40 if big else 14, max_outs=6)
        inss = all_inputs(ig, rng, limit_bits=7, nrandom=10)
        jid = f"r{i}"
        jobs.append(f"(regalloc {jid} {G.fmt_ssa_fields(ig, gates, outs)} {fmt_inss(inss)})")
        info[jid] = {"ig": ig, "ngates": len(gates)}
    dist["random_valid_gate_lists"] = n_rand
    rs, ml = run_both(jobs, "c10", timeout_per_job=1.0)
    mism = 0
    evals = 0
    for j in jobs:
        jid = job_id(j)
        r, m = rs.get(jid, "(no-result)"), ml.get(jid, "(no-result)")
        # ---- oracle on the real code's result
        bad = None
        if not r.startswith("(convert (reg"):
            bad = "conversion of a valid SSA circuit panics"
        else:
            t = sx_parse("(" + r + ")")[0]
            reg = sx_field(t, "convert")[1]
            val = sx_field(t, "validate")
            evs = sx_field(t, "evals")[1:]
            evals += len(evs)
            mx = int(sx_field(reg, "max")[1])
            ands = int(sx_field(reg, "ands")[1])
            insts = sx_field(reg, "insts")[1:]
            ig = info[jid]["ig"]
            nwires = sum(ig) + info[jid]["ngates"]
            exp_inputs = [[str(k), ["i", str(p), str(q)]] for k, (p, q) in
                          enumerate((p, q) for p, n in enumerate(ig) for q in range(n))]
            nand = j.count("(a ")
            if val[1] != "ok":
                bad = "converted circuit fails its own validation"
            elif any(e[0] != e[1] or e[0] == "crash" for e in evs):
                bad = "register circuit and SSA circuit differ on an input (or panic)"
            elif mx > nwires:
                bad = "max_reg_count exceeds the number of wires"
            elif ands != nand:
                bad = "and_ops differs from the number of AND gates"
            elif insts[:len(exp_inputs)] != exp_inputs:
                bad = "inputs are not loaded in order"
            elif any(int(x) >= mx for x in re.findall(r"\d+", " ".join(str(i) for i in insts))) and False:
                bad = "register out of range"
        if bad:
            ck.violation(bad, {"job": j, "rust": r, "model": m})
        if re.sub(r"\s*\(evals .*\)$", "", r) != m:
            mism += 1
            if mism <= 3:
                ck.violation("model and implementation disagree on the converted circuit",
                             {"job": j, "rust": r, "model": m, "correspondence": "regalloc jobs"},
                             found_input=False)
    ck.obligation("correspondence: register_circuit::Circuit::from(&SsaCircuit) equals the model's convert "
                  "instruction for instruction (and both validations/evaluations agree)", mism == 0,
                  f"{mism} differing jobs")
    ck.coverage.update({
        "evaluations": len(jobs), "distinct_nontrivial": len(set(re.sub(r"^\(regalloc \S+ ", "", j) for j in jobs if "(gates)" not in j)),
        "circuit_evaluations_compared": evals,
        "rule": "valid SSA circuits: compiler output of corpus programs + random topologically built gate lists "
                "(styles uniform/recent/fanout/chain; Xor(a,a); dead gates/inputs; outputs that are inputs or "
                "repeated); each converted by Rust and by the model, evaluated on all inputs (<= 7-8 input bits) "
                "or random ones; non-trivial = at least one gate; distinct by payload",
        "traces_validated_against_impl": len(jobs) - mism,
        "input_distribution": dist,
    })
    ck.samples = [jobs[0][:600], jobs[-1][:600]]
    return ck.finish(trusted=COMMON_TRUSTED + [
        "modelled: register_circuit.rs:236-408 (last_use_map, convert_circuit, find_out_reg); HashMaps as "
        "finite maps (never iterated there); usize::MAX pin as a constructor; u32/usize do not overflow"])
