"""C09 — literal encoding round-trips, matches the circuit bit layout, is validated."""
import json, os, re
from vlib import *
import gen_lit as G


def sx_dump(x):
    if isinstance(x, tuple):
        return quote(x[1])
    if isinstance(x, list):
        return "(" + " ".join(sx_dump(y) for y in x) + ")"
    return x


def parse_payload(s):
    try:
        return sx_parse(s)
    except Exception:
        return [["unparsable", ("str", s[:200])]]


def tied(fields):
    return " ".join(sx_dump(f) for f in fields if not (isinstance(f, list) and f and f[0] in ("rs", "ml")))


def fld(fields, key):
    f = sx_field(fields, key)
    if f is None or len(f) < 2:
        return None
    return f[1]


# which known-finding key a mutation class belongs to (see known_findings.json / REPORT.md)
MUT_KEY = {
    "st-permute": "c09-struct-field-order", "st-duplicate": "c09-struct-field-order", "st-repeat": "c09-struct-field-order",
    "st-drop": "c09-struct-field-order", "st-extra": "c09-struct-field-order",
    "st-field-rename": "c09-struct-field-order",
    "en-arity-short": "c09-enum-arity", "en-arity-long": "c09-enum-arity",
    "u-out-of-range": "c09-int-range", "s-out-of-range": "c09-int-range",
    "range-reversed": "c09-range-bounds", "range-beyond-type": "c09-range-bounds",
    "range-len": "c09-range-bounds",
}

CORPUS = [
    # DESIGN.md §6-16..19, 29 and the findings of this check (all repaired by fixes 1-9)
    ('(names "S" "a" "b") (defs (struct 0 (1 u8) (2 u8))) (ty (st 0)) (lit (st 0 (2 (u 1 u8)) (1 (u 2 u8))))', "st-permute"),
    ('(names "S" "a" "b") (defs (struct 0 (1 u8) (2 u8))) (ty (st 0)) (lit (st 0 (1 (u 1 u8)) (1 (u 2 u8))))', "st-duplicate"),
    ('(names "S" "a" "b") (defs (struct 0 (1 u8) (2 u8))) (ty (st 0)) (lit (st 0 (1 (u 1 u8)) (2 (u 2 u8)) (1 (u 7 u8))))', "st-repeat"),
    ('(names "S" "a" "b") (defs (struct 0 (1 u8) (2 u8))) (ty (st 0)) (lit (st 0 (1 (u 1 u16)) (2 (u 2 u8)) (1 (u 7 u8))))', "st-repeat"),
    ('(names "A" "B" "E") (defs (enum 2 (unit 0) (tuple 1 u8 u16))) (ty (en 2)) (lit (en 2 1 ((u 1 u8))))', "en-arity-short"),
    ('(names "A" "B" "E") (defs (enum 2 (unit 0) (tuple 1 u8 u16))) (ty (en 2)) (lit (en 2 1 ((u 1 u8) (u 2 u16) (u 3 u8))))', "en-arity-long"),
    ('(names) (defs) (ty u8) (lit (u 300 u8))', "u-out-of-range"),
    ('(names) (defs) (ty i8) (lit (s 200 i8))', "s-out-of-range"),
    ('(names) (defs) (ty usize) (lit (u 4294967296 usize))', "u-out-of-range"),
    ('(names) (defs) (ty (arr u8 3)) (lit (range 5 2 u8))', "range-reversed"),
    ('(names) (defs) (ty (arr u8 3)) (lit (range 254 257 u8))', "range-beyond-type"),
    ('(names) (defs) (ty (arr u8 3)) (lit (range 253 256 u8))', "spelling"),
    ('(names) (defs) (ty (tup u8)) (lit (tup (u 5 u8)))', "value"),
    ('(names) (defs) (ty (tup)) (lit (tup))', "value"),
    ('(names) (defs) (ty (tup (tup) u8)) (lit (tup (tup) (u 1 u8)))', "value"),
    ('(names) (defs) (ty (arr u8 8)) (lit (range 2 10 u8)) (text "2..10")', "text:untyped-range"),
    ('(names) (defs) (ty (arr u8 3)) (lit (range 253 256 u8)) (text "254..257")', "text:untyped-range"),
    ('(names "S" "a" "b") (defs (struct 0 (1 u8) (2 u8))) (ty (st 0)) (lit (st 0 (1 (u 1 u8)) (2 (u 2 u8)))) (text "S {a: 1 + 2, b: 1}")', "text:infix"),
    ('(names "S" "a" "b") (defs (struct 0 (1 u8) (2 u8))) (ty (st 0)) (lit (st 0 (1 (u 1 u8)) (2 (u 2 u8)))) (text "S {a: 1, a: 2}")', "text:duplicate"),
    ('(names "S" "a" "b") (defs (struct 0 (1 u8) (2 u8))) (ty (st 0)) (lit (st 0 (1 (u 1 u8)) (2 (u 2 u8)))) (text "S {b: 2, a: 1}") (revsrc)', "text:valid-permuted"),
    ('(names) (defs) (ty u8) (lit (u 5 u8)) (text "5 6")', "text:trailing"),
    ('(names) (defs) (ty (arr u8 0)) (lit (arr))', "value"),
    ('(names) (defs) (ty i64) (lit (s -9223372036854775808 i64))', "value"),
    ('(names) (defs) (ty u64) (lit (u 18446744073709551615 u64))', "value"),
    ('(names "A" "B" "E") (defs (enum 2 (unit 0) (tuple 1 u8 u16))) (ty (tup (en 2) (tup) i64)) (lit (tup (en 2 1 ((u 1 u8) (u 2 u16))) (tup) (s -1 i64)))', "value"),
    ('(names "A" "E") (defs (enum 1 (tuple 0))) (ty (en 1)) (lit (en 1 0 ()))', "value"),
    ('(names "S") (defs (struct 0)) (ty (st 0)) (lit (st 0))', "value"),
    ('(names) (defs) (ty (arr u8 3)) (lit (arr (u 1 u8) (u 2 u8) (u 3 u8))) (dbits "0101")', "value"),
]


def gen_jobs(ck, n_types, per_type):
    rng = ck.rng
    jobs, meta = [], {}
    dist = {}

    def add(jid, body, kind, mut=None, text_mut=None, shape=None):
        jobs.append(f"(literal {jid} {body})")
        meta[jid] = {"kind": kind, "mut": mut, "text_mut": text_mut, "shape": shape}
        dist[kind] = dist.get(kind, 0) + 1
        if mut:
            dist["mut:" + mut] = dist.get("mut:" + mut, 0) + 1
        if text_mut:
            dist["text:" + text_mut] = dist.get("text:" + text_mut, 0) + 1

    for i, (body, kind) in enumerate(CORPUS):
        k = "corpus-" + kind
        add(f"k{i}", body, k, mut=kind if kind in MUT_KEY else None,
            text_mut=kind[5:] if kind.startswith("text:") else None)

    shapes = {}
    for ti in range(n_types):
        tg = G.TypeGen(rng)
        T = tg.ty(rng.choice([1, 2, 2, 3, 3, 4]))
        try:
            sz = G.size(T, tg.by_name)
        except ValueError:
            continue
        if sz > 3000:
            continue
        shape = T[0]
        shapes[shape] = shapes.get(shape, 0) + 1
        rev = " (revsrc)" if rng.random() < 0.3 else ""
        for vi in range(per_type):
            r = rng.random()
            mut = text_mut = None
            text = None
            if r < 0.30:
                kind, lit = "value", G.value(rng, T, tg.by_name)
            elif r < 0.45:
                kind, lit = "spelling", G.value(rng, T, tg.by_name, spell=True)
            elif r < 0.80:
                kind = "adversarial"
                lit = G.value(rng, T, tg.by_name, spell=rng.random() < 0.4)
                lit, mut = G.mutate(rng, lit, T, tg)
                if rng.random() < 0.15:
                    lit, m2 = G.mutate(rng, lit, T, tg)
                    mut = mut + "+" + m2
            else:
                kind = "text"
                lit = G.value(rng, T, tg.by_name, spell=rng.random() < 0.3)
                base = G.show(lit, typed=rng.random() < 0.3)
                if rng.random() < 0.25:
                    text, text_mut = base, "valid-typed"
                    if lit[0] == "st" and rng.random() < 0.5:
                        fs = list(lit[2]); fs.reverse()
                        text, text_mut = G.show(("st", lit[1], fs)), "valid-permuted"
                else:
                    text, text_mut = G.perturb_text(rng, base)
            names = G.names_of(tg, lit)
            rank = {n: i for i, n in enumerate(names)}
            body = "(names " + " ".join(quote(n) for n in names) + ") " + G.fmt_defs(tg.defs, rank) + \
                   f" (ty {G.fmt_ty(T, rank)}) (lit {G.fmt_lit(lit, rank)})"
            if text is not None:
                body += f" (text {quote(text)})"
            if rng.random() < 0.12:
                ln = rng.choice([sz, sz, sz, max(0, sz - 1), sz + 1, sz // 2, 0, sz + 7])
                body += ' (dbits "' + "".join(rng.choice("01") for _ in range(ln)) + '")'
            add(f"t{ti}v{vi}", body + rev, kind, mut=mut, text_mut=text_mut, shape=shape)
    return jobs, meta, dist, shapes


def check_accept_sound(ck, job, r, m, rf, mf, mut, where):
    """the property on the real code's results: an accepted literal encodes without a panic,
    to size(T) bits, to the bits of the value it denotes; decoding and the identity program
    give that value back.  Returns True when everything holds."""
    key = None
    if mut:
        for part in mut.split("+"):
            key = key or MUT_KEY.get(part)
    replay = {"job": job, "rust": r, "model": m, "where": where}
    bits = fld(rf, "bits")
    if bits == "crash":
        ck.violation("an accepted literal makes as_bits panic", replay, key=key)
        return False
    if not isinstance(bits, tuple):
        ck.violation("an accepted literal has no encoding", replay, key=key)
        return False
    mlf = sx_field(mf, "ml") or []
    size = fld(mlf, "size")
    den, hast, vbits = fld(mlf, "denote"), fld(mlf, "hastype"), fld(mlf, "vbits")
    if size is not None and len(bits[1]) != int(size):
        ck.violation(f"an accepted literal encodes to {len(bits[1])} bits, the parameter has {size}", replay, key=key)
        return False
    if den == "none" or den is None:
        ck.violation("an accepted literal denotes no value (out-of-range number, duplicated field, bad range)",
                     replay, key=key)
        return False
    if hast != "true":
        ck.violation("an accepted literal denotes a value that is not of the parameter's type", replay, key=key)
        return False
    if vbits != bits:
        ck.violation("an accepted literal encodes to other bits than the value it denotes", replay, key=key)
        return False
    dec = fld(rf, "decode")
    if sx_dump(dec) != sx_dump(den):
        ck.violation("decoding the encoded bits does not give the denoted value back", replay, key=key)
        return False
    rsf = sx_field(rf, "rs") or []
    ident = fld(rsf, "ident")
    if ident is not None and sx_dump(ident) != sx_dump(den):
        ck.violation("the identity program does not return the value it was given", replay)
        return False
    ev = fld(rsf, "ev")
    if ev is not None and sx_dump(ev) != sx_dump(den):
        ck.violation("Evaluator::set_literal + run + into_literal disagrees with literal_arg/as_bits/parse_output",
                     replay)
        return False
    return True


def has_empty_array(x):
    if isinstance(x, list):
        if x == ["arr"]:
            return True
        return any(has_empty_array(y) for y in x)
    return False


def signed_leaves(x, path=()):
    """signed numbers reachable through tuples/arrays only (struct fields and enum payloads are
    checked against their declared types by the checker), with their positions"""
    out = []
    if isinstance(x, list) and x:
        if x[0] == "s":
            out.append((path, int(x[1])))
        elif x[0] in ("tup", "arr"):
            for i, y in enumerate(x[1:]):
                out += signed_leaves(y, path + (i,))
        elif x[0] == "rep":
            out += signed_leaves(x[1], path + (0,))
    return out


def mixed_sign_in_array(x):
    """an array literal whose elements are tuples/arrays, where some position holds a
    non-negative number in the first element and a negative one in a later element: the
    checker infers 'unsigned' from the first element (known finding c09-nested-signed-text)"""
    if not isinstance(x, list) or not x:
        return False
    if x[0] == "arr" and len(x) > 2 and isinstance(x[1], list) and x[1] and x[1][0] in ("tup", "arr", "rep"):
        first = dict(signed_leaves(x[1]))
        for y in x[2:]:
            for pth, n in signed_leaves(y):
                if n < 0 and first.get(pth, -1) >= 0:
                    return True
    return any(mixed_sign_in_array(y) for y in (x if isinstance(x[0], list) else x[1:]))


def text_key(lit):
    if has_empty_array(lit):
        return "c09-empty-array-text"
    if mixed_sign_in_array(lit):
        return "c09-nested-signed-text"
    return None


# hand-written scenarios around consts, shorthand fields and recovered parse errors (litapi jobs): (name, program,
# external constants, [(argument index, text)], expected answer).  Each was a panic / a hang / a silently
# different value of the tree as found (known_findings.json: c09-*-r4); expectations written from the guide.
API_SCENARIOS = [
    ("own-usize-const-param", "const N: usize = 3usize; pub fn main(x: [u8; N], d: bool) -> [u8; N] { x }", [],
     [(0, "[1, 2, 3]"), (1, "true")], '(ok "[1, 2, 3]" 24) (ok "true" 1) (out "[1, 2, 3]")'),
    ("own-usize-const-result", "const N: usize = 2usize; pub fn main(x: u8) -> [u8; N] { [x; N] }", [],
     [(0, "7")], '(ok "7" 8) (out "[7, 7]")'),
    ("ext-usize-const-param", "const N: usize = PARTY_0::N; pub fn main(x: [u8; N], d: bool) -> [u8; N] { x }",
     [("PARTY_0", "N", "usize", 2)], [(0, "[4, 5]"), (1, "false")], '(ok "[4, 5]" 16) (ok "false" 1) (out "[4, 5]")'),
    ("shorthand-field-names-a-const", "const N: usize = 3usize; const B: bool = true; struct S { N: usize, B: bool } "
     "pub fn main(x: S, d: bool) -> S { x }", [], [(0, "S {N, B}")], "(err)"),
    ("shorthand-field-names-a-const-2", "const N: usize = 3usize; const B: bool = true; struct S { N: usize, B: bool } "
     "pub fn main(x: S, d: bool) -> S { x }", [], [(0, "S {N: 1, B}")], "(err)"),
    ("shorthand-field-no-const", "struct S { a: u8, b: bool } pub fn main(x: S, d: bool) -> S { x }", [],
     [(0, "S {a, b}")], "(err)"),
    ("repeat-size-names-a-const", "const N: usize = PARTY_0::N; pub fn main(t: [u8; N], d: bool) -> [u8; N] { t }",
     [("PARTY_0", "N", "usize", 2)], [(0, "[1; N]")], "(err)"),
    ("repeat-size-names-a-const-in-struct", "const N: usize = PARTY_0::N; struct S { a: [u8; N], c: bool } "
     "pub fn main(s: S, t: [u8; N]) -> bool { s.c }", [("PARTY_0", "N", "usize", 2)],
     [(0, "S {a: [1; N], c: true}")], "(err)"),
    ("range-suffixes-disagree", "pub fn main(x: [u8; 3], d: bool) -> [u8; 3] { x }", [], [(0, "0u8..3u16")], "(err)"),
    ("range-suffixes-agree", "pub fn main(x: [u8; 3], d: bool) -> [u8; 3] { x }", [],
     [(0, "0u8..3u8"), (1, "true")], '(ok "0u8..3u8" 24) (ok "true" 1) (out "[0, 1, 2]")'),
    ("huge-repeat-of-unit", "pub fn main(x: [(); 18446744073709551615], d: bool) -> bool { d }", [],
     [(0, "[(); 18446744073709551615]"), (1, "true")], '(ok "[(); 18446744073709551615]" 0) (ok "true" 1) (out "true")'),
    ("repeat-of-bytes", "pub fn main(x: [u8; 3], d: bool) -> [u8; 3] { x }", [],
     [(0, "[5; 3]"), (1, "true")], '(ok "[5; 3]" 24) (ok "true" 1) (out "[5, 5, 5]")'),
]


def ty_src(T):
    k = T[0]
    if k == "bool":
        return "bool"
    if k in ("u", "s"):
        return T[1]
    if k == "arr":
        return f"[{ty_src(T[1])}; {T[2]}]"
    if k == "tup":
        return "(" + ", ".join(ty_src(t) for t in T[1]) + ("," if len(T[1]) == 1 else "") + ")"
    return T[1]


def defs_src(defs):
    out = []
    for d in defs:
        if d[0] == "struct":
            out.append(f"struct {d[1]} {{ " + ", ".join(f"{f}: {ty_src(t)}" for f, t in d[2]) + " }")
        else:
            out.append(f"enum {d[1]} {{ " + ", ".join(v if p is None else f"{v}(" + ", ".join(ty_src(t) for t in p) + ")"
                                                      for v, p in d[2]) + " }")
    return "\n".join(out)


IDENT = re.compile(r"[A-Za-z_][A-Za-z_0-9]*")


def parg_tie_pass(ck, quick):
    """the model of lib.rs parse_arg / literal.rs Literal::parse (Check/LitParse.v: model scanner -> literal mode of the
    model parser -> model checker -> check_type -> into_literal -> is_of_type re-test, on the model parser's program)
    against prg.parse_arg(i, text): same literal, or both refuse"""
    rng = ck.rng
    progs = []      # (src, [(idx, text)])
    for name, src, exts, args, _ in API_SCENARIOS:
        if not exts:
            progs.append((src, list(args)))
    for ti in range(60 if quick else 1500):
        tg = G.TypeGen(rng)
        T = tg.ty(rng.choice([1, 2, 2, 3]))
        try:
            if G.size(T, tg.by_name) > 2000:
                continue
        except ValueError:
            continue
        src = defs_src(tg.defs) + f"\npub fn main(x: {ty_src(T)}, d: bool) -> bool {{ d }}"
        args = []
        for _ in range(10):
            lit = G.value(rng, T, tg.by_name, spell=rng.random() < 0.4)
            r = rng.random()
            if r < 0.35:
                text = G.show(lit, typed=rng.random() < 0.3)
            elif r < 0.55:
                lit2, _m = G.mutate(rng, lit, T, tg)
                text = G.show(lit2, typed=rng.random() < 0.3)
            else:
                text, _m = G.perturb_text(rng, G.show(lit, typed=rng.random() < 0.3))
            args.append((0, text))
        args += [(1, "true"), (1, "1"), (0, ""), (2, "true")]
        progs.append((src, args))
    jobs = []
    for i, (src, args) in enumerate(progs):
        names = sorted(set(IDENT.findall(src + " " + " ".join(t for _, t in args))), key=lambda x: x.encode())
        jobs.append(f"(parg q{i} (src {quote(src)}) (names " + " ".join(quote(n) for n in names) + ") "
                    + " ".join(f"(arg {k} {quote(t)})" for k, t in args) + ")")
    rs = run_jobs(GVRUN, jobs, "c09.parg.rs", timeout_per_job=3.0)
    ml = run_jobs(MODELRUN, jobs, "c09.parg.ml", timeout_per_job=5.0)
    cnt, bad = {}, 0
    for i, (src, args) in enumerate(progs):
        r, m = rs.get(f"q{i}", "(no-result)").strip(), ml.get(f"q{i}", "(no-result)").strip()
        if r.startswith("(compile") or m.startswith("(program-") or m == "(no-result)" or r == "(no-result)":
            cnt["program skipped"] = cnt.get("program skipped", 0) + 1
            continue
        try:
            rr, mm = sx_parse(r), sx_parse(m)
        except Exception:
            cnt["unparsable"] = cnt.get("unparsable", 0) + 1
            continue
        for (idx, text), a, b in zip(args, rr, mm):
            sa, sb = sx_dump(a), sx_dump(b)
            if sb in ("(outside)", "(nofuel)"):
                kind = "outside-model"
            elif sa == sb:
                kind = "same literal" if sa.startswith("(ok") else "both refuse"
            else:
                kind = "differ"
                bad += 1
                if bad <= 3:
                    ck.violation("the model of parse_arg (Check/LitParse.v) and the real parse_arg disagree on this argument text",
                                 {"program": src, "parameter": idx, "text": text, "rust": sa[:300], "model": sb[:300],
                                  "correspondence": "Check/LitParse.v literal_parse_program vs GarbleProgram::parse_arg"},
                                 found_input=False)
            cnt[kind] = cnt.get(kind, 0) + 1
    ck.obligation("correspondence Check/LitParse.v = lib.rs parse_arg / literal.rs Literal::parse: the model (scanner, literal mode of "
                  "the parser, checker, check_type, into_literal, is_of_type) returns the same literal as the real API for every "
                  "generated, mutated and damaged argument text, or both refuse", bad == 0, f"{bad} differ; {cnt}")
    ck.obligation("parse_arg tie: at least 150 texts are accepted with the same literal and 150 refused by both",
                  cnt.get("same literal", 0) >= 150 and cnt.get("both refuse", 0) >= 150, str(cnt))
    ck.coverage["parse_arg_model_tie"] = {"programs": len(progs), "by_kind": cnt}


def number_text_scenarios():
    """unsuffixed and suffixed number texts at and beyond the boundaries of every integer type (and of u64 / i64, where
    the scanner's own limits are), at top level and nested: accepted iff the number is a value of the type, and then
    it denotes exactly that number"""
    out = []
    types = {"u8": (0, 2**8 - 1), "u16": (0, 2**16 - 1), "u32": (0, 2**32 - 1), "u64": (0, 2**64 - 1), "usize": (0, 2**32 - 1),
             "i8": (-2**7, 2**7 - 1), "i16": (-2**15, 2**15 - 1), "i32": (-2**31, 2**31 - 1), "i64": (-2**63, 2**63 - 1)}
    for t, (lo, hi) in types.items():
        bits = {"u8": 8, "u16": 16, "u32": 32, "u64": 64, "usize": 32, "i8": 8, "i16": 16, "i32": 32, "i64": 64}[t]
        cands = sorted({lo - 1, lo, lo + 1, -1, 0, 1, hi - 1, hi, hi + 1, 2**63 - 1, 2**63, 2**63 + 1, 2**64 - 1, -2**63, -2**63 - 1})
        for n in cands:
            for text in (str(n), f"{n}{t}"):
                ok = lo <= n <= hi
                want = f'(ok "{n}" {bits}) (ok "true" 1) (out "{n}")' if ok else "(err)"
                out.append((f"num-{t}-{text}", f"pub fn main(x: {t}, d: bool) -> {t} {{ x }}", [],
                            [(0, text), (1, "true")] if ok else [(0, text)], want))
            ok = lo <= n <= hi
            want = f'(ok "(true, [1, {n}])" {1 + 2 * bits}) (ok "true" 1) (out "(true, [1, {n}])")' if ok else "(err)"
            out.append((f"num-nested-{t}-{n}", f"pub fn main(x: (bool, [{t}; 2]), d: bool) -> (bool, [{t}; 2]) {{ x }}", [],
                        [(0, f"(true, [1, {n}])"), (1, "true")] if ok else [(0, f"(true, [1, {n}])")], want))
    return out


def api_scenarios(ck):
    jobs = []
    global API_SCENARIOS
    if not any(x[0].startswith("num-") for x in API_SCENARIOS):
        API_SCENARIOS = API_SCENARIOS + number_text_scenarios()
    for name, src, exts, args, _ in API_SCENARIOS:
        jobs.append("(litapi %s (src %s) %s %s)" % (
            name, quote(src), " ".join('(ext %s %s %s %d)' % (quote(p), quote(n), t, v) for p, n, t, v in exts),
            " ".join("(arg %d %s)" % (i, quote(t)) for i, t in args)))
    rs = run_jobs(GVRUN, jobs, "c09.api", timeout_per_job=5.0)
    bad = 0
    for (name, src, exts, args, want), job in zip(API_SCENARIOS, jobs):
        got = rs.get(name, "(no-result)")
        if got.strip() != want:
            bad += 1
            ck.violation(f"literal API scenario {name}: expected {want}, the implementation answers {got}",
                         {"job": job, "expected": want, "rust": got, "kind": "litapi"}, key=None)
    ck.obligation("literal API scenarios (consts in sizes, shorthand fields, recovered parse errors, zero-sized "
                  "repeats): parse_arg / as_bits / eval / parse_output give the hand-written answers", bad == 0,
                  f"{bad} of {len(API_SCENARIOS)} differ")
    return len(API_SCENARIOS)


def run(ck):
    quick = ck.tier == "quick"
    ck.prepare("C09")
    n_types, per_type = (1500, 12) if quick else (12000, 14)
    jobs, meta, dist, shapes = gen_jobs(ck, n_types, per_type)
    by_id = {job_id(j): j for j in jobs}
    if not (ck.harness_ok and ck.model_ok):
        return ck.finish(trusted=COMMON_TRUSTED)
    rs, ml = run_both(jobs, "c09", timeout_per_job=1.0)

    mism = 0
    verdicts = {}
    stats = {"accepted": 0, "refused": 0, "compile_error": 0, "values": 0, "values_roundtrip_text": 0,
             "text_jobs": 0, "text_accepted": 0, "text_refused": 0, "decode2": 0, "wf_false": 0,
             "accepted_noncanonical": 0,
             "noncanonical_text_roundtrip": 0, "noncanonical_text_no_roundtrip": 0}
    round2 = []   # (id, job text, expected bits, origin)
    r2meta = {}

    def first_pass(jid, job, r, m, mt):
        nonlocal mism
        if r.startswith("(harness-crash"):
            # the job cannot be built as a Rust value (a generator mistake, e.g. a number beyond u64): counted,
            # never a verdict about the code
            stats["unrepresentable_jobs"] = stats.get("unrepresentable_jobs", 0) + 1
            return
        rf, mf = parse_payload(r), parse_payload(m)
        if tied(rf) != tied(mf):
            mism += 1
            if mism <= 3:
                ck.violation("model and implementation disagree (type test verdict / bits / decoded literal)",
                             {"job": job, "rust": r, "model": m, "correspondence": "literal jobs"},
                             found_input=False)
        if r.startswith("(compile"):
            stats["compile_error"] += 1
            return
        mlf = sx_field(mf, "ml") or []
        if fld(mlf, "wf") != "true":
            stats["wf_false"] += 1
        acc = fld(rf, "accept")
        verdicts[str(acc)] = verdicts.get(str(acc), 0) + 1
        rsf = sx_field(rf, "rs") or []
        replay = {"job": job, "rust": r, "model": m}
        if acc == "crash":
            key = None
            for part in (mt.get("mut") or "").split("+"):
                key = key or MUT_KEY.get(part)
            ck.violation("the type test (literal_arg / is_of_type) panics", replay, key=key)
        elif acc == "true":
            stats["accepted"] += 1
            ok = check_accept_sound(ck, job, r, m, rf, mf, mt.get("mut"), "literal_arg")
            if fld(mlf, "selfcanon") != "true":
                stats["accepted_noncanonical"] += 1
            # print / parse: the printed text parses back to the same literal, with the same bits
            lit_s = sx_dump(fld(sx_parse(job)[0], "lit"))
            pr = fld(rsf, "parse")
            txt = fld(rsf, "text")
            # (the property speaks of values: ArrayRepeat / Range spellings are only counted;
            #  e.g. `253u8..256u8` does not scan because 256u8 is not a u8 token)
            canon = fld(mlf, "selfcanon") == "true"
            if ok and not canon:
                good = isinstance(pr, list) and pr and pr[0] == "ok" and sx_dump(pr[1]) == lit_s
                stats["noncanonical_text_roundtrip" if good else "noncanonical_text_no_roundtrip"] += 1
            if ok and canon:
                if mt["kind"] in ("value", "corpus-value"):
                    stats["values"] += 1
                good = isinstance(pr, list) and pr and pr[0] == "ok" and sx_dump(pr[1]) == lit_s \
                    and pr[2] == fld(rf, "bits")
                if good:
                    if mt["kind"] in ("value", "corpus-value"):
                        stats["values_roundtrip_text"] += 1
                else:
                    key = text_key(fld(sx_parse(job)[0], "lit"))
                    if key:
                        pass
                    elif "(tup)" in lit_s and lit_s != "(tup)":
                        key = "c09-unit-tuple-text"
                    elif isinstance(txt, tuple) and "(" in txt[1] and pr == ["err"] and "(tup (" in lit_s or \
                            (isinstance(txt, tuple) and txt[1].endswith(")") and "(tup " in lit_s and pr == ["err"]):
                        key = "c09-one-tuple-text"
                    what = "printing an accepted literal and parsing it back as the parameter's type " + \
                           ("panics" if pr == "crash" else "fails" if pr == ["err"] else "yields another literal")
                    ck.violation(what, replay, key=key)
                evp = fld(rsf, "evp")
                den = fld(mlf, "denote")
                if good and evp is not None and sx_dump(evp) != sx_dump(den):
                    ck.violation("Evaluator::parse_literal on the printed text does not produce the value", replay)
        elif acc == "false":
            stats["refused"] += 1
            if fld(rsf, "ev") not in ("refused",):
                ck.violation("literal_arg refuses the literal but Evaluator::set_literal does not", replay)
            if mt["kind"] in ("value", "corpus-value", "spelling", "corpus-spelling"):
                ck.violation("a value of the parameter's type (or a valid spelling of one) is refused", replay)
        else:
            ck.violation("literal_arg returns an unexpected error", replay)
        if sx_field(rf, "decode2") is not None:
            stats["decode2"] += 1
        # parse of a given text
        pt = fld(rsf, "ptext")
        if pt is not None:
            stats["text_jobs"] += 1
            if pt == "crash":
                ck.violation("parsing a literal text panics instead of returning an error", replay,
                             key="c09-parse-panics")
            elif isinstance(pt, list) and pt and pt[0] == "ok":
                stats["text_accepted"] += 1
                if mt.get("text_mut") == "trailing":
                    ck.violation("a text with tokens after the literal is accepted as that literal", replay,
                                 key="c09-trailing-tokens")
            else:
                stats["text_refused"] += 1
                if mt.get("text_mut") in ("valid-typed", "valid-permuted") and acc == "true" \
                        and fld(mlf, "selfcanon") == "true":
                    ck.violation("a valid text of an accepted literal is refused", replay,
                                 key=text_key(fld(sx_parse(job)[0], "lit")))
        # second round: whatever parsing accepted must be a literal the type test accepts, with the
        # same bits, denoting a value of the type
        for tag, p in (("p", fld(rsf, "parse")), ("q", pt)):
            if isinstance(p, list) and p and p[0] == "ok":
                lit2 = sx_dump(p[1])
                if "?" in lit2:
                    ck.violation("parsing produced a literal with a name the program does not define", replay)
                    continue
                j = sx_parse(job)[0]
                body = " ".join(sx_dump(f) for f in j[2:] if isinstance(f, list) and f[0] in ("names", "defs", "ty", "revsrc"))
                rid = f"{jid}{tag}"
                round2.append(f"(literal {rid} {body} (lit {lit2}))")
                key = None
                if tag == "q" and mt.get("text_mut") in ("untyped-range", "duplicate", "big-number", "drop-suffix"):
                    key = "c09-parse-accepts-unencodable"
                r2meta[rid] = {"bits": p[2], "origin": job, "origin_rust": r, "key": key}

    for jid, job in by_id.items():
        first_pass(jid, job, rs.get(jid, "(no-result)"), ml.get(jid, "(no-result)"), meta[jid])

    # ---- round 2
    r2_checked = 0
    if round2:
        rs2, ml2 = run_both(round2, "c09b", timeout_per_job=1.0)
        for job in round2:
            jid = job_id(job)
            r, m = rs2.get(jid, "(no-result)"), ml2.get(jid, "(no-result)")
            rf, mf = parse_payload(r), parse_payload(m)
            info = r2meta[jid]
            replay = {"job": job, "rust": r, "model": m, "parsed_from": info["origin"],
                      "parse_result": info["origin_rust"]}
            if tied(rf) != tied(mf):
                mism += 1
                if mism <= 3:
                    ck.violation("model and implementation disagree on a parsed literal",
                                 {**replay, "correspondence": "literal jobs (round 2)"}, found_input=False)
            acc = fld(rf, "accept")
            if acc != "true":
                ck.violation("parse_arg accepts a text whose literal the type test refuses "
                             "(e.g. an untyped range encoded with 32-bit elements, a field named twice)",
                             replay, key=info["key"] or "c09-parse-accepts-unencodable")
                continue
            if fld(rf, "bits") != info["bits"]:
                ck.violation("the bits of a parsed argument differ from the bits of the same literal given "
                             "programmatically", replay)
                continue
            check_accept_sound(ck, job, r, m, rf, mf, None, "parse_arg")
            r2_checked += 1

    n_api = api_scenarios(ck)
    if ck.harness_ok and ck.model_ok:
        parg_tie_pass(ck, quick)
    total = len(jobs) + len(round2) + n_api
    ck.obligation("correspondence: literal_arg/is_of_type, as_bits, from_unwrapped_bits equal the model on every "
                  "generated (definitions, type, literal) and on every literal that parsing produced",
                  mism == 0, f"{mism} differing jobs")
    ck.obligation("hypothesis wf(E,T) of the theorems holds on every compiled instance "
                  "(struct fields sorted without duplicates, enum types closed)", stats["wf_false"] == 0,
                  f"{stats['wf_false']} instances")
    frac_err = stats["compile_error"] / max(1, len(jobs))
    ck.obligation("generator sanity: the implementation compiles (almost) every generated type", frac_err < 0.02,
                  f"{stats['compile_error']} of {len(jobs)} programs rejected")
    distinct = len(set(j.split(" ", 2)[2] for j in jobs + round2 if "(lit true)" not in j and "(lit false)" not in j))
    ck.coverage.update({
        "evaluations": total, "distinct_nontrivial": distinct,
        "rule": "random type shapes (nested arrays 0..5 / tuples 0..4 / structs 0..4 fields / enums 1..5 variants with "
                "unit and tuple variants, over bool and all integer types incl. usize; zero-sized types) x per type: "
                "canonical values with boundary integers, alternative spellings (ArrayRepeat, typed Range), one or "
                "two adversarial mutations of a literal node, literal texts (printed, typed, permuted fields, "
                "token-level perturbations), 12% with arbitrary bits to decode; round 2 = every literal that "
                "parse_arg produced, fed back as a programmatic literal; non-trivial = not a bare bool; distinct by "
                "job payload",
        "traces_validated_against_impl": total - mism,
        "input_distribution": dist, "type_shapes_top_level": shapes, "rust_verdicts": verdicts,
        "oracle": {**stats, "round2_parsed_literals": len(round2), "round2_sound": r2_checked},
    })
    ck.samples = [jobs[0], jobs[len(CORPUS) + 3], jobs[len(jobs) // 2], jobs[-1]] + round2[:1]
    return ck.finish(trusted=COMMON_TRUSTED + [
        "modelled: literal.rs is_of_type / as_bits / from_unwrapped_bits, compile.rs size_in_bits_for_defs / "
        "enum_tag_size / enum_max_size / enum_tag_number / unsigned_to_bits / signed_to_bits; struct/enum lookups "
        "are resolved once in dependency order (recursive type definitions are outside the model); usize "
        "arithmetic is unbounded N",
        "not modelled (oracle only): Literal::parse (scanner + expression parser + type checker), Display, the "
        "compiler on the identity program, EvalPanic::parse"],
        extra_assumptions=["types of compiled programs without consts; decode of arbitrary (not encoder-produced) "
                           "bits may panic (DESIGN.md §6, not a finding) and is only compared with the model"])


class _ReplayCk:
    """collects what the oracle says about one replayed job"""
    def __init__(self):
        self.found = []

    def violation(self, what, replay, key=None, found_input=True):
        self.found.append((what, key))


def replay(path):
    """./check C09 --replay file: re-runs the job of a replay file on the current /repo and on the
    model, prints both results and whether the property holds on it (exit 1 if it does not)."""
    d = json.load(open(path))
    job = d["replay"]["job"]
    with BuildLock():
        ok1, _ = build_coq()
        ok2, _ = build_ocaml()
        ok3, _ = build_harness()
    if not (ok1 and ok2 and ok3):
        print("build failed"); return 2
    rs, ml = run_both([job], "c09r")
    jid = job_id(job)
    r, m = rs.get(jid, "(no-result)"), ml.get(jid, "(no-result)")
    print("job  :", job); print("rust :", r); print("model:", m)
    rf, mf = parse_payload(r), parse_payload(m)
    rk = _ReplayCk()
    if tied(rf) != tied(mf):
        rk.found.append(("model and implementation disagree", None))
    acc = fld(rf, "accept")
    if acc == "crash":
        rk.found.append(("the type test panics", None))
    elif acc == "true":
        check_accept_sound(rk, job, r, m, rf, mf, None, "replay")
        rsf = sx_field(rf, "rs") or []
        mlf = sx_field(mf, "ml") or []
        pr = fld(rsf, "parse")
        lit = fld(sx_parse(job)[0], "lit")
        if fld(mlf, "selfcanon") == "true" and not (isinstance(pr, list) and pr and pr[0] == "ok"
                                                     and sx_dump(pr[1]) == sx_dump(lit)):
            rk.found.append(("print/parse does not round-trip", text_key(lit)))
    rsf = sx_field(rf, "rs") or []
    pt = fld(rsf, "ptext")
    if pt == "crash":
        rk.found.append(("parsing the text panics", "c09-parse-panics"))
    for what, key in rk.found:
        print("FAILS:", what, f"(known-finding key {key})" if key else "")
    if not rk.found:
        print("the property holds on this job (accepted-text jobs need the full check: round 2)")
    return 1 if rk.found else 0
