"""C04 — circuit optimisations never change the computed function (builder level).
Also provides the shared job runner used by C15."""
import re
from vlib import *
import gen_builder as GB

PANIC_OK = [0] + [0] * 31 + [1] + [0] * 128   # values of PanicResult::ok() (type = 1)


def make_jobs(ck, quick):
    rng = ck.rng
    jobs, meta = [], {}
    dist = {"exhaustive_len2": 0, "exhaustive_len3": 0, "random": 0, "corpus": 0}
    corpus = [
        (True, 3, [("and", [2, 3]), ("and", [2, 4]), ("xor", ["h0", "h1"]), ("xor", [3, 4]), ("and", [2, "h3"]), ("xor", ["h0", "h1"])]),
        (False, 3, [("xor", [2, 3]), ("xor", [3, 2]), ("and", [2, 3]), ("and", [3, 2]), ("xor", ["h2", "h3"]), ("xor", ["h0", "h1"]), ("and", ["h0", 2]), ("not", [2]), ("and", ["h7", 2])]),
        (True, 2, [("not", [2]), ("xor", ["h0", 3]), ("xor", ["h1", 2]), ("and", ["h0", 2]), ("xor", [1, "h1"])]),
        (True, 3, [("xor", [2, 3]), ("xor", [2, 4]), ("xor", ["h0", "h1"]), ("not", ["h0"]), ("xor", ["h3", "h1"]), ("and", ["h3", "h0"])]),
    ]
    k = 0
    for dedup, n, reqs in corpus:
        nh = sum(GB.NRES.get(r[0], 1) for r in reqs)
        outs = ["h%d" % i for i in range(nh)]
        jid = f"k{k}"; k += 1
        jobs.append(GB.fmt_job(jid, dedup, [n], reqs, outs)); meta[jid] = (n, reqs, outs, dedup)
        dist["corpus"] += 1
    # exhaustive: all sequences of 2 (quick) / 3 (thorough) xor/and requests over 2 inputs
    for L in ([2] if quick else [2, 3]):
        for reqs in GB.exhaustive(2, L):
            if L == 3 and quick:
                break
            for dedup in (True, False):
                jid = f"e{k}"; k += 1
                outs = ["h%d" % i for i in range(L)]
                jobs.append(GB.fmt_job(jid, dedup, [1, 1], reqs, outs)); meta[jid] = (2, list(reqs), outs, dedup)
                dist["exhaustive_len%d" % L] += 1
    n_rand = 2500 if quick else 150000
    for i in range(n_rand):
        n = rng.choice([1, 2, 3, 3, 4, 5, 6])
        L = rng.choice([3, 6, 10, 20, 40]) if rng.random() < 0.9 else rng.randint(60, 150)
        reqs, nh = GB.random_seq(rng, n, L)
        nouts = rng.randint(1, min(nh, 8))
        pool = ["h%d" % j for j in range(nh)]
        outs = [rng.choice(pool) for _ in range(nouts)]
        if rng.random() < 0.2:
            outs.append(rng.choice([0, 1, 2]))
        if rng.random() < 0.5:
            outs = pool + outs          # every wire observed: nothing may be pruned away wrongly
        # split the inputs over 1..3 parties
        parts = []
        left = n
        while left > 0:
            p = rng.randint(1, left); parts.append(p); left -= p
        dedup = rng.random() < 0.7
        jid = f"r{i}"
        jobs.append(GB.fmt_job(jid, dedup, parts, reqs, outs)); meta[jid] = (n, reqs, outs, dedup)
        dist["random"] += 1
    return jobs, meta, dist


def circuit_of(res):
    t = sx_parse("(" + res + ")")[0]
    c = sx_field(t, "circuit")
    if c is None:
        return None, None, None
    ssa = c[1]
    tr = sx_field(t, "truth")
    wires = sx_field(t, "wires")
    return ssa, tr, wires


def check_function(ck, job, r, m, n, reqs, outs):
    """Truth table of the Rust-built circuit versus literal execution of the requests."""
    ssa, tr, _ = circuit_of(r)
    if tr is None or tr[1:] == ["crash"]:
        ck.violation("the built circuit cannot be evaluated (panic) or was not built",
                     {"job": job, "rust": r[:2000], "model": m[:2000]})
        return
    hs, val, size = GB.literal_eval(n, reqs)
    cols = [c[1] for c in tr[1:]]
    exp = [GB.table_to_string((1 << size) - 1 if v else 0, size) for v in PANIC_OK] + \
          [GB.table_to_string(val(o), size) for o in outs]
    if len(cols) != len(exp):
        ck.violation("wrong number of outputs", {"job": job, "rust": r[:2000]})
        return
    for j, (a, b) in enumerate(zip(cols, exp)):
        if a != b:
            kbad = next(i for i in range(size) if a[i] != b[i])
            ck.violation("the built circuit computes a different function than the literal requests",
                         {"job": job, "output_index": j, "assignment": format(kbad, "0%db" % n),
                          "circuit_bit": a[kbad], "literal_bit": b[kbad], "rust": r[:3000], "model": m[:3000]})
            return


def structural_props(ssa, dedup):
    """C15 structural clauses on a built circuit (final numbering). Returns list of defects."""
    ig = [int(x) for x in sx_field(ssa, "ig")[1:]]
    gates = sx_field(ssa, "gates")[1:]
    outs = [int(x) for x in sx_field(ssa, "outs")[1:]]
    n = sum(ig)
    used = set()
    stack = [o for o in outs]
    while stack:
        w = stack.pop()
        if w in used:
            continue
        used.add(w)
        if w >= n:
            g = gates[w - n]
            for x in g[1:]:
                stack.append(int(x))
    bad = []
    pairs = set()
    for i, g in enumerate(gates):
        w = n + i
        if i >= 2 and w not in used:
            bad.append(f"gate {w} {g} reaches no output")
        if g[0] == "a":
            x, y = int(g[1]), int(g[2])
            if x in (n, n + 1) or y in (n, n + 1):
                bad.append(f"AND gate {w} has a constant operand")
            if x == y:
                bad.append(f"AND gate {w} has the same wire twice")
            key = (min(x, y), max(x, y))
            if dedup and key in pairs:
                bad.append(f"two AND gates with operands {key}")
            pairs.add(key)
    return bad


def run_builder_jobs(ck, tag, quick):
    jobs, meta, dist = make_jobs(ck, quick)
    rs, ml = run_both(jobs, tag, timeout_per_job=0.5)
    return jobs, meta, dist, rs, ml


def run(ck):
    quick = ck.tier == "quick"
    ck.prepare("C04")
    if not (ck.harness_ok and ck.model_ok):
        return ck.finish(trusted=COMMON_TRUSTED)
    jobs, meta, dist, rs, ml = run_builder_jobs(ck, "c04", quick)
    mism = 0
    for j in jobs:
        jid = job_id(j)
        r, m = rs.get(jid, "(no-result)"), ml.get(jid, "(no-result)")
        n, reqs, outs, dedup = meta[jid]
        check_function(ck, j, r, m, n, reqs, outs)
        rcmp = re.sub(r"\s*\(truth .*\)$", "", r)
        if rcmp != m:
            mism += 1
            if mism <= 3:
                ck.violation("model and implementation disagree (returned wires / built circuit)",
                             {"job": j, "rust": rcmp[:3000], "model": m[:3000], "correspondence": "builder jobs"},
                             found_input=False)
    ck.obligation("correspondence: every wire returned by push_xor/and/not/or/eq/mux/adder and the circuit "
                  "returned by build equal the model's, for every generated request sequence", mism == 0,
                  f"{mism} differing jobs")
    # program level (C04_program_dedup_irrelevant is about Compile/Lower.v): tie the lowering model to compile.rs
    import lowertie, scenarios, progcheck
    psrc = scenarios.all_sources() + progcheck.generated_sources(ck, 60 if quick else 2000)
    lowertie.tie_pass(ck, psrc, max_programs=120 if quick else 2500)
    ck.coverage.update({
        "evaluations": len(jobs),
        "distinct_nontrivial": len(set(re.sub(r"^\(builder \S+ ", "", j) for j in jobs)),
        "rule": "request sequences against the real CircuitBuilder through the hook: a corpus, all sequences of "
                "2 (thorough: 3) xor/and requests over 2 inputs and both constants with dedup on and off, and "
                "random sequences (3..150 requests over 1..6 inputs; xor/and/not/or/eq/mux/adder; operands biased "
                "to recent handles and to the shapes that trigger rewrites); each built circuit's full truth table "
                "is compared with the literal execution of the requests; distinct by payload",
        "traces_validated_against_impl": len(jobs) - mism, "input_distribution": dist,
    })
    ck.samples = [jobs[0][:500], jobs[len(jobs) // 2][:500], jobs[-1][:500]]
    return ck.finish(trusted=COMMON_TRUSTED + [
        "modelled: circuit.rs CircuitBuilder::{new,push_gate,get_cached,optimize_xor,push_xor,optimize_and,"
        "push_and,push_not,push_or,push_eq,push_mux,push_adder,remove_unused_gates,build}; HashMaps as finite maps; "
        "the DFS of remove_unused_gates as one backward pass (equal because gates only reference earlier wires)"])
