"""Structural tie of coq/Compile/Lower.v to src/compile.rs: for each source program the real
compiler's SSA circuit (dedup on and off) must equal, gate for gate, the circuit the extracted
model of the lowering produces from the typed AST exported by the real checker."""
from vlib import *
import progcheck as PC


def run_tie(rng_tag, sources, timeout_per_job=4.0):
    """sources: list of (name, src). Returns list of records:
       {name, src, status: 'equal' | 'differs' | 'rejected' | 'crash' | 'export-failed' | 'model-failed',
        detail, cfgs: {dedup: (rust, model), nodedup: ...}}"""
    jobs = [f"(lower q{i} (src {quote(src)}))" for i, (_, src) in enumerate(sources)]
    rs = run_jobs(GVRUN, jobs, rng_tag + ".lrs", timeout_per_job=timeout_per_job)
    recs, mjobs = [], []
    for i, (name, src) in enumerate(sources):
        r = rs.get(f"q{i}", "(no-result)")
        rec = {"name": name, "src": src, "status": "rejected", "detail": r[:200]}
        if r.startswith("(compile ok)"):
            forms = PC.split_top(r)
            ast = PC.field(forms, "ast")
            if ast is None:
                rec["status"] = "export-failed"
            else:
                rec["status"] = "pending"
                rec["rust"] = {"dedup": PC.field(forms, "dedup"), "nodedup": PC.field(forms, "nodedup")}
                rec["ast"] = ast
                mjobs.append(f"(lowerm q{i} {ast})")
                mjobs.append(f"(frag f{i} {ast})")
                rec["mid"] = f"q{i}"
                rec["fid"] = f"f{i}"
        elif r.startswith("(compile crash") or "abort" in r or "timeout" in r or "no-result" in r:
            rec["status"] = "crash"
        recs.append(rec)
    ml = run_jobs(MODELRUN, mjobs, rng_tag + ".lml", timeout_per_job=timeout_per_job)
    for rec in recs:
        if rec["status"] != "pending":
            continue
        fr = ml.get(rec["fid"], "")
        rec["imp"] = "(imp 1)" in fr
        rec["safe"] = "(safe 1)" in fr
        rec["cov"] = "(cov 1)" in fr
        rec["total"] = "(total 1)" in fr
        rec["wtcov"] = "(wtcov 1)" in fr
        rec["e2e"] = "(e2e 1)" in fr
        rec["exh"] = "(exh 1)" in fr
        rec["joincov"] = "(joincov 1)" in fr
        rec["kfree"] = "ok" if "(kfree ok)" in fr else "crash" if "(kfree crash)" in fr else "other"
        rec["ands"] = {c: (rec["rust"][c] or "").count("(a ") for c in ("dedup", "nodedup")}
        m = ml.get(rec["mid"], "(no-result)")
        forms = PC.split_top(m)
        rec["model"] = {"dedup": PC.field(forms, "dedup"), "nodedup": PC.field(forms, "nodedup")}
        if rec["model"]["dedup"] is None or rec["model"]["nodedup"] is None:
            rec["status"] = "model-failed"
            rec["detail"] = m[:300]
            continue
        bad = [c for c in ("dedup", "nodedup") if rec["model"][c] != rec["rust"][c]]
        if not bad:
            rec["status"] = "equal"
            rec["gates"] = rec["rust"]["dedup"].count("(x ") + rec["rust"]["dedup"].count("(a ") + rec["rust"]["dedup"].count("(n ")
        else:
            rec["status"] = "differs"
            rec["detail"] = first_difference(rec["rust"][bad[0]], rec["model"][bad[0]], bad[0])
    return recs


def first_difference(r, m, cfg):
    if m is None or not m.startswith(f"({cfg} (ssa"):
        return f"{cfg}: model says {str(m)[:120]}"
    rt, mt = r.split(), m.split()
    for i, (a, b) in enumerate(zip(rt, mt)):
        if a != b:
            return f"{cfg}: token {i}: rust ...{' '.join(rt[max(0, i - 6):i + 4])}  model ...{' '.join(mt[max(0, i - 6):i + 4])}"
    return f"{cfg}: lengths differ: rust {len(rt)} tokens, model {len(mt)} tokens"


def tie_pass(ck, sources, max_programs=150, tag="tie"):
    """Runs the structural tie on (a bounded number of) the check's own programs and records the
    correspondence obligation, the coverage and one violation per differing program."""
    cand = [(n, s) for n, s in sources if len(s) < 4000 and "500" not in s and "1000" not in s]
    cand = cand[:max_programs]
    recs = run_tie(f"{ck.pid.lower()}.{tag}", cand, timeout_per_job=2.5)
    cnt = {}
    for r in recs:
        cnt[r["status"]] = cnt.get(r["status"], 0) + 1
    differs = [r for r in recs if r["status"] == "differs"]
    mfail = [r for r in recs if r["status"] == "model-failed"]
    hard = [r for r in mfail if "timeout" not in r["detail"] and "no-result" not in r["detail"]]
    tied = cnt.get("equal", 0)
    ck.obligation("correspondence Compile/Lower.v = src/compile.rs: the model's circuit equals the real compiler's SSA "
                  "circuit gate for gate, dedup on and off, on every tied program", not differs and not hard,
                  "; ".join((r["name"] + ": " + r["detail"][:160]) for r in (differs + hard)[:3]))
    ck.obligation("correspondence Compile/Lower.v = src/compile.rs: at least 85% of the compiled candidate programs are tied "
                  "(the rest: constructs the exporter does not cover, or the model ran out of its time budget)",
                  tied >= 0.85 * max(1, len(recs) - cnt.get("rejected", 0)), str(cnt))
    for r in (differs + hard)[:5]:
        ck.violation("the model of the lowering (Compile/Lower.v) and src/compile.rs emit different circuits for this program: "
                     "the theorems about the lowering no longer speak about the code",
                     {"program": r["src"], "first_difference": r["detail"], "correspondence": "Compile/Lower.v lower_program vs "
                      "garble_lang::compile (SSA circuit, structural equality)"}, found_input=False)
    # theorems that apply per program (executable membership tests, extracted): the imperative scalar fragment on
    # which TSem = Sem.v is proved, and the data-movement class whose circuits provably have zero AND gates
    imp = sum(1 for r in recs if r.get("imp"))
    kfree = [r for r in recs if r.get("kfree") == "ok"]
    bad_free = [r for r in kfree if r["status"] == "equal" and (r["ands"]["dedup"] or r["ands"]["nodedup"])]
    ck.obligation("FreeLower.data_movement_zero_and on the real compiler: every tied program whose constness run "
                  "(klower_main) succeeds compiles to zero AND gates, dedup on and off", not bad_free,
                  "; ".join(f"{r['name']}: {r['ands']}" for r in bad_free[:3]))
    for r in bad_free[:3]:
        ck.violation(f"a program in the proved data-movement class compiles to {r['ands']} AND gates",
                     {"program": r["src"], "theorem": "FreeLower.data_movement_zero_and"})
    ck.coverage["theorem_fragments"] = {
        "tied_programs": tied, "covered_program (TSem = Sem.v proved: full fragment or scalar fragment with calls)": sum(1 for r in recs if r.get("cov")),
        "wt_covered && sem_fuel_enough (covered; strict checker implies Wt.v; Sem.v provably neither stuck for a typing reason nor out of fuel)": sum(1 for r in recs if r.get("wtcov")),
        "end_to_end certified && within_gate_bound (EndToEnd.end_to_end: typed program -> evaluated circuit = Sem.v, only boolean premises)": sum(1 for r in recs if r.get("e2e")),
        "exh_fns (every match / let / for pattern list passes the real exhaustiveness algorithm: Sem.v never stuck on 'no arm matches', proved)": sum(1 for r in recs if r.get("exh")),
        "end_to_end EXACT: certified_exh && within_gate_bound (Final.end_to_end_exact: circuit output = value or panic of Sem.v, nothing else)": sum(1 for r in recs if r.get("e2e") and r.get("exh")),
        "join_covered (for-join program of the corpus shape: TSem = Sem.v proved under sorted keys)": sum(1 for r in recs if r.get("joincov")),
        "in_imperative_scalar_fragment (TSem = Sem.v proved)": imp,
        "in_data_movement_class (zero AND gates proved)": len(kfree),
        "safe_program_ok (TSem never crashes, declared output size: proved)": sum(1 for r in recs if r.get("safe")),
        "circuit theorem unconditional (safe_program_ok && params_ok && fuel_enough: TSem defined on every input, proved)": sum(1 for r in recs if r.get("total"))}
    ck.coverage["lowering_tie"] = {"candidates": len(recs), "by_status": cnt, "gates_tied": sum(r.get("gates", 0) for r in recs),
                                   "rule": "typed AST exported from the real checker -> extracted Lower.lower_program -> circuit "
                                           "compared for equality with the real compiler's Circuit{input_gates,gates,output_gates}"}
    return recs


if __name__ == "__main__":
    import glob, sys, collections
    srcs = []
    for f in sorted(glob.glob(os.path.join(VERIF, "corpus", "programs", "*.garble"))):
        s = open(f).read()
        if "pub fn main" in s:
            srcs.append((os.path.basename(f), s))
    if len(sys.argv) > 1:
        srcs = [x for x in srcs if any(a in x[0] for a in sys.argv[1:])]
    recs = run_tie("tie", srcs)
    cnt = collections.Counter(r["status"] for r in recs)
    print(cnt)
    for r in recs:
        if r["status"] not in ("equal", "rejected"):
            print(r["name"], r["status"], r["detail"][:400])
