"""Tie of the Gallina model of the type checker (coq/Check/Infer.v, reading the parser model's program) with the real
checker: for every program text, both accept and the model's typed AST equals the exported typed AST of the real checker
(metas aside), or both reject; COutside / CNoFuel are reported, never guessed."""
import re
from vlib import *
import progcheck as PC


def check_tie_pass(ck, sources, label, max_programs=None, violation_limit=3):
    srcs = list(sources)
    if max_programs is not None and len(srcs) > max_programs:
        srcs = srcs[:max_programs]
    jobs = [f"(tcheck t{i} (src {quote(s)}))" for i, (_, s) in enumerate(srcs)]
    rs = run_jobs(GVRUN, jobs, f"{label}.tcheck.rs", timeout_per_job=3.0)
    mjobs = []
    verdict = {}
    for i, (_, s) in enumerate(srcs):
        r = rs.get(f"t{i}", "(no-result)").strip()
        if r.startswith("(accept (names"):
            verdict[i] = "accept"
            mjobs.append(f"(tcheck t{i} (src {quote(s)}) (main \"main\") {r[len('(accept '):-1]})")
        elif r.startswith("(reject"):
            verdict[i] = r
            mjobs.append(f"(tcheck t{i} (src {quote(s)}) (main \"main\") (reject))")
        else:
            verdict[i] = "skip"
    ml = run_jobs(MODELRUN, mjobs, f"{label}.tcheck.ml", timeout_per_job=5.0)
    cnt, bad = {}, 0
    per_program = {}
    ck.checker_tie_verdicts = per_program
    for i, (name, s) in enumerate(srcs):
        per_program[name] = None
        if verdict[i] == "skip":
            cnt["real-checker-crash-or-export-failed"] = cnt.get("real-checker-crash-or-export-failed", 0) + 1
            continue
        m = ml.get(f"t{i}", "(no-result)").strip()
        if "(fe-total 1)" in m:
            k3 = "premise of C07_front_end_is_total_computable holds (no_oracle || ty_depth_bound <= 64)"
            cnt[k3] = cnt.get(k3, 0) + 1
        elif "(fe-total 0)" in m:
            k3 = "premise of C07_front_end_is_total_computable FAILS"
            cnt[k3] = cnt.get(k3, 0) + 1
        if m.startswith("(same)"):
            kind = "accepted: same typed program"
            if "(safe-fragment 1)" in m:
                k2 = "accepted and all premises of C05_accepted_programs_do_not_crash_the_compiler hold (in_sound_fragment, structs_sorted, sp_program, main_declared, tys_program)"
                cnt[k2] = cnt.get(k2, 0) + 1
            if "(sound-fragment 1)" in m:
                cnt["accepted and in the fragment where acceptance => Wt.v is proved (in_sound_fragment)"] = \
                    cnt.get("accepted and in the fragment where acceptance => Wt.v is proved (in_sound_fragment)", 0) + 1
        elif m.startswith("(same-reject"):
            kind = "rejected by both"
        elif m in ("(outside)", "(nofuel)"):
            kind = "outside-model" if m == "(outside)" else "model-out-of-fuel"
        elif m == "(no-result)" or m.startswith("(error") or m.startswith("(timeout"):
            kind = "model-job-failed"
        else:
            kind = "differ"
            bad += 1
            if bad <= violation_limit:
                ck.violation("the model of the type checker (Check/Infer.v) and src/check.rs disagree on this program: "
                             + {"(model-accepts)": "the model accepts, the real checker rejects",
                                "(parse-differs)": "the model parser refuses a text the real checker accepts"}.get(
                                    m, "the model rejects, the real checker accepts" if m.startswith("(model-rejects")
                                    else "both accept, the typed programs differ"),
                             {"program": s, "real_checker": verdict[i][:60], "model": m[:900],
                              "correspondence": "Check/Infer.v check_program (on Front/ParseExpr.v parse_program_text) vs garble_lang::check"},
                             found_input=False)
        cnt[kind] = cnt.get(kind, 0) + 1
        per_program[name] = kind
    compared = cnt.get("accepted: same typed program", 0) + cnt.get("rejected by both", 0)
    ck.obligation("correspondence Check/Infer.v = src/check.rs: the model of the type checker accepts exactly the programs the real "
                  "checker accepts and returns the same typed program (types of every node, resolved literal widths, variant "
                  "indices, accessor types), on every program text of this run inside the modelled fragment",
                  bad == 0, f"{bad} differ; {cnt}")
    ck.coverage["checker_model_tie"] = {"programs": len(srcs), "by_kind": cnt, "compared": compared}
    return cnt
