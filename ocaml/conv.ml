(* Conversions between OCaml natives and the extracted Coq binary numbers. *)
open BinNums

let rec pos_of_int (n : int) : positive =
  if n = 1 then Coq_xH
  else if n land 1 = 0 then Coq_xO (pos_of_int (n lsr 1))
  else Coq_xI (pos_of_int (n lsr 1))

let n_of_int (n : int) : coq_N = if n = 0 then N0 else Npos (pos_of_int n)

let rec int_of_pos (p : positive) : int =
  match p with
  | Coq_xH -> 1
  | Coq_xO q -> 2 * int_of_pos q
  | Coq_xI q -> 2 * int_of_pos q + 1

let int_of_n (n : coq_N) : int = match n with N0 -> 0 | Npos p -> int_of_pos p

let ten = n_of_int 10

(* decimal strings of any size *)
let n_of_string (s : string) : coq_N =
  if String.length s <= 18 then n_of_int (int_of_string s)
  else begin
    let acc = ref N0 in
    String.iter (fun c ->
        acc := BinNat.N.add (BinNat.N.mul !acc ten) (n_of_int (Char.code c - 48))) s;
    !acc
  end

let rec pos_bits (p : positive) : int =
  match p with Coq_xH -> 1 | Coq_xO q | Coq_xI q -> 1 + pos_bits q

let string_of_n (n : coq_N) : string =
  match n with
  | N0 -> "0"
  | Npos p when pos_bits p <= 62 -> string_of_int (int_of_pos p)
  | _ ->
    let digits = Buffer.create 24 in
    let rec go n acc =
      match n with
      | N0 -> acc
      | _ ->
        let (q, r) = BinNat.N.div_eucl n ten in
        go q (string_of_int (int_of_n r) :: acc) in
    Stdlib.List.iter (Buffer.add_string digits) (go n []);
    Buffer.contents digits

let z_of_string (s : string) : coq_Z =
  if String.length s > 0 && s.[0] = '-' then
    (match n_of_string (String.sub s 1 (String.length s - 1)) with
     | N0 -> Z0 | Npos p -> Zneg p)
  else (match n_of_string s with N0 -> Z0 | Npos p -> Zpos p)

let string_of_z (z : coq_Z) : string =
  match z with
  | Z0 -> "0"
  | Zpos p -> string_of_n (Npos p)
  | Zneg p -> "-" ^ string_of_n (Npos p)

let n_of_sx (x : Sx.t) : coq_N = n_of_string (Sx.atom x)
let ns_of_args (x : Sx.t) : coq_N list = Stdlib.List.map n_of_sx (Sx.args x)

let bits_of_string (s : string) : bool list =
  Stdlib.List.init (String.length s) (fun i -> s.[i] = '1')

let string_of_bits (l : bool list) : string =
  let b = Buffer.create 64 in
  Stdlib.List.iter (fun x -> Buffer.add_char b (if x then '1' else '0')) l;
  Buffer.contents b

let join (f : 'a -> string) (l : 'a list) : string = String.concat " " (Stdlib.List.map f l)

(* small unary numbers (bit widths of gadget requests) *)
let nat_of_int (n : int) : Datatypes.nat =
  let rec go k acc = if k <= 0 then acc else go (k - 1) (Datatypes.S acc) in
  go n Datatypes.O
