(* C07 jobs on source text, model side; output syntax identical to harness/src/front.rs. *)
open Conv

(* the UTF-8 bytes of the text as Coq numbers *)
let bytes_of_string (s : string) : BinNums.coq_N list =
  Stdlib.List.init (String.length s) (fun i -> n_of_int (Char.code s.[i]))

let string_of_bytes (l : BinNums.coq_N list) : string =
  let b = Buffer.create 16 in
  Stdlib.List.iter (fun c -> Buffer.add_char b (Char.chr (int_of_n c))) l;
  Buffer.contents b

let fmt_u (t : Scan.unsigned_num_type) : string =
  match t with
  | Scan.Usize -> "Usize" | Scan.U8 -> "U8" | Scan.U16 -> "U16" | Scan.U32 -> "U32"
  | Scan.U64 -> "U64" | Scan.UnspecifiedU -> "Unspecified"

let fmt_s (t : Scan.signed_num_type) : string =
  match t with
  | Scan.I8 -> "I8" | Scan.I16 -> "I16" | Scan.I32 -> "I32" | Scan.I64 -> "I64"
  | Scan.UnspecifiedS -> "Unspecified"

let fmt_kind (t : Scan.token_enum) : string =
  match t with
  | Scan.TIdentifier s -> Printf.sprintf "(Identifier %s)" (Sx.quote (string_of_bytes s))
  | Scan.TUnsignedNum (n, ty) -> Printf.sprintf "(UnsignedNum %s %s)" (string_of_n n) (fmt_u ty)
  | Scan.TSignedNum (z, ty) -> Printf.sprintf "(SignedNum %s %s)" (string_of_z z) (fmt_s ty)
  | Scan.TKeywordConst -> "KeywordConst"
  | Scan.TKeywordStruct -> "KeywordStruct"
  | Scan.TKeywordEnum -> "KeywordEnum"
  | Scan.TKeywordFn -> "KeywordFn"
  | Scan.TKeywordLet -> "KeywordLet"
  | Scan.TKeywordIf -> "KeywordIf"
  | Scan.TKeywordElse -> "KeywordElse"
  | Scan.TKeywordMatch -> "KeywordMatch"
  | Scan.TKeywordMut -> "KeywordMut"
  | Scan.TKeywordAs -> "KeywordAs"
  | Scan.TKeywordPub -> "KeywordPub"
  | Scan.TKeywordFor -> "KeywordFor"
  | Scan.TKeywordIn -> "KeywordIn"
  | Scan.TDot -> "Dot"
  | Scan.TDoubleDot -> "DoubleDot"
  | Scan.TDoubleDotEquals -> "DoubleDotEquals"
  | Scan.TComma -> "Comma"
  | Scan.TSemicolon -> "Semicolon"
  | Scan.TColon -> "Colon"
  | Scan.TDoubleColon -> "DoubleColon"
  | Scan.TArrow -> "Arrow"
  | Scan.TFatArrow -> "FatArrow"
  | Scan.TLeftParen -> "LeftParen"
  | Scan.TRightParen -> "RightParen"
  | Scan.TLeftBrace -> "LeftBrace"
  | Scan.TRightBrace -> "RightBrace"
  | Scan.TLeftBracket -> "LeftBracket"
  | Scan.TRightBracket -> "RightBracket"
  | Scan.TPlus -> "Plus"
  | Scan.TMinus -> "Minus"
  | Scan.TSlash -> "Slash"
  | Scan.TStar -> "Star"
  | Scan.TPercent -> "Percent"
  | Scan.TAmpersand -> "Ampersand"
  | Scan.TDoubleAmpersand -> "DoubleAmpersand"
  | Scan.TBar -> "Bar"
  | Scan.TDoubleBar -> "DoubleBar"
  | Scan.TCaret -> "Caret"
  | Scan.TBang -> "Bang"
  | Scan.TEq -> "Eq"
  | Scan.TDoubleEq -> "DoubleEq"
  | Scan.TBangEq -> "BangEq"
  | Scan.TGreaterThan -> "GreaterThan"
  | Scan.TLessThan -> "LessThan"
  | Scan.TGreaterThanEquals -> "GreaterThanEquals"
  | Scan.TLessThanEquals -> "LessThanEquals"
  | Scan.TDoubleGreaterThan -> "DoubleGreaterThan"
  | Scan.TDoubleLessThan -> "DoubleLessThan"
  | Scan.TAddAssign -> "AddAssign"
  | Scan.TSubAssign -> "SubAssign"
  | Scan.TMulAssign -> "MulAssign"
  | Scan.TDivAssign -> "DivAssign"
  | Scan.TRemAssign -> "RemAssign"
  | Scan.TBitXorAssign -> "BitXorAssign"
  | Scan.TBitAndAssign -> "BitAndAssign"
  | Scan.TBitOrAssign -> "BitOrAssign"
  | Scan.TShrAssign -> "ShrAssign"
  | Scan.TShlAssign -> "ShlAssign"

let fmt_meta (m : Scan.meta) : string =
  let (sl, sc) = m.Scan.m_start and (el, ec) = m.Scan.m_end in
  Printf.sprintf "%s %s %s %s" (string_of_n sl) (string_of_n sc) (string_of_n el) (string_of_n ec)

let fmt_err (e : Scan.scan_error_enum) : string =
  match e with
  | Scan.UnexpectedCharacter -> "UnexpectedCharacter"
  | Scan.InvalidUnsignedNum -> "InvalidUnsignedNum"
  | Scan.InvalidSignedNum -> "InvalidSignedNum"
  | Scan.UnterminatedBlockComment -> "UnterminatedBlockComment"

let fmt_scan (r : Scan.scan_out Util.res) : string =
  match r with
  | Util.Ok (Scan.STokens ts) ->
    Printf.sprintf "(ok %s)" (join (fun (Scan.Token (t, m)) -> Printf.sprintf "(%s %s)" (fmt_kind t) (fmt_meta m)) ts)
  | Util.Ok (Scan.SErrors es) ->
    Printf.sprintf "(err %s)" (join (fun (Scan.ScanError (e, m)) -> Printf.sprintf "(%s %s)" (fmt_err e) (fmt_meta m)) es)
  | Util.Crash -> "(crash)"
  | Util.OutOfFuel -> "(out-of-fuel)"

let job_scan (job : Sx.t) : string =
  let text = Sx.bytes (Stdlib.List.nth (Sx.list job) 2) in
  fmt_scan (Scan.scan_text (bytes_of_string text))

let job_pretty (job : Sx.t) : string =
  match Sx.list job with
  | _ :: _ :: text :: sl :: sc :: el :: ec :: _ ->
    let m = { Scan.m_start = (n_of_sx sl, n_of_sx sc); m_end = (n_of_sx el, n_of_sx ec) } in
    (match Prettify.prettify_meta (bytes_of_string (Sx.bytes text)) m with
     | Util.Ok bs -> Printf.sprintf "(ok %s)" (Sx.quote (string_of_bytes bs))
     | Util.Crash -> "(crash)"
     | Util.OutOfFuel -> "(out-of-fuel)")
  | _ -> failwith "bad pretty job"
