(* C07 jobs on source text, model side; output syntax identical to harness/src/front.rs. *)
open Conv

(* the UTF-8 bytes of the text as Coq numbers *)
let bytes_of_string (s : string) : BinNums.coq_N list =
  Stdlib.List.init (String.length s) (fun i -> n_of_int (Char.code s.[i]))

let string_of_bytes (l : BinNums.coq_N list) : string =
  let b = Buffer.create 16 in
  Stdlib.List.iter (fun c -> Buffer.add_char b (Char.chr (int_of_n c))) l;
  Buffer.contents b

let fmt_u (t : Scan.unsigned_num_type) : string =
  match t with
  | Scan.Usize -> "Usize" | Scan.U8 -> "U8" | Scan.U16 -> "U16" | Scan.U32 -> "U32"
  | Scan.U64 -> "U64" | Scan.UnspecifiedU -> "Unspecified"

let fmt_s (t : Scan.signed_num_type) : string =
  match t with
  | Scan.I8 -> "I8" | Scan.I16 -> "I16" | Scan.I32 -> "I32" | Scan.I64 -> "I64"
  | Scan.UnspecifiedS -> "Unspecified"

let fmt_kind (t : Scan.token_enum) : string =
  match t with
  | Scan.TIdentifier s -> Printf.sprintf "(Identifier %s)" (Sx.quote (string_of_bytes s))
  | Scan.TUnsignedNum (n, ty) -> Printf.sprintf "(UnsignedNum %s %s)" (string_of_n n) (fmt_u ty)
  | Scan.TSignedNum (z, ty) -> Printf.sprintf "(SignedNum %s %s)" (string_of_z z) (fmt_s ty)
  | Scan.TKeywordConst -> "KeywordConst"
  | Scan.TKeywordStruct -> "KeywordStruct"
  | Scan.TKeywordEnum -> "KeywordEnum"
  | Scan.TKeywordFn -> "KeywordFn"
  | Scan.TKeywordLet -> "KeywordLet"
  | Scan.TKeywordIf -> "KeywordIf"
  | Scan.TKeywordElse -> "KeywordElse"
  | Scan.TKeywordMatch -> "KeywordMatch"
  | Scan.TKeywordMut -> "KeywordMut"
  | Scan.TKeywordAs -> "KeywordAs"
  | Scan.TKeywordPub -> "KeywordPub"
  | Scan.TKeywordFor -> "KeywordFor"
  | Scan.TKeywordIn -> "KeywordIn"
  | Scan.TDot -> "Dot"
  | Scan.TDoubleDot -> "DoubleDot"
  | Scan.TDoubleDotEquals -> "DoubleDotEquals"
  | Scan.TComma -> "Comma"
  | Scan.TSemicolon -> "Semicolon"
  | Scan.TColon -> "Colon"
  | Scan.TDoubleColon -> "DoubleColon"
  | Scan.TArrow -> "Arrow"
  | Scan.TFatArrow -> "FatArrow"
  | Scan.TLeftParen -> "LeftParen"
  | Scan.TRightParen -> "RightParen"
  | Scan.TLeftBrace -> "LeftBrace"
  | Scan.TRightBrace -> "RightBrace"
  | Scan.TLeftBracket -> "LeftBracket"
  | Scan.TRightBracket -> "RightBracket"
  | Scan.TPlus -> "Plus"
  | Scan.TMinus -> "Minus"
  | Scan.TSlash -> "Slash"
  | Scan.TStar -> "Star"
  | Scan.TPercent -> "Percent"
  | Scan.TAmpersand -> "Ampersand"
  | Scan.TDoubleAmpersand -> "DoubleAmpersand"
  | Scan.TBar -> "Bar"
  | Scan.TDoubleBar -> "DoubleBar"
  | Scan.TCaret -> "Caret"
  | Scan.TBang -> "Bang"
  | Scan.TEq -> "Eq"
  | Scan.TDoubleEq -> "DoubleEq"
  | Scan.TBangEq -> "BangEq"
  | Scan.TGreaterThan -> "GreaterThan"
  | Scan.TLessThan -> "LessThan"
  | Scan.TGreaterThanEquals -> "GreaterThanEquals"
  | Scan.TLessThanEquals -> "LessThanEquals"
  | Scan.TDoubleGreaterThan -> "DoubleGreaterThan"
  | Scan.TDoubleLessThan -> "DoubleLessThan"
  | Scan.TAddAssign -> "AddAssign"
  | Scan.TSubAssign -> "SubAssign"
  | Scan.TMulAssign -> "MulAssign"
  | Scan.TDivAssign -> "DivAssign"
  | Scan.TRemAssign -> "RemAssign"
  | Scan.TBitXorAssign -> "BitXorAssign"
  | Scan.TBitAndAssign -> "BitAndAssign"
  | Scan.TBitOrAssign -> "BitOrAssign"
  | Scan.TShrAssign -> "ShrAssign"
  | Scan.TShlAssign -> "ShlAssign"

let fmt_meta (m : Scan.meta) : string =
  let (sl, sc) = m.Scan.m_start and (el, ec) = m.Scan.m_end in
  Printf.sprintf "%s %s %s %s" (string_of_n sl) (string_of_n sc) (string_of_n el) (string_of_n ec)

let fmt_err (e : Scan.scan_error_enum) : string =
  match e with
  | Scan.UnexpectedCharacter -> "UnexpectedCharacter"
  | Scan.InvalidUnsignedNum -> "InvalidUnsignedNum"
  | Scan.InvalidSignedNum -> "InvalidSignedNum"
  | Scan.UnterminatedBlockComment -> "UnterminatedBlockComment"

let fmt_scan (r : Scan.scan_out Util.res) : string =
  match r with
  | Util.Ok (Scan.STokens ts) ->
    Printf.sprintf "(ok %s)" (join (fun (Scan.Token (t, m)) -> Printf.sprintf "(%s %s)" (fmt_kind t) (fmt_meta m)) ts)
  | Util.Ok (Scan.SErrors es) ->
    Printf.sprintf "(err %s)" (join (fun (Scan.ScanError (e, m)) -> Printf.sprintf "(%s %s)" (fmt_err e) (fmt_meta m)) es)
  | Util.Crash -> "(crash)"
  | Util.OutOfFuel -> "(out-of-fuel)"

let job_scan (job : Sx.t) : string =
  let text = Sx.bytes (Stdlib.List.nth (Sx.list job) 2) in
  fmt_scan (Scan.scan_text (bytes_of_string text))

let job_pretty (job : Sx.t) : string =
  match Sx.list job with
  | _ :: _ :: text :: sl :: sc :: el :: ec :: _ ->
    let m = { Scan.m_start = (n_of_sx sl, n_of_sx sc); m_end = (n_of_sx el, n_of_sx ec) } in
    (match Prettify.prettify_meta (bytes_of_string (Sx.bytes text)) m with
     | Util.Ok bs -> Printf.sprintf "(ok %s)" (Sx.quote (string_of_bytes bs))
     | Util.Crash -> "(crash)"
     | Util.OutOfFuel -> "(out-of-fuel)")
  | _ -> failwith "bad pretty job"

(* ---- pexpr: the Gallina model of the expression parser (Front/ParseExpr.v) on the model scanner's tokens;
   output syntax identical to harness/src/front.rs job_pexpr *)
let str_of_codes (l : BinNums.coq_N list) : string =
  String.concat "" (Stdlib.List.map (fun c -> String.make 1 (Char.chr (int_of_n c))) l)

let uty_sx (t : Scan.unsigned_num_type) : string =
  match t with Scan.Usize -> "usize" | Scan.U8 -> "u8" | Scan.U16 -> "u16" | Scan.U32 -> "u32" | Scan.U64 -> "u64"
             | Scan.UnspecifiedU -> "uunspec"
let sty_sx (t : Scan.signed_num_type) : string =
  match t with Scan.I8 -> "i8" | Scan.I16 -> "i16" | Scan.I32 -> "i32" | Scan.I64 -> "i64" | Scan.UnspecifiedS -> "sunspec"

let rec uconst_sx (c : ParseExpr.uconst) : string =
  let list cs = String.concat "" (Stdlib.List.map (fun x -> " " ^ uconst_sx x) cs) in
  match c with
  | ParseExpr.CTrue -> "(ct)" | ParseExpr.CFalse -> "(cf)"
  | ParseExpr.CNumUnsigned (n, t) -> Printf.sprintf "(cnu %s %s)" (string_of_n n) (uty_sx t)
  | ParseExpr.CNumSigned (z, t) -> Printf.sprintf "(cns %s %s)" (string_of_z z) (sty_sx t)
  | ParseExpr.CExternalValue (p, i) -> Printf.sprintf "(cext %s %s)" (str_of_codes p) (str_of_codes i)
  | ParseExpr.CIdent s -> Printf.sprintf "(cid %s)" (str_of_codes s)
  | ParseExpr.CMax cs -> Printf.sprintf "(cmax%s)" (list cs)
  | ParseExpr.CMin cs -> Printf.sprintf "(cmin%s)" (list cs)
  | ParseExpr.CAdd (l, r) -> Printf.sprintf "(cadd %s %s)" (uconst_sx l) (uconst_sx r)
  | ParseExpr.CSub (l, r) -> Printf.sprintf "(csub %s %s)" (uconst_sx l) (uconst_sx r)

let rec utype_sx (ty : ParseExpr.utype) : string =
  match ty with
  | ParseExpr.UTArrayConstExpr (t, c) -> Printf.sprintf "(arrce %s %s)" (utype_sx t) (uconst_sx c)
  | ParseExpr.UTBool -> "bool" | ParseExpr.UTUnsigned u -> uty_sx u | ParseExpr.UTSigned s -> sty_sx s
  | ParseExpr.UTNamed n -> Printf.sprintf "(named %s)" (str_of_codes n)
  | ParseExpr.UTTuple ts -> Printf.sprintf "(tuplety%s)" (String.concat "" (Stdlib.List.map (fun t -> " " ^ utype_sx t) ts))
  | ParseExpr.UTArray (t, n) -> Printf.sprintf "(arr %s %s)" (utype_sx t) (string_of_n n)
  | ParseExpr.UTArrayConst (t, c) -> Printf.sprintf "(arrc %s %s)" (utype_sx t) (str_of_codes c)

let rec upat_sx (p : ParseExpr.upattern) : string =
  let list ps = String.concat "" (Stdlib.List.map (fun x -> " " ^ upat_sx x) ps) in
  let fields fs = String.concat "" (Stdlib.List.map (fun (f, x) -> Printf.sprintf " (%s %s)" (str_of_codes f) (upat_sx x)) fs) in
  match p with
  | ParseExpr.PIdentifier s -> Printf.sprintf "(pid %s)" (str_of_codes s)
  | ParseExpr.PTrue -> "(ptrue)"
  | ParseExpr.PFalse -> "(pfalse)"
  | ParseExpr.PNumUnsigned (n, t) -> Printf.sprintf "(pnu %s %s)" (string_of_n n) (uty_sx t)
  | ParseExpr.PNumSigned (z, t) -> Printf.sprintf "(pns %s %s)" (string_of_z z) (sty_sx t)
  | ParseExpr.PTuple ps -> Printf.sprintf "(ptup%s)" (list ps)
  | ParseExpr.PStruct (n, fs) -> Printf.sprintf "(pstruct %s%s)" (str_of_codes n) (fields fs)
  | ParseExpr.PStructIgnoreRemaining (n, fs) -> Printf.sprintf "(pstructrest %s%s)" (str_of_codes n) (fields fs)
  | ParseExpr.PEnumUnit (e, v) -> Printf.sprintf "(penumu %s %s)" (str_of_codes e) (str_of_codes v)
  | ParseExpr.PEnumTuple (e, v, ps) -> Printf.sprintf "(penumt %s %s%s)" (str_of_codes e) (str_of_codes v) (list ps)
  | ParseExpr.PUnsignedInclusiveRange (a, b, t) -> Printf.sprintf "(purange %s %s %s)" (string_of_n a) (string_of_n b) (uty_sx t)
  | ParseExpr.PSignedInclusiveRange (a, b, t) -> Printf.sprintf "(psrange %s %s %s)" (string_of_z a) (string_of_z b) (sty_sx t)

let rec uexpr_sx (e : ParseExpr.uexpr) : string =
  let list es = String.concat "" (Stdlib.List.map (fun x -> " " ^ uexpr_sx x) es) in
  match e with
  | ParseExpr.UTrue -> "(t)"
  | ParseExpr.UFalse -> "(f)"
  | ParseExpr.UNumUnsigned (n, t) -> Printf.sprintf "(nu %s %s)" (string_of_n n) (uty_sx t)
  | ParseExpr.UNumSigned (z, t) -> Printf.sprintf "(ns %s %s)" (string_of_z z) (sty_sx t)
  | ParseExpr.UIdentifier s -> Printf.sprintf "(id %s)" (str_of_codes s)
  | ParseExpr.UArrayAccess (a, i) -> Printf.sprintf "(idx %s %s)" (uexpr_sx a) (uexpr_sx i)
  | ParseExpr.UTupleLiteral es -> Printf.sprintf "(tup%s)" (list es)
  | ParseExpr.UTupleAccess (x, i) -> Printf.sprintf "(tupacc %s %s)" (uexpr_sx x) (string_of_n i)
  | ParseExpr.UStructAccess (x, f) -> Printf.sprintf "(fld %s %s)" (uexpr_sx x) (str_of_codes f)
  | ParseExpr.UUnaryOp (o, x) ->
    Printf.sprintf "(un %s %s)" (match o with ParseExpr.UoNot -> "not" | ParseExpr.UoNeg -> "neg") (uexpr_sx x)
  | ParseExpr.UOp (o, l, r) ->
    let n = match o with
      | ParseExpr.BAdd -> "add" | ParseExpr.BSub -> "sub" | ParseExpr.BMul -> "mul" | ParseExpr.BDiv -> "div"
      | ParseExpr.BMod -> "mod" | ParseExpr.BBitAnd -> "bitand" | ParseExpr.BBitXor -> "bitxor"
      | ParseExpr.BBitOr -> "bitor" | ParseExpr.BGreaterThan -> "gt" | ParseExpr.BLessThan -> "lt"
      | ParseExpr.BEq -> "eq" | ParseExpr.BNotEq -> "noteq" | ParseExpr.BShiftLeft -> "shl"
      | ParseExpr.BShiftRight -> "shr" | ParseExpr.BShortCircuitAnd -> "and" | ParseExpr.BShortCircuitOr -> "or" in
    Printf.sprintf "(op %s %s %s)" n (uexpr_sx l) (uexpr_sx r)
  | ParseExpr.UFnCall (f, args) -> Printf.sprintf "(call %s%s)" (str_of_codes f) (list args)
  | ParseExpr.UIf (c, t, x) -> Printf.sprintf "(if %s %s %s)" (uexpr_sx c) (uexpr_sx t) (uexpr_sx x)
  | ParseExpr.UCast (ty, x) -> Printf.sprintf "(cast %s %s)" (utype_sx ty) (uexpr_sx x)
  | ParseExpr.UArrayLiteral es -> Printf.sprintf "(arrlit%s)" (list es)
  | ParseExpr.UArrayRepeat (x, n) -> Printf.sprintf "(arrrep %s %s)" (uexpr_sx x) (string_of_n n)
  | ParseExpr.UArrayRepeatConst (x, c) -> Printf.sprintf "(arrrepc %s %s)" (uexpr_sx x) (str_of_codes c)
  | ParseExpr.URange (a, b, t) -> Printf.sprintf "(range %s %s %s)" (string_of_n a) (string_of_n b) (uty_sx t)
  | ParseExpr.UStructLiteral (n, fs) ->
    Printf.sprintf "(structlit %s%s)" (str_of_codes n)
      (String.concat "" (Stdlib.List.map (fun (f, x) -> Printf.sprintf " (%s %s)" (str_of_codes f) (uexpr_sx x)) fs))
  | ParseExpr.UEnumLiteral (e, v, args) ->
    Printf.sprintf "(enumlit %s %s %s)" (str_of_codes e) (str_of_codes v)
      (match args with None -> "(unit)" | Some es -> Printf.sprintf "(args%s)" (list es))
  | ParseExpr.UBlock ss -> Printf.sprintf "(block%s)" (String.concat "" (Stdlib.List.map (fun x -> " " ^ ustmt_sx x) ss))
  | ParseExpr.UMatch (x, arms) ->
    Printf.sprintf "(match %s%s)" (uexpr_sx x)
      (String.concat "" (Stdlib.List.map (fun (p, b) -> Printf.sprintf " (arm %s %s)" (upat_sx p) (uexpr_sx b)) arms))
and ustmt_sx (s : ParseExpr.ustmt) : string =
  let tyopt t = match t with None -> "(noty)" | Some t -> Printf.sprintf "(ty %s)" (utype_sx t) in
  match s with
  | ParseExpr.SLet (p, t, e) -> Printf.sprintf "(let %s %s %s)" (upat_sx p) (tyopt t) (uexpr_sx e)
  | ParseExpr.SLetMut (x, t, e) -> Printf.sprintf "(letmut %s %s %s)" (str_of_codes x) (tyopt t) (uexpr_sx e)
  | ParseExpr.SVarAssign (x, accs, e) ->
    let a = String.concat "" (Stdlib.List.map (fun a -> match a with
      | ParseExpr.AArray i -> Printf.sprintf " (aidx %s)" (uexpr_sx i)
      | ParseExpr.ATuple n -> Printf.sprintf " (atup %s)" (string_of_n n)
      | ParseExpr.AStruct f -> Printf.sprintf " (afld %s)" (str_of_codes f)) accs) in
    Printf.sprintf "(assign %s (accs%s) %s)" (str_of_codes x) a (uexpr_sx e)
  | ParseExpr.SForEach (p, e, ss) ->
    Printf.sprintf "(for %s %s (body%s))" (upat_sx p) (uexpr_sx e) (String.concat "" (Stdlib.List.map (fun x -> " " ^ ustmt_sx x) ss))
  | ParseExpr.SExpr e -> Printf.sprintf "(expr %s)" (uexpr_sx e)

let rec nat_of_int n = if n <= 0 then Datatypes.O else Datatypes.S (nat_of_int (n - 1))

(* (pprog id (src "program text")) -> (prog ..) | (err) | (outside) | (nofuel); maps sorted by name as on the Rust side *)
let job_pprog (job : Sx.t) : string =
  let text = Sx.bytes (Stdlib.List.hd (Sx.args (Sx.field job "src"))) in
  let sorted l = Stdlib.List.sort (fun (a, _) (b, _) -> compare a b) (Stdlib.List.map (fun (k, v) -> (str_of_codes k, v)) l) in
  match Scan.scan_text (bytes_of_string text) with
  | Util.Ok (Scan.STokens ts) ->
    (match ParseExpr.parse_program_text (nat_of_int (80 + 40 * Stdlib.List.length ts)) ts with
     | ParseExpr.POk (p, _) ->
       let b = Buffer.create 1024 in
       Buffer.add_string b "(prog (consts";
       Stdlib.List.iter (fun (k, c) ->
         Buffer.add_string b (Printf.sprintf " (%s %s %s)" k (utype_sx c.ParseExpr.c_ty) (uconst_sx c.ParseExpr.c_value)))
         (sorted p.ParseExpr.up_const_defs);
       Buffer.add_string b ") (structs";
       Stdlib.List.iter (fun (k, fs) ->
         Buffer.add_string b (Printf.sprintf " (%s%s)" k
           (String.concat "" (Stdlib.List.map (fun (f, t) -> Printf.sprintf " (%s %s)" (str_of_codes f) (utype_sx t)) fs))))
         (sorted p.ParseExpr.up_struct_defs);
       Buffer.add_string b ") (enums";
       Stdlib.List.iter (fun (k, vs) ->
         Buffer.add_string b (Printf.sprintf " (%s%s)" k
           (String.concat "" (Stdlib.List.map (fun v -> match v with
              | ParseExpr.VUnit n -> Printf.sprintf " (vunit %s)" (str_of_codes n)
              | ParseExpr.VTuple (n, ts) ->
                Printf.sprintf " (vtuple %s%s)" (str_of_codes n) (String.concat "" (Stdlib.List.map (fun t -> " " ^ utype_sx t) ts))) vs))))
         (sorted p.ParseExpr.up_enum_defs);
       Buffer.add_string b ") (fns";
       Stdlib.List.iter (fun (k, f) ->
         let ps = String.concat "" (Stdlib.List.map (fun q ->
           Printf.sprintf " (%s %s %s)" (if q.ParseExpr.p_mutable then "mut" else "imm") (str_of_codes q.ParseExpr.p_name)
             (utype_sx q.ParseExpr.p_ty)) f.ParseExpr.f_params) in
         Buffer.add_string b (Printf.sprintf " (fn %s %s %s %s (params%s) (body%s))" k (str_of_codes f.ParseExpr.f_identifier)
           (if f.ParseExpr.f_is_pub then "pub" else "priv") (utype_sx f.ParseExpr.f_ty) ps
           (String.concat "" (Stdlib.List.map (fun x -> " " ^ ustmt_sx x) f.ParseExpr.f_body))))
         (sorted p.ParseExpr.up_fn_defs);
       Buffer.add_string b "))";
       Buffer.contents b
     | ParseExpr.PErr -> "(err)"
     | ParseExpr.PNoFuel -> "(nofuel)"
     | ParseExpr.POutside _ -> "(outside)")
  | Util.Ok (Scan.SErrors _) -> "(err)"
  | _ -> "(crash)"

(* (pblock id (src "body text")) -> (stmts ..) | (err) | (outside) | (nofuel) *)
let job_pblock (job : Sx.t) : string =
  let text = Sx.bytes (Stdlib.List.hd (Sx.args (Sx.field job "src"))) in
  match Scan.scan_text (bytes_of_string text) with
  | Util.Ok (Scan.STokens ts) ->
    (match ParseExpr.parse_block_text (nat_of_int (80 + 40 * Stdlib.List.length ts)) ts with
     | ParseExpr.POk (ss, _) -> Printf.sprintf "(stmts%s)" (String.concat "" (Stdlib.List.map (fun x -> " " ^ ustmt_sx x) ss))
     | ParseExpr.PErr -> "(err)"
     | ParseExpr.PNoFuel -> "(nofuel)"
     | ParseExpr.POutside _ -> "(outside)")
  | Util.Ok (Scan.SErrors _) -> "(err)"
  | _ -> "(crash)"

(* (pexpr id (src "text")) -> (tree ..) | (err) | (outside) *)
let job_pexpr (job : Sx.t) : string =
  let text = Sx.bytes (Stdlib.List.hd (Sx.args (Sx.field job "src"))) in
  match Scan.scan_text (bytes_of_string text) with
  | Util.Ok (Scan.STokens ts) ->
    (* fuel: every level of the precedence chain spends one unit before a token is consumed; 40 units per
       token (plus a constant) is far above what any input needs, and running out is reported, never guessed *)
    (match ParseExpr.parse_expr_st (nat_of_int (60 + 40 * Stdlib.List.length ts)) { ParseExpr.toks = ts; ParseExpr.sla = true } with
     | ParseExpr.POk (e, st) -> if st.ParseExpr.toks = [] then Printf.sprintf "(tree %s)" (uexpr_sx e) else "(err)"
     | ParseExpr.PErr -> "(err)"
     | ParseExpr.PNoFuel -> "(nofuel)"
     | ParseExpr.POutside _ -> "(outside)")
  | Util.Ok (Scan.SErrors _) -> "(err)"
  | _ -> "(crash)"
