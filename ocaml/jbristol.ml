(* C11 jobs on the extracted model (Bristol.export / Bristol.import); output syntax
   identical to harness/src/bristol.rs. *)
open Conv

(* allocation limit handed to the model's export (words); the generators stay far below *)
let lim = n_of_int (1 lsl 26)

(* trusted glue: what Rust's str::parse::<usize> accepts is a number token, XOR/AND/INV are
   the three known words, everything else is "some other word" *)
let tok_of_string (s : string) : Bristol.tok =
  let len = String.length s in
  let body = if len > 0 && s.[0] = '+' then String.sub s 1 (len - 1) else s in
  let digits = body <> "" && String.for_all (fun c -> c >= '0' && c <= '9') body in
  if digits then begin
    let i = ref 0 in
    while !i < String.length body - 1 && body.[!i] = '0' do incr i done;
    let n = n_of_string (String.sub body !i (String.length body - !i)) in
    if BinNat.N.leb n Bristol.coq_USIZE_MAX then Bristol.TNum n else Bristol.TWord Bristol.WOther
  end else match s with
    | "XOR" -> Bristol.TWord Bristol.WXor
    | "AND" -> Bristol.TWord Bristol.WAnd
    | "INV" -> Bristol.TWord Bristol.WInv
    | _ -> Bristol.TWord Bristol.WOther

let fmt_tok (t : Bristol.tok) : string =
  match t with
  | Bristol.TNum n -> string_of_n n
  | Bristol.TWord Bristol.WXor -> "XOR"
  | Bristol.TWord Bristol.WAnd -> "AND"
  | Bristol.TWord Bristol.WInv -> "INV"
  | Bristol.TWord Bristol.WOther -> "w"

let fmt_line (l : Bristol.tok list) : string =
  if l = [] then "(l)" else Printf.sprintf "(l %s)" (join fmt_tok l)

let fmt_lines (ls : Bristol.tok list list) : string =
  Printf.sprintf "(lines %s)" (join fmt_line ls)

let fmt_ierr (e : Bristol.ierr) : string =
  match e with
  | Bristol.IOtherParse -> "(err OtherParse)"
  | Bristol.IParseInt -> "(err ParseInt)"
  | Bristol.IUnknownGate -> "(err UnknownGate)"
  | Bristol.IMissingGateType -> "(err MissingGateType)"
  | Bristol.IMissingLine -> "(err MissingLine)"
  | Bristol.IInputPartiesMismatch (a, b) ->
    Printf.sprintf "(err InputPartiesMismatch %s %s)" (string_of_n a) (string_of_n b)
  | Bristol.IOutputCountMismatch (a, b) ->
    Printf.sprintf "(err OutputCountMismatch %s %s)" (string_of_n a) (string_of_n b)
  | Bristol.IMalformedLine l -> Printf.sprintf "(err MalformedLine %s)" (fmt_line l)
  | Bristol.IInvalidWireIndex w -> Printf.sprintf "(err InvalidWireIndex %s)" (string_of_n w)

let run_import (ls : Bristol.tok list list) : string * Ssa.circuit option =
  match Bristol.import ls with
  | Util.Ok (Datatypes.Coq_inl c) -> (Printf.sprintf "(ok %s)" (Jcirc.fmt_ssa c), Some c)
  | Util.Ok (Datatypes.Coq_inr e) -> (fmt_ierr e, None)
  | Util.Crash -> ("crash", None)
  | Util.OutOfFuel -> ("out-of-fuel", None)

let job_bristol_out (job : Sx.t) : string =
  let c = Jcirc.parse_ssa job in
  let (ex_s, im_s, imported) =
    match Bristol.export lim c with
    | Util.Crash -> ("crash", "none", None)
    | Util.OutOfFuel -> ("out-of-fuel", "none", None)
    | Util.Ok (Datatypes.Coq_inr Bristol.XOutputWireIsInput) -> ("(err OutputWireIsInput)", "none", None)
    | Util.Ok (Datatypes.Coq_inr Bristol.XIoError) -> ("(err Io)", "none", None)
    | Util.Ok (Datatypes.Coq_inl ls) ->
      let (s, ci) = run_import ls in
      (fmt_lines ls, s, ci) in
  let evals =
    match imported with
    | None -> []
    | Some ci ->
      Stdlib.List.map (fun ins ->
          let ins = Stdlib.List.map (fun s -> bits_of_string (Sx.bytes s)) (Sx.list ins) in
          Printf.sprintf "(%s %s)" (Jcirc.fmt_eval (Ssa.ssa_eval c ins)) (Jcirc.fmt_eval (Ssa.ssa_eval ci ins)))
        (Sx.args (Sx.field job "inss")) in
  Printf.sprintf "(export %s) (import %s) (evals %s)" ex_s im_s (String.concat " " evals)

let job_bristol_in (job : Sx.t) : string =
  let ls = Stdlib.List.map (fun l -> Stdlib.List.map (fun t -> tok_of_string (Sx.bytes t)) (Sx.args l))
      (Sx.args (Sx.field job "lines")) in
  Printf.sprintf "(import %s)" (fst (run_import ls))
