(* C08 jobs (exhaust / witness / reps); output syntax identical to harness/src/exhaust.rs. *)
open Conv

(* ---- names are interned in order of first occurrence; "_" is 0 *)
let tbl : (string, int) Hashtbl.t = Hashtbl.create 64
let rev : (int, string) Hashtbl.t = Hashtbl.create 64
let reset () = Hashtbl.reset tbl; Hashtbl.reset rev;
  Hashtbl.replace tbl "_" 0; Hashtbl.replace rev 0 "_"
let intern (s : string) : BinNums.coq_N =
  match Hashtbl.find_opt tbl s with
  | Some i -> n_of_int i
  | None ->
    let i = Hashtbl.length tbl in
    Hashtbl.replace tbl s i; Hashtbl.replace rev i s; n_of_int i
let name (n : BinNums.coq_N) : string =
  match Hashtbl.find_opt rev (int_of_n n) with Some s -> s | None -> "?" ^ string_of_n n

let rec nat_of_int (n : int) : Datatypes.nat = if n <= 0 then Datatypes.O else Datatypes.S (nat_of_int (n - 1))

(* ---- types (the OCaml side keeps the written name of integer types for printing) *)
type sty = SBool | SInt of string | STup of sty list | SSt of string | SEn of string

let int_ty (nm : string) : Pat.ty =
  match nm with
  | "u8" -> Pat.TInt (false, n_of_int 8) | "u16" -> Pat.TInt (false, n_of_int 16)
  | "u32" -> Pat.TInt (false, n_of_int 32) | "u64" -> Pat.TInt (false, n_of_int 64)
  | "usize" -> Pat.TInt (false, n_of_int 32)
  | "i8" -> Pat.TInt (true, n_of_int 8) | "i16" -> Pat.TInt (true, n_of_int 16)
  | "i32" -> Pat.TInt (true, n_of_int 32) | "i64" -> Pat.TInt (true, n_of_int 64)
  | _ -> failwith ("bad int type " ^ nm)

let rec parse_sty (x : Sx.t) : sty =
  match x with
  | Sx.Atom "bool" -> SBool
  | Sx.Atom nm -> SInt nm
  | Sx.L (Sx.Atom "tup" :: ts) -> STup (Stdlib.List.map parse_sty ts)
  | Sx.L [Sx.Atom "st"; Sx.Atom s] -> SSt s
  | Sx.L [Sx.Atom "en"; Sx.Atom s] -> SEn s
  | _ -> failwith "bad type"

let rec ty_of (t : sty) : Pat.ty =
  match t with
  | SBool -> Pat.TBool
  | SInt nm -> int_ty nm
  | STup ts -> Pat.TTuple (Stdlib.List.map ty_of ts)
  | SSt s -> Pat.TStruct (intern s)
  | SEn s -> Pat.TEnum (intern s)

type sdefs = {
  sstructs : (string * (string * sty) list) list;
  senums : (string * (string * sty list option) list) list;
}

(* (defs (struct S (f t)...) (enum E (A) (B t...))...) *)
let parse_defs (x : Sx.t) : sdefs =
  let ss = ref [] and es = ref [] in
  Stdlib.List.iter (fun d ->
      match d with
      | Sx.L (Sx.Atom "struct" :: Sx.Atom s :: fs) ->
        ss := (s, Stdlib.List.map (fun f ->
            match f with
            | Sx.L [Sx.Atom fn; t] -> (fn, parse_sty t)
            | _ -> failwith "bad field") fs) :: !ss
      | Sx.L (Sx.Atom "enum" :: Sx.Atom e :: vs) ->
        es := (e, Stdlib.List.map (fun v ->
            match v with
            | Sx.L [Sx.Atom vn] -> (vn, None)
            | Sx.L (Sx.Atom vn :: ts) -> (vn, Some (Stdlib.List.map parse_sty ts))
            | _ -> failwith "bad variant") vs) :: !es
      | _ -> failwith "bad def") (Sx.args x);
  { sstructs = Stdlib.List.rev !ss; senums = Stdlib.List.rev !es }

let env_of (d : sdefs) : Pat.tyenv =
  { Pat.structs = Stdlib.List.map (fun (s, fs) ->
        (intern s, Stdlib.List.map (fun (f, t) -> (intern f, ty_of t)) fs)) d.sstructs;
    Pat.enums = Stdlib.List.map (fun (e, vs) ->
        (intern e, Stdlib.List.map (fun (v, ts) ->
             (intern v, (match ts with None -> None
                                      | Some ts -> Some (Stdlib.List.map ty_of ts)))) vs)) d.senums }

(* ---- patterns *)
let rec parse_pat (x : Sx.t) : Pat.pattern =
  match x with
  | Sx.L [Sx.Atom "var"; Sx.Atom v] -> Pat.PVar (intern v)
  | Sx.L [Sx.Atom "b"; Sx.Atom b] -> Pat.PBool (b = "1")
  | Sx.L [Sx.Atom "nu"; Sx.Atom z] -> Pat.PNum (false, z_of_string z)
  | Sx.L [Sx.Atom "ns"; Sx.Atom z] -> Pat.PNum (true, z_of_string z)
  | Sx.L [Sx.Atom "ru"; Sx.Atom a; Sx.Atom b] -> Pat.PRange (false, z_of_string a, z_of_string b)
  | Sx.L [Sx.Atom "rs"; Sx.Atom a; Sx.Atom b] -> Pat.PRange (true, z_of_string a, z_of_string b)
  | Sx.L (Sx.Atom "tup" :: ps) -> Pat.PTuple (Stdlib.List.map parse_pat ps)
  | Sx.L (Sx.Atom "st" :: Sx.Atom s :: Sx.Atom rest :: fs) ->
    Pat.PStruct (intern s, Stdlib.List.map (fun f ->
        match f with
        | Sx.L [Sx.Atom fn; p] -> (intern fn, parse_pat p)
        | _ -> failwith "bad field pattern") fs, rest = "1")
  | Sx.L [Sx.Atom "eu"; Sx.Atom e; Sx.Atom v] -> Pat.PEnum (intern e, intern v, None)
  | Sx.L (Sx.Atom "et" :: Sx.Atom e :: Sx.Atom v :: ps) ->
    Pat.PEnum (intern e, intern v, Some (Stdlib.List.map parse_pat ps))
  | _ -> failwith "bad pattern"

let rec fmt_pat (p : Pat.pattern) : string =
  match p with
  | Pat.PVar x -> Printf.sprintf "(var %s)" (name x)
  | Pat.PBool b -> if b then "(b 1)" else "(b 0)"
  | Pat.PNum (sl, z) -> Printf.sprintf "(%s %s)" (if sl then "ns" else "nu") (string_of_z z)
  | Pat.PRange (sl, a, b) ->
    Printf.sprintf "(%s %s %s)" (if sl then "rs" else "ru") (string_of_z a) (string_of_z b)
  | Pat.PTuple ps -> "(tup" ^ String.concat "" (Stdlib.List.map (fun p -> " " ^ fmt_pat p) ps) ^ ")"
  | Pat.PStruct (s, fs, rest) ->
    Printf.sprintf "(st %s %d%s)" (name s) (if rest then 1 else 0)
      (String.concat "" (Stdlib.List.map (fun (f, p) -> Printf.sprintf " (%s %s)" (name f) (fmt_pat p)) fs))
  | Pat.PEnum (e, v, None) -> Printf.sprintf "(eu %s %s)" (name e) (name v)
  | Pat.PEnum (e, v, Some ps) ->
    Printf.sprintf "(et %s %s%s)" (name e) (name v)
      (String.concat "" (Stdlib.List.map (fun p -> " " ^ fmt_pat p) ps))

(* ---- values *)
let rec parse_val (x : Sx.t) : Pat.value =
  match x with
  | Sx.L [Sx.Atom "b"; Sx.Atom b] -> Pat.VBool (b = "1")
  | Sx.L [Sx.Atom "n"; Sx.Atom _; Sx.Atom z] -> Pat.VInt (z_of_string z)
  | Sx.L (Sx.Atom "tup" :: vs) -> Pat.VTuple (Stdlib.List.map parse_val vs)
  | Sx.L (Sx.Atom "st" :: Sx.Atom s :: fs) ->
    Pat.VStruct (intern s, Stdlib.List.map (fun f ->
        match f with
        | Sx.L [Sx.Atom fn; v] -> (intern fn, parse_val v)
        | _ -> failwith "bad field value") fs)
  | Sx.L [Sx.Atom "eu"; Sx.Atom e; Sx.Atom v] -> Pat.VEnum (intern e, intern v, [])
  | Sx.L (Sx.Atom "et" :: Sx.Atom e :: Sx.Atom v :: vs) ->
    Pat.VEnum (intern e, intern v, Stdlib.List.map parse_val vs)
  | _ -> failwith "bad value"

let rec fmt_val (d : sdefs) (t : sty) (v : Pat.value) : string =
  match t, v with
  | SBool, Pat.VBool b -> if b then "(b 1)" else "(b 0)"
  | SInt nm, Pat.VInt z -> Printf.sprintf "(n %s %s)" nm (string_of_z z)
  | STup ts, Pat.VTuple vs ->
    "(tup" ^ String.concat "" (Stdlib.List.map2 (fun t v -> " " ^ fmt_val d t v) ts vs) ^ ")"
  | SSt s, Pat.VStruct (_, fvs) ->
    let fts = Stdlib.List.assoc s d.sstructs in
    Printf.sprintf "(st %s%s)" s
      (String.concat "" (Stdlib.List.map2 (fun (f, t) (_, v) ->
           Printf.sprintf " (%s %s)" f (fmt_val d t v)) fts fvs))
  | SEn e, Pat.VEnum (_, x, vs) ->
    let vn = name x in
    (match Stdlib.List.assoc vn (Stdlib.List.assoc e d.senums) with
     | None -> Printf.sprintf "(eu %s %s)" e vn
     | Some ts ->
       Printf.sprintf "(et %s %s%s)" e vn
         (String.concat "" (Stdlib.List.map2 (fun t v -> " " ^ fmt_val d t v) ts vs)))
  | _ -> failwith "value does not fit the type"

(* ---- common job fields *)
type ctx = { d : sdefs; env : Pat.tyenv; st : sty; t : Pat.ty;
             arms : (string * string * Pat.pattern) list; cap : BinNums.coq_N; fuel : Datatypes.nat }

let ctx_of (job : Sx.t) : ctx =
  reset ();
  let d = parse_defs (Sx.field job "defs") in
  let env = env_of d in
  let st = parse_sty (Stdlib.List.nth (Sx.list (Sx.field job "ty")) 1) in
  let arms = Stdlib.List.map (fun a ->
      match a with
      | Sx.L [Sx.Atom k; Sx.Atom b; p] -> (k, b, parse_pat p)
      | _ -> failwith "bad arm") (Sx.args (Sx.field job "arms")) in
  let cap = match Sx.try_field job "cap" with
    | Some c -> n_of_sx (Stdlib.List.nth (Sx.list c) 1) | None -> n_of_int 20000 in
  { d; env; st; t = ty_of st; arms; cap; fuel = nat_of_int 12 }

let pats_of c = Stdlib.List.map (fun (_, _, p) -> p) c.arms

(* (exhaust id (src ..) (defs ..) (ty T) (arms (k bindvar p)..) (vals v..)) *)
let job_exhaust (job : Sx.t) : string =
  let c = ctx_of job in
  let ps = pats_of c in
  let pats = "(pats" ^ String.concat "" (Stdlib.List.map (fun p -> " " ^ fmt_pat p) ps) ^ ")" in
  let force = Sx.try_field job "force" <> None in
  let wt = force || Stdlib.List.for_all (fun p -> Pat.pat_wt c.env c.t p) ps in
  let verdict, extra =
    if not wt then "(err type)", ""
    else match Covers.uncovered c.env c.cap c.fuel c.t ps with
      | None -> "undecided", ""
      | Some None -> "accepted", ""
      | Some (Some v) -> "nonexh", Printf.sprintf " (uncov %s)" (fmt_val c.d c.st v) in
  let vals = Stdlib.List.map parse_val (Sx.args (Sx.field job "vals")) in
  let run =
    if verdict <> "accepted" then "(run)"
    else "(run" ^ String.concat "" (Stdlib.List.map (fun v ->
        if not (Pat.has_type c.env v c.t) then " (illtyped-value)"
        else match Pat.select_arm ps v with
          | None -> " (none)"
          | Some (i, binds) ->
            let (k, b, _) = Stdlib.List.nth c.arms (int_of_n (BinNat.N.of_nat i)) in
            let bv = if b = "-" then "0" else
                (match Stdlib.List.assoc_opt (intern b) binds with
                 | Some (Pat.VInt z) -> string_of_z z
                 | _ -> "unbound") in
            Printf.sprintf " (%s %s)" k bv) vals) ^ ")" in
  (* the model of the REAL algorithm (Exhaust/Useful.v): its witnesses, printed and sorted as the harness does *)
  let umissing =
    if not wt then ""
    else
      let fb = Useful.fuel_bound c.env c.fuel [c.t] in
      match Useful.check_exhaustive fb c.env c.t ps with
      | None -> " (umissing nofuel)"
      | Some ws ->
        let items = Stdlib.List.map (fun st ->
            "(w" ^ String.concat "" (Stdlib.List.map (fun p -> " " ^ fmt_pat p) st) ^ ")") ws in
        " (umissing" ^ String.concat "" (Stdlib.List.map (fun x -> " " ^ x) (Stdlib.List.sort compare items)) ^ ")" in
  Printf.sprintf "%s (verdict %s)%s%s %s" pats verdict extra umissing run

(* (witness id (defs ..) (ty T) (arms ..) (ws p..)) -> (wok 1|0|u ...) *)
let job_witness (job : Sx.t) : string =
  let c = ctx_of job in
  let ps = pats_of c in
  let ws = Stdlib.List.map parse_pat (Sx.args (Sx.field job "ws")) in
  "(wok" ^ String.concat "" (Stdlib.List.map (fun w ->
      if not (Pat.pat_wt c.env c.t w) then " illtyped"
      else match Covers.witness_ok c.env c.cap c.fuel c.t ps w with
        | None -> " u" | Some true -> " 1" | Some false -> " 0") ws) ^ ")"

(* (reps id (defs ..) (ty T) (arms ..)) -> (reps v...) | (reps undecided), (uncov v|none) *)
let job_reps (job : Sx.t) : string =
  let c = ctx_of job in
  let ps = pats_of c in
  match Covers.region_reps c.env c.cap c.fuel c.t ps with
  | None -> "(reps undecided)"
  | Some rs ->
    let unc = match Covers.uncovered c.env c.cap c.fuel c.t ps with
      | Some (Some v) -> fmt_val c.d c.st v | _ -> "none" in
    Printf.sprintf "(reps%s) (uncov %s)"
      (String.concat "" (Stdlib.List.map (fun v -> " " ^ fmt_val c.d c.st v) rs)) unc
