(* `sortnet` jobs on the extracted model (SortJob.run_sops over Gadgets.v); output identical
   to harness/src/sortnet.rs (minus the Rust-only truth table). *)
open Conv

let rec nat_of_int (n : int) : Datatypes.nat =
  if n <= 0 then Datatypes.O else Datatypes.S (nat_of_int (n - 1))

let parse_op (o : Sx.t) : SortJob.sop =
  let a = Array.of_list (Sx.args o) in
  let nat i = nat_of_int (int_of_string (Sx.atom a.(i))) in
  match Sx.head o with
  | "gt" -> SortJob.SGt (nat 0, n_of_sx a.(1), n_of_sx a.(2))
  | "sorter" -> SortJob.SSorter (nat 0, n_of_sx a.(1), n_of_sx a.(2))
  | "merger" -> SortJob.SMerger (nat 0, Sx.atom a.(1) = "1")
  | "bsorter" -> SortJob.SBSorter (nat 0)
  | k -> failwith ("unknown sortnet op " ^ k)

let job_sortnet (job : Sx.t) : string =
  let dedup = Sx.atom (Stdlib.List.hd (Sx.args (Sx.field job "dedup"))) = "1" in
  let inputs = ns_of_args (Sx.field job "inputs") in
  let b = Builder.new_builder dedup inputs in
  let v = Stdlib.List.map (fun e -> Stdlib.List.map n_of_sx (Sx.list e)) (Sx.args (Sx.field job "elems")) in
  let ops = Stdlib.List.map parse_op (Sx.args (Sx.field job "ops")) in
  match SortJob.run_sops ((b, v), []) ops with
  | Util.Crash -> "crash"
  | Util.OutOfFuel -> "(model-out-of-fuel)"
  | Util.Ok ((b1, v1), ex_rev) ->
    let ex = Stdlib.List.rev ex_rev in
    let outs = Stdlib.List.concat v1 @ ex in
    (match Build.build b1 Build.panic_ok_wires outs with
     | Util.Crash -> "crash"
     | Util.OutOfFuel -> "(model-out-of-fuel)"
     | Util.Ok c ->
       Printf.sprintf "(elems %s) (extra%s) (circuit %s)"
         (String.concat " " (Stdlib.List.map (fun e -> "(" ^ join string_of_n e ^ ")") v1))
         (String.concat "" (Stdlib.List.map (fun w -> " " ^ string_of_n w) ex))
         (Jcirc.fmt_ssa c))
