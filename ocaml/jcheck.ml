(* `tcheck` jobs: the Gallina model of the type checker (coq/Check/Infer.v) on the parser model's program
   (scan_text -> parse_program_text -> uprogram_of_parsed -> check_program), compared with the typed AST the REAL
   checker returned for the same text (harness job `tcheck`):
     (tcheck id (src "text") (main "name") (names "n0" "n1" ..) (ast <typed ast>))   the real checker accepted
     (tcheck id (src "text") (main "name") (reject))                                   the real checker rejected
   -> (same) | (differ (at WHERE) (model SEXP) (rust SEXP)) | (model-accepts) | (model-rejects CODE) | (outside) | (nofuel)
      | (parse-differs) ; metas are not compared (the model drops them) *)
open Conv

let str_of_codes (l : BinNums.coq_N list) : string =
  String.concat "" (Stdlib.List.map (fun c -> String.make 1 (Char.chr (int_of_n c))) l)

let n = string_of_n
let z = string_of_z
let cat f l = String.concat "" (Stdlib.List.map (fun x -> " " ^ f x) l)

let rec ty_s (t : Ast.ty) : string =
  match t with
  | Ast.TBool -> "bool"
  | Ast.TInt (s, b) -> Printf.sprintf "(%s %s)" (if s then "i" else "u") (n b)
  | Ast.TArr (e, l) -> Printf.sprintf "(arr %s %s)" (ty_s e) (n l)
  | Ast.TTup ts -> Printf.sprintf "(tup%s)" (cat ty_s ts)
  | Ast.TStruct x -> Printf.sprintf "(struct %s)" (n x)
  | Ast.TEnum x -> Printf.sprintf "(enum %s)" (n x)

let rec pat_s (p : Ast.pattern) : string =
  match p with
  | Ast.Pat (i, _, t) ->
    let s = match i with
      | Ast.PId x -> Printf.sprintf "(id %s)" (n x)
      | Ast.PTrue -> "(true)" | Ast.PFalse -> "(false)"
      | Ast.PNumU x -> Printf.sprintf "(nu %s)" (n x)
      | Ast.PNumS x -> Printf.sprintf "(ns %s)" (z x)
      | Ast.PTup ps -> Printf.sprintf "(tup%s)" (cat pat_s ps)
      | Ast.PStruct (x, r, fs) ->
        Printf.sprintf "(struct %s %s%s)" (n x) (if r then "1" else "0") (cat (fun (f, q) -> Printf.sprintf "(%s %s)" (n f) (pat_s q)) fs)
      | Ast.PEnumUnit (e, v) -> Printf.sprintf "(eunit %s %s)" (n e) (n v)
      | Ast.PEnumTup (e, v, ps) -> Printf.sprintf "(etup %s %s%s)" (n e) (n v) (cat pat_s ps)
      | Ast.PURange (a, b) -> Printf.sprintf "(urange %s %s)" (n a) (n b)
      | Ast.PSRange (a, b) -> Printf.sprintf "(srange %s %s)" (z a) (z b) in
    Printf.sprintf "(p %s %s)" s (ty_s t)

let binop_s (o : Ast.binop) : string =
  match o with
  | Ast.OAdd -> "add" | Ast.OSub -> "sub" | Ast.OMul -> "mul" | Ast.ODiv -> "div" | Ast.OMod -> "mod"
  | Ast.OBitAnd -> "band" | Ast.OBitXor -> "bxor" | Ast.OBitOr -> "bor" | Ast.OGt -> "gt" | Ast.OLt -> "lt"
  | Ast.OEq -> "eq" | Ast.ONe -> "ne" | Ast.OShl -> "shl" | Ast.OShr -> "shr" | Ast.OLAnd -> "land" | Ast.OLOr -> "lor"

let rec expr_s (e : Ast.expr) : string =
  match e with
  | Ast.Ex (i, _, t) ->
    let s = match i with
      | Ast.ETrue -> "(true)" | Ast.EFalse -> "(false)"
      | Ast.ENumU (x, lb) -> Printf.sprintf "(nu %s %s)" (n x) (n lb)
      | Ast.ENumS (x, lb) -> Printf.sprintf "(ns %s %s)" (z x) (n lb)
      | Ast.EId x -> Printf.sprintf "(id %s)" (n x)
      | Ast.EArrLit es -> Printf.sprintf "(arrlit%s)" (cat expr_s es)
      | Ast.EArrRep (x, k) -> Printf.sprintf "(arrrep %s %s)" (expr_s x) (n k)
      | Ast.EIdx (a, k) -> Printf.sprintf "(idx %s %s)" (expr_s a) (expr_s k)
      | Ast.ETupLit es -> Printf.sprintf "(tuplit%s)" (cat expr_s es)
      | Ast.ETupAcc (x, k) -> Printf.sprintf "(tupacc %s %s)" (expr_s x) (n k)
      | Ast.EFld (x, f) -> Printf.sprintf "(fld %s %s)" (expr_s x) (n f)
      | Ast.EStructLit (x, fs) -> Printf.sprintf "(structlit %s%s)" (n x) (cat (fun (f, q) -> Printf.sprintf "(%s %s)" (n f) (expr_s q)) fs)
      | Ast.EEnumLit (en, v, args) -> Printf.sprintf "(enumlit %s %s%s)" (n en) (n v) (cat expr_s args)
      | Ast.EMatch (x, arms) -> Printf.sprintf "(match %s%s)" (expr_s x) (cat (fun (p, b) -> Printf.sprintf "(arm %s %s)" (pat_s p) (expr_s b)) arms)
      | Ast.ENeg x -> Printf.sprintf "(neg %s)" (expr_s x)
      | Ast.ENot x -> Printf.sprintf "(not %s)" (expr_s x)
      | Ast.EOp (o, x, y) -> Printf.sprintf "(op %s %s %s)" (binop_s o) (expr_s x) (expr_s y)
      | Ast.EBlock b -> Printf.sprintf "(block%s)" (cat stmt_s b)
      | Ast.ECall (f, args) -> Printf.sprintf "(call %s%s)" (n f) (cat expr_s args)
      | Ast.EJoin (jt, h, a, b) -> Printf.sprintf "(join %s %s %s %s)" (ty_s jt) (if h then "1" else "0") (expr_s a) (expr_s b)
      | Ast.EIf (c, a, b) -> Printf.sprintf "(if %s %s %s)" (expr_s c) (expr_s a) (expr_s b)
      | Ast.ECast (t', x) -> Printf.sprintf "(cast %s %s)" (ty_s t') (expr_s x)
      | Ast.ERange (a, b, k) -> Printf.sprintf "(range %s %s %s)" (n a) (n b) (n k) in
    Printf.sprintf "(e %s %s)" s (ty_s t)
and stmt_s (s : Ast.stmt) : string =
  match s with
  | Ast.St (i, _) ->
    (match i with
     | Ast.SLet (p, e) -> Printf.sprintf "(let %s %s)" (pat_s p) (expr_s e)
     | Ast.SLetMut (x, e) -> Printf.sprintf "(letmut %s %s)" (n x) (expr_s e)
     | Ast.SAssign (x, accs, e) -> Printf.sprintf "(assign %s (accs%s) %s)" (n x) (cat acc_s accs) (expr_s e)
     | Ast.SFor (p, a, b) -> Printf.sprintf "(for %s %s (body%s))" (pat_s p) (expr_s a) (cat stmt_s b)
     | Ast.SJoinLoop (p, jt, a, b, body) ->
       Printf.sprintf "(joinloop %s %s %s %s (body%s))" (pat_s p) (ty_s jt) (expr_s a) (expr_s b) (cat stmt_s body)
     | Ast.SExpr e -> Printf.sprintf "(expr %s)" (expr_s e))
and acc_s (a : Ast.accessor) : string =
  match a with
  | Ast.AIdx (t, i) -> Printf.sprintf "(ai %s %s)" (ty_s t) (expr_s i)
  | Ast.ATup (t, i) -> Printf.sprintf "(at %s %s)" (ty_s t) (n i)
  | Ast.AFld (t, f) -> Printf.sprintf "(af %s %s)" (ty_s t) (n f)

(* the parts of a program, labelled, for a localised comparison *)
let parts (p : Ast.program) : (string * string) list =
  (* the four maps are HashMaps in the code: compared as sets of labelled parts *)
  Stdlib.List.sort compare @@
  [("main", n p.Ast.p_main)]
  @ Stdlib.List.map (fun (x, fs) -> ("struct " ^ n x, cat (fun (f, t) -> Printf.sprintf "(%s %s)" (n f) (ty_s t)) fs)) p.Ast.p_structs
  @ Stdlib.List.map (fun (x, vs) -> ("enum " ^ n x, cat (fun ts -> Printf.sprintf "(v%s)" (cat ty_s ts)) vs)) p.Ast.p_enums
  @ Stdlib.List.map (fun (x, e) -> ("const " ^ n x, expr_s e)) p.Ast.p_consts
  @ Stdlib.List.map (fun d -> ("fn " ^ n d.Ast.fn_name,
      Printf.sprintf "(params%s) %s (body%s)" (cat (fun (x, t) -> Printf.sprintf "(%s %s)" (n x) (ty_s t)) d.Ast.fn_params)
        (ty_s d.Ast.fn_ret) (cat stmt_s d.Ast.fn_body))) p.Ast.p_fns

let clip s k = let a = max 0 (k - 120) in String.sub s a (min (String.length s - a) 320)

let job_tcheck (job : Sx.t) : string =
  let text = Sx.bytes (Stdlib.List.hd (Sx.args (Sx.field job "src"))) in
  let main = Sx.bytes (Stdlib.List.hd (Sx.args (Sx.field job "main"))) in
  let names = match Sx.try_field job "names" with None -> [] | Some f -> Stdlib.List.map Sx.bytes (Sx.args f) in
  let tbl = Hashtbl.create 64 in
  Stdlib.List.iteri (fun i s -> Hashtbl.replace tbl s i) names;
  let fresh = ref 1000000 in
  let intern (s : BinNums.coq_N list) : BinNums.coq_N =
    let k = str_of_codes s in
    match Hashtbl.find_opt tbl k with
    | Some i -> n_of_int i
    | None -> incr fresh; Hashtbl.replace tbl k !fresh; n_of_int !fresh in
  let rec nat_of_int k = if k <= 0 then Datatypes.O else Datatypes.S (nat_of_int (k - 1)) in
  match Scan.scan_text (Jfront.bytes_of_string text) with
  | Util.Ok (Scan.STokens ts) ->
    (match ParseExpr.parse_program_text (nat_of_int (80 + 40 * Stdlib.List.length ts)) ts with
     | ParseExpr.POk (up, _) ->
       let p = UAst.uprogram_of_parsed up (Jfront.bytes_of_string main) in
       let real = match Sx.try_field job "ast" with None -> None | Some f -> Some (Jprog.program (Stdlib.List.hd (Sx.args f))) in
       let fr = if InferSound.in_sound_fragment p then " (sound-fragment 1)" else " (sound-fragment 0)" in
       let rec int_of_nat (k : Datatypes.nat) = match k with Datatypes.O -> 0 | Datatypes.S k' -> 1 + int_of_nat k' in
       let fr = fr ^ (if InferFuel4.no_oracle p || int_of_nat (InferFuel5.ty_depth_bound p) <= 64 then " (fe-total 1)" else " (fe-total 0)") in
       (match Infer.check_program intern (nat_of_int 400) p, real with
        | Infer.COk m, Some r ->
          let pm = parts m and pr = parts r in
          let sf = if InferSound.in_sound_fragment p && InferSafe.structs_sorted p && InferSafe.sp_program p
                      && InferSafe.main_declared p && InferSafe.tys_program m then " (safe-fragment 1)" else " (safe-fragment 0)" in
          if pm = pr then "(same)" ^ fr ^ sf
          else begin
            (* first differing part *)
            let rec first a b = match a, b with
              | (la, sa) :: a', (lb, sb) :: b' ->
                if la <> lb then Printf.sprintf "(differ (at %S) (model %S) (rust %S))" "program layout" la lb
                else if sa <> sb then begin
                  let k = ref 0 in
                  while !k < String.length sa && !k < String.length sb && sa.[!k] = sb.[!k] do incr k done;
                  Printf.sprintf "(differ (at %S) (model %S) (rust %S))" la (clip sa !k) (clip sb !k)
                end else first a' b'
              | (la, _) :: _, [] -> Printf.sprintf "(differ (at %S) (model %S) (rust %S))" "extra part in model" la ""
              | [], (lb, _) :: _ -> Printf.sprintf "(differ (at %S) (model %S) (rust %S))" "extra part in rust" "" lb
              | [], [] -> "(same)" in
            first pm pr
          end
        | Infer.COk _, None -> "(model-accepts)"
        | Infer.CErr c, Some _ -> Printf.sprintf "(model-rejects %s)" (n c)
        | Infer.CErr c, None -> Printf.sprintf "(same-reject %s)%s" (n c) fr
        | Infer.COutside, _ -> "(outside)"
        | Infer.CNoFuel, _ -> "(nofuel)")
     | ParseExpr.PNoFuel -> "(nofuel)"
     | _ -> (match Sx.try_field job "ast" with None -> "(same-reject parse)" | Some _ -> "(parse-differs)"))
  | Util.Ok (Scan.SErrors _) -> (match Sx.try_field job "ast" with None -> "(same-reject scan)" | Some _ -> "(parse-differs)")
  | _ -> "(crash)"

(* `parg` jobs: the model of parse_arg (coq/Check/LitParse.v literal_parse_program) on the parser model's program:
   (parg id (src "program") (names "n0" ..) (arg i "text") ..) -> per argument (ok LIT) | (err) | (outside) | (nofuel) *)
let job_parg (job : Sx.t) : string =
  let text = Sx.bytes (Stdlib.List.hd (Sx.args (Sx.field job "src"))) in
  let names = Stdlib.List.map Sx.bytes (Sx.args (Sx.field job "names")) in
  let tbl = Hashtbl.create 64 in
  Stdlib.List.iteri (fun i s -> Hashtbl.replace tbl s i) names;
  let fresh = ref 1000000 in
  let intern (s : BinNums.coq_N list) : BinNums.coq_N =
    let k = str_of_codes s in
    match Hashtbl.find_opt tbl k with
    | Some i -> n_of_int i
    | None -> incr fresh; Hashtbl.replace tbl k !fresh; n_of_int !fresh in
  let rec nat_of_int k = if k <= 0 then Datatypes.O else Datatypes.S (nat_of_int (k - 1)) in
  match Scan.scan_text (Jfront.bytes_of_string text) with
  | Util.Ok (Scan.STokens ts) ->
    (match ParseExpr.parse_program_text (nat_of_int (80 + 40 * Stdlib.List.length ts)) ts with
     | ParseExpr.POk (up, _) ->
       let p = UAst.uprogram_of_parsed up (Jfront.bytes_of_string "main") in
       let out = ref [] in
       Stdlib.List.iter (fun f ->
         match f with
         | Sx.L [Sx.Atom "arg"; i; t] ->
           let r = LitParse.literal_parse_program intern (nat_of_int 400) p (n_of_int (int_of_string (Sx.atom i)))
                     (Jfront.bytes_of_string (Sx.bytes t)) in
           out := (match r with
             | Infer.COk l -> Printf.sprintf "(ok %s)" (Jlit.fmt_lit l)
             | Infer.CErr _ -> "(err)"
             | Infer.COutside -> "(outside)"
             | Infer.CNoFuel -> "(nofuel)") :: !out
         | _ -> ()) (Stdlib.List.tl (Stdlib.List.tl (Sx.list job)));
       String.concat " " (Stdlib.List.rev !out)
     | _ -> "(program-parse-failed)")
  | _ -> "(program-scan-failed)"
