(* `panicrec` / `panicparse` jobs on the extracted model; output identical to
   harness/src/panicrec.rs (minus the Rust-only fields (truth ..) (parse ..)). *)
open Conv
open Jbuilder

let reason_of (s : Sx.t) : PanicRec.preason =
  match unres (PanicRec.preason_from_num (n_of_sx s)) with r -> r

let fmt_parse (bits : bool list) : string =
  match PanicRec.parse_panic bits with
  | Util.Ok (Datatypes.Coq_inl rest) -> Printf.sprintf "(ok %d)" (Stdlib.List.length rest)
  | Util.Ok (Datatypes.Coq_inr (r, m)) ->
    Printf.sprintf "(panic %s %s %s %s %s)" (string_of_n (PanicRec.preason_num r))
      (string_of_n m.PanicRec.pl_sl) (string_of_n m.PanicRec.pl_sc)
      (string_of_n m.PanicRec.pl_el) (string_of_n m.PanicRec.pl_ec)
  | Util.Crash -> "crash"
  | Util.OutOfFuel -> "(model-out-of-fuel)"

let job_panicparse (job : Sx.t) : string =
  fmt_parse (bits_of_string (Sx.bytes (Stdlib.List.hd (Sx.args (Sx.field job "bits")))))

let job_panicrec (job : Sx.t) : string =
  let dedup = Sx.atom (Stdlib.List.hd (Sx.args (Sx.field job "dedup"))) = "1" in
  let inputs = ns_of_args (Sx.field job "inputs") in
  let b = ref (Builder.new_builder dedup inputs) in
  let h = { hs = []; n = 0 } in
  let cur = ref PanicRec.pstate_new in
  let slots : (int, PanicRec.pstate) Hashtbl.t = Hashtbl.create 8 in
  let slot k = match Hashtbl.find_opt slots k with Some p -> p | None -> failwith "empty slot" in
  let int_of (s : Sx.t) = int_of_string (Sx.atom s) in
  let step (op : Sx.t) : unit =
    let a = Array.of_list (Sx.args op) in
    match Sx.head op with
    | "push" ->
      let m = { PanicRec.pl_sl = n_of_sx a.(2); pl_sc = n_of_sx a.(3); pl_el = n_of_sx a.(4); pl_ec = n_of_sx a.(5) } in
      let (p, b') = unres (PanicRec.push_panic_if !b !cur (wire h a.(0)) (reason_of a.(1)) m) in
      cur := p; b := b'
    | "save" -> Hashtbl.replace slots (int_of a.(0)) !cur
    | "replace" -> cur := slot (int_of a.(0))
    | "swap" -> let p = slot (int_of a.(0)) in let old = !cur in cur := p; Hashtbl.replace slots (int_of a.(1)) old
    | "muxp" ->
      let (p, b') = unres (PanicRec.mux_panic !b (wire h a.(0)) (slot (int_of a.(1))) (slot (int_of a.(2)))) in
      cur := p; b := b'
    | _ -> run_request b h op in
  try
    Stdlib.List.iter step (Sx.args (Sx.field job "script"));
    let hs = Stdlib.List.rev h.hs in
    let pw = PanicRec.prec_wires !cur.PanicRec.ps_rec in
    let keys = Stdlib.List.sort compare (Stdlib.List.map int_of_n (PanicRec.nset_keys !cur.PanicRec.ps_cache)) in
    let c = unres (Build.build !b pw hs) in
    Printf.sprintf "(wires %s) (rec %s) (cache %s) (circuit %s)" (join string_of_n hs) (join string_of_n pw)
      (join string_of_int keys) (Jcirc.fmt_ssa c)
  with Model_crash s -> Printf.sprintf "(model-%s)" s
