(* Job kind `consts` (property C12) on the extracted model Compile/Consts.v; output syntax
   identical to harness/src/consts.rs (the Rust-only `(extra ..)` fields are not produced).

   Job fields used here (all names are strings; they are interned by rank of their bytes):
     (defs (NAME TY EXPR)...)     the const definitions in source order (one per line)
     (params TY...)               the parameter types of main
     (supplied (PARTY (NAME LIT)...)...)
     (observe NAME...)            optional: main returns the tuple of these consts
     (mode orig)                  optional: run the model of the unrepaired code *)
open Conv
open Consts

let uty = function
  | "usize" -> Usize | "u8" -> U8 | "u16" -> U16 | "u32" -> U32 | "u64" -> U64 | "uX" -> UX
  | s -> failwith ("bad unsigned type " ^ s)
let sty = function
  | "i8" -> I8 | "i16" -> I16 | "i32" -> I32 | "i64" -> I64 | "iX" -> IX
  | s -> failwith ("bad signed type " ^ s)
let fmt_uty = function
  | Usize -> "usize" | U8 -> "u8" | U16 -> "u16" | U32 -> "u32" | U64 -> "u64" | UX -> "uX"
let fmt_sty = function I8 -> "i8" | I16 -> "i16" | I32 -> "i32" | I64 -> "i64" | IX -> "iX"
let cty (s : string) : cty =
  match s with
  | "bool" -> TBool
  | _ when s.[0] = 'u' -> TU (uty s)
  | _ -> TS (sty s)
let fmt_cty = function TBool -> "bool" | TU u -> fmt_uty u | TS s -> fmt_sty s

(* ---- interning *)
let rec names_expr (x : Sx.t) (acc : string list) : string list =
  match Sx.head x, Sx.args x with
  | "ext", [p; n] -> Sx.atom p :: Sx.atom n :: acc
  | "id", [n] -> Sx.atom n :: acc
  | ("max" | "min" | "add" | "sub"), args -> Stdlib.List.fold_left (fun a e -> names_expr e a) acc args
  | _ -> acc
let rec names_pty (x : Sx.t) (acc : string list) : string list =
  match x with
  | Sx.Atom _ -> acc
  | _ ->
    (match Sx.head x, Sx.args x with
     | "arr", [e; _] -> names_pty e acc
     | "arrc", [e; c] -> names_pty e (Sx.atom c :: acc)
     | "arre", [e; ex] -> names_pty e (names_expr ex acc)
     | "tup", l -> Stdlib.List.fold_left (fun a e -> names_pty e a) acc l
     | _ -> acc)

type tbl = { names : string array }
let intern (t : tbl) (s : string) : BinNums.coq_N =
  let rec go lo hi =
    if lo >= hi then failwith ("name not interned: " ^ s)
    else
      let mid = (lo + hi) / 2 in
      let c = compare s t.names.(mid) in
      if c = 0 then n_of_int mid else if c < 0 then go lo mid else go (mid + 1) hi in
  go 0 (Array.length t.names)
let name_of (t : tbl) (n : BinNums.coq_N) : string = t.names.(int_of_n n)

let rec parse_expr (t : tbl) (x : Sx.t) : cexpr =
  match Sx.head x, Sx.args x with
  | "t", [] -> ETrue
  | "f", [] -> EFalse
  | "u", [n; ty] -> EUns (n_of_sx n, uty (Sx.atom ty))
  | "s", [z; ty] -> ESig (z_of_string (Sx.atom z), sty (Sx.atom ty))
  | "ext", [p; n] -> EExt (intern t (Sx.atom p), intern t (Sx.atom n))
  | "id", [n] -> EId (intern t (Sx.atom n))
  | "max", args -> EMax (Stdlib.List.map (parse_expr t) args)
  | "min", args -> EMin (Stdlib.List.map (parse_expr t) args)
  | "add", [a; b] -> EAdd (parse_expr t a, parse_expr t b)
  | "sub", [a; b] -> ESub (parse_expr t a, parse_expr t b)
  | h, _ -> failwith ("bad const expr " ^ h)

let rec fmt_expr (t : tbl) (e : cexpr) : string =
  match e with
  | ETrue -> "(t)"
  | EFalse -> "(f)"
  | EUns (n, ty) -> Printf.sprintf "(u %s %s)" (string_of_n n) (fmt_uty ty)
  | ESig (z, ty) -> Printf.sprintf "(s %s %s)" (string_of_z z) (fmt_sty ty)
  | EExt (p, n) -> Printf.sprintf "(ext %s %s)" (name_of t p) (name_of t n)
  | EId n -> Printf.sprintf "(id %s)" (name_of t n)
  | EMax args -> "(max" ^ String.concat "" (Stdlib.List.map (fun a -> " " ^ fmt_expr t a) args) ^ ")"
  | EMin args -> "(min" ^ String.concat "" (Stdlib.List.map (fun a -> " " ^ fmt_expr t a) args) ^ ")"
  | EAdd (a, b) -> Printf.sprintf "(add %s %s)" (fmt_expr t a) (fmt_expr t b)
  | ESub (a, b) -> Printf.sprintf "(sub %s %s)" (fmt_expr t a) (fmt_expr t b)

let rec parse_pty (t : tbl) (x : Sx.t) : pty =
  match x with
  | Sx.Atom "bool" -> PBool
  | Sx.Atom s when s.[0] = 'u' -> PU (uty s)
  | Sx.Atom s -> PS (sty s)
  | _ ->
    (match Sx.head x, Sx.args x with
     | "arr", [e; n] -> PArr (parse_pty t e, n_of_sx n)
     | "arrc", [e; c] -> PArrC (parse_pty t e, intern t (Sx.atom c))
     | "arre", [e; ex] -> PArrE (parse_pty t e, parse_expr t ex)
     | "tup", l -> PTup (Stdlib.List.map (parse_pty t) l)
     | h, _ -> failwith ("bad param type " ^ h))

let rec fmt_pty (t : tbl) (p : pty) : string =
  match p with
  | PBool -> "bool"
  | PU u -> fmt_uty u
  | PS s -> fmt_sty s
  | PArr (e, n) -> Printf.sprintf "(arr %s %s)" (fmt_pty t e) (string_of_n n)
  | PArrC (e, c) -> Printf.sprintf "(arrc %s %s)" (fmt_pty t e) (name_of t c)
  | PArrE (e, x) -> Printf.sprintf "(arre %s %s)" (fmt_pty t e) (fmt_expr t x)
  | PTup l -> "(tup" ^ String.concat "" (Stdlib.List.map (fun a -> " " ^ fmt_pty t a) l) ^ ")"

let parse_lit (x : Sx.t) : lit =
  match Sx.head x, Sx.args x with
  | "t", [] -> LTrue
  | "f", [] -> LFalse
  | "u", [n; ty] -> LUns (n_of_sx n, uty (Sx.atom ty))
  | "s", [z; ty] -> LSig (z_of_string (Sx.atom z), sty (Sx.atom ty))
  | "other", [] -> LOther
  | h, _ -> failwith ("bad literal " ^ h)
let fmt_lit (l : lit) : string =
  match l with
  | LTrue -> "(t)"
  | LFalse -> "(f)"
  | LUns (n, ty) -> Printf.sprintf "(u %s %s)" (string_of_n n) (fmt_uty ty)
  | LSig (z, ty) -> Printf.sprintf "(s %s %s)" (string_of_z z) (fmt_sty ty)
  | LOther -> "(other)"

(* iteration orders tried for the hash maps: sorted, reversed, two rotations *)
let rotate k l =
  let n = Stdlib.List.length l in
  if n = 0 then l else
    let k = k mod n in
    let a = Stdlib.List.filteri (fun i _ -> i >= k) l and b = Stdlib.List.filteri (fun i _ -> i < k) l in
    a @ b
let rec perms = function
  | [] -> [[]]
  | l ->
    Stdlib.List.concat_map (fun x ->
        let rest = Stdlib.List.filter (fun y -> y <> x) l in
        Stdlib.List.map (fun p -> x :: p) (perms rest)) l

let job_consts (job : Sx.t) : string =
  let cfg = match Sx.try_field job "mode" with
    | Some f when Sx.atom (Stdlib.List.hd (Sx.args f)) = "orig" -> original
    | _ -> repaired in
  let defs_sx = Sx.args (Sx.field job "defs") in
  let params_sx = Sx.args (Sx.field job "params") in
  let sup_sx = Sx.args (Sx.field job "supplied") in
  (* interning by rank *)
  let all = ref [] in
  Stdlib.List.iter (fun d ->
      match Sx.list d with
      | [n; _; e] -> all := Sx.atom n :: names_expr e !all
      | _ -> failwith "bad def") defs_sx;
  Stdlib.List.iter (fun p -> all := names_pty p !all) params_sx;
  Stdlib.List.iter (fun p ->
      match Sx.list p with
      | party :: cs ->
        all := Sx.atom party :: !all;
        Stdlib.List.iter (fun c -> all := Sx.atom (Stdlib.List.hd (Sx.list c)) :: !all) cs
      | [] -> failwith "bad supplied") sup_sx;
  let t = { names = Array.of_list (Stdlib.List.sort_uniq compare !all) } in
  let defs = Stdlib.List.map (fun d ->
      match Sx.list d with
      | [n; ty; e] -> { cd_name = intern t (Sx.atom n); cd_ty = cty (Sx.atom ty); cd_val = parse_expr t e }
      | _ -> failwith "bad def") defs_sx in
  let params = Stdlib.List.map (parse_pty t) params_sx in
  let sup = Stdlib.List.map (fun p ->
      match Sx.list p with
      | party :: cs ->
        (intern t (Sx.atom party),
         Stdlib.List.map (fun c ->
             match Sx.list c with
             | [n; l] -> (intern t (Sx.atom n), parse_lit l)
             | _ -> failwith "bad supplied const") cs)
      | [] -> failwith "bad supplied") sup_sx in
  let observe = match Sx.try_field job "observe" with
    | None -> None
    | Some f -> Some (Stdlib.List.map (fun x -> intern t (Sx.atom x)) (Sx.args f)) in
  (* the checker *)
  let (terrs, deps) = check_defs cfg defs in
  if terrs <> [] then begin
    let items = Stdlib.List.map (fun (i, e) ->
        Printf.sprintf "(%s %s)"
          (match e with
           | TUnexpectedType -> "UnexpectedType"
           | TUnknownIdentifier -> "UnknownIdentifier"
           | TExpectedNumberType -> "ExpectedNumberType")
          (string_of_n i)) terrs in
    Printf.sprintf "(ast none) (res check-err %s) (det true)"
      (String.concat " " (Stdlib.List.sort compare items))
  end else begin
    let deps_sorted = Stdlib.List.sort (fun (_, (_, m1)) (_, (_, m2)) ->
        compare (int_of_n m1) (int_of_n m2)) deps in
    let ast = Printf.sprintf "(ast (defs%s) (deps%s) (params%s))"
        (String.concat "" (Stdlib.List.map (fun d ->
             Printf.sprintf " (%s %s %s)" (name_of t d.cd_name) (fmt_cty d.cd_ty) (fmt_expr t d.cd_val)) defs))
        (String.concat "" (Stdlib.List.map (fun ((p, n), (ty, _)) ->
             Printf.sprintf " (%s %s %s)" (name_of t p) (name_of t n) (fmt_cty ty)) deps_sorted))
        (String.concat "" (Stdlib.List.map (fun p -> " " ^ fmt_pty t p) params)) in
    let key_str = function
      | KC n -> name_of t n
      | KE (p, n) -> name_of t p ^ "::" ^ name_of t n in
    let ty_of n = (Stdlib.List.find (fun d -> d.cd_name = n) defs).cd_ty in
    let render (r : (cerr list, cout) Datatypes.sum Util.res) : string =
      match r with
      | Util.Crash -> "(res crash)"
      | Util.OutOfFuel -> "(res out-of-fuel)"
      | Util.Ok (Datatypes.Coq_inl es) ->
        let items = Stdlib.List.map (fun e ->
            match e with
            | EMissing (p, n, _) -> Printf.sprintf "(missing %s %s)" (name_of t p) (name_of t n)
            | EBadType (l, ty) -> Printf.sprintf "(badtype %s %s)" (fmt_lit l) (fmt_cty ty)
            | EZeroInputs -> "(zero-sized-inputs)") es in
        Printf.sprintf "(res err %s)" (String.concat " " (Stdlib.List.sort compare items))
      | Util.Ok (Datatypes.Coq_inr o) ->
        let sizes = Stdlib.List.sort compare
            (Stdlib.List.map (fun (k, v) -> (key_str k, string_of_z v)) o.co_sizes) in
        let sizes = String.concat "" (Stdlib.List.map (fun (k, v) -> Printf.sprintf " (%s %s)" k v) sizes) in
        let ig = String.concat "" (Stdlib.List.map (fun (cnt, sz) ->
            let c = int_of_string (string_of_z cnt) in
            if c > 100000 then " too-many-parties"
            else String.concat "" (Stdlib.List.init c (fun _ -> " " ^ string_of_z sz))) o.co_ig) in
        let vals = match observe with
          | None -> ""
          | Some ns ->
            " (vals" ^ String.concat "" (Stdlib.List.map (fun n ->
                match Stdlib.List.assoc_opt n o.co_vals with
                | Some (Some bits) ->
                  (match ty_of n with
                   | TBool -> (match bits with [true] -> " t" | [false] -> " f" | _ -> " ?")
                   | TU _ -> " " ^ string_of_z (bits_unsigned bits)
                   | TS _ -> " " ^ string_of_z (bits_signed bits))
                | _ -> " ?") ns) ^ ")" in
        Printf.sprintf "(res ok (sizes%s) (ig%s)%s)" sizes ig vals in
    let keys = Stdlib.List.map fst deps_sorted in
    let names = Stdlib.List.map (fun d -> d.cd_name) defs in
    let korders = [keys; Stdlib.List.rev keys; rotate 1 keys; rotate 2 (Stdlib.List.rev keys)] in
    let norders =
      if Stdlib.List.length names <= 4 then perms names
      else [names; Stdlib.List.rev names; rotate 1 names; rotate 3 names; rotate 2 (Stdlib.List.rev names)] in
    let first = render (compile_consts cfg keys keys names defs deps params sup) in
    let det = ref true in
    Stdlib.List.iteri (fun i o1 ->
        let o2 = Stdlib.List.nth korders ((i + 1) mod 4) in
        Stdlib.List.iter (fun ob ->
            if !det && render (compile_consts cfg o1 o2 ob defs deps params sup) <> first then det := false)
          (if cfg.c_bind_source_order then [names] else norders)) korders;
    let wt = wt_defs deps defs && sup_ok deps sup in
    Printf.sprintf "%s %s (det %s) (extra (fragment %s))" ast first (if !det then "true" else "false")
      (if wt then "true" else "false")
  end
