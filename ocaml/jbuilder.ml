(* `builder` jobs on the extracted model; output identical to harness/src/builder.rs *)
open Conv

exception Model_crash of string

let unres (r : 'a Util.res) : 'a =
  match r with
  | Util.Ok a -> a
  | Util.Crash -> raise (Model_crash "crash")
  | Util.OutOfFuel -> raise (Model_crash "out-of-fuel")

type handles = { mutable hs : BinNums.coq_N list (* reversed *); mutable n : int }

let wire (h : handles) (s : Sx.t) : BinNums.coq_N =
  let a = Sx.atom s in
  if String.length a > 0 && a.[0] = 'h' then
    let k = int_of_string (String.sub a 1 (String.length a - 1)) in
    Stdlib.List.nth h.hs (h.n - 1 - k)
  else n_of_string a

let push (h : handles) (w : BinNums.coq_N) = h.hs <- w :: h.hs; h.n <- h.n + 1

let one_n = n_of_int 1

let run_request (b : Builder.builder ref) (h : handles) (r : Sx.t) : unit =
  let a = Array.of_list (Sx.args r) in
  let w i = wire h a.(i) in
  let single res = let (x, b') = unres res in b := b'; push h x in
  match Sx.head r with
  | "xor" -> single (Builder.push_xor_top !b (w 0) (w 1))
  | "and" -> single (Builder.push_and_top !b (w 0) (w 1))
  | "not" -> single (Builder.push_not !b (w 0))
  | "or" -> single (Builder.push_or !b (w 0) (w 1))
  | "eq" -> single (Builder.push_eq !b (w 0) (w 1))
  | "mux" -> single (Builder.push_mux !b (w 0) (w 1) (w 2))
  | "adder" ->
    let ((s, c), b') = unres (Gadgets.push_adder !b (w 0) (w 1) (w 2)) in
    b := b'; push h s; push h c
  | k -> failwith ("unknown request " ^ k)

let job_builder (job : Sx.t) : string =
  let dedup = Sx.atom (Stdlib.List.hd (Sx.args (Sx.field job "dedup"))) = "1" in
  let inputs = ns_of_args (Sx.field job "inputs") in
  let b = ref (Builder.new_builder dedup inputs) in
  let h = { hs = []; n = 0 } in
  try
    Stdlib.List.iter (run_request b h) (Sx.args (Sx.field job "reqs"));
    let outs = Stdlib.List.map (wire h) (Sx.args (Sx.field job "outs")) in
    let c = unres (Build.build !b Build.panic_ok_wires outs) in
    Printf.sprintf "(wires %s) (circuit %s)" (join string_of_n (Stdlib.List.rev h.hs)) (Jcirc.fmt_ssa c)
  with Model_crash s -> Printf.sprintf "(model-%s)" s
