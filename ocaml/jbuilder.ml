(* `builder` jobs on the extracted model; output identical to harness/src/builder.rs *)
open Conv

exception Model_crash of string

let unres (r : 'a Util.res) : 'a =
  match r with
  | Util.Ok a -> a
  | Util.Crash -> raise (Model_crash "crash")
  | Util.OutOfFuel -> raise (Model_crash "out-of-fuel")

type handles = { mutable hs : BinNums.coq_N list (* reversed *); mutable n : int }

let wire (h : handles) (s : Sx.t) : BinNums.coq_N =
  let a = Sx.atom s in
  if String.length a > 0 && a.[0] = 'h' then
    let k = int_of_string (String.sub a 1 (String.length a - 1)) in
    Stdlib.List.nth h.hs (h.n - 1 - k)
  else n_of_string a

let push (h : handles) (w : BinNums.coq_N) = h.hs <- w :: h.hs; h.n <- h.n + 1

let one_n = n_of_int 1

let run_request (b : Builder.builder ref) (h : handles) (r : Sx.t) : unit =
  let a = Array.of_list (Sx.args r) in
  let w i = wire h a.(i) in
  let ws i = Stdlib.List.map (wire h) (Sx.list a.(i)) in
  let flag i = Sx.atom a.(i) = "1" in
  let nat i = nat_of_int (int_of_string (Sx.atom a.(i))) in
  let single res = let (x, b') = unres res in b := b'; push h x in
  match Sx.head r with
  | "xor" -> single (Builder.push_xor_top !b (w 0) (w 1))
  | "and" -> single (Builder.push_and_top !b (w 0) (w 1))
  | "not" -> single (Builder.push_not !b (w 0))
  | "or" -> single (Builder.push_or !b (w 0) (w 1))
  | "eq" -> single (Builder.push_eq !b (w 0) (w 1))
  | "mux" -> single (Builder.push_mux !b (w 0) (w 1) (w 2))
  | "adder" ->
    let ((s, c), b') = unres (Gadgets.push_adder !b (w 0) (w 1) (w 2)) in
    b := b'; push h s; push h c
  (* ---- arithmetic gadgets on wire lists (C03); operands MSB first *)
  | "eqc" -> single (Gadgets.push_eq_circuit !b (ws 0) (ws 1))
  | "addc" ->
    let (((sum, c), cp), b') = unres (Gadgets.push_addition_circuit !b (ws 0) (ws 1)) in
    b := b'; Stdlib.List.iter (push h) sum; push h c; push h cp
  | "negc" ->
    let (r, b') = unres (Gadgets.push_negation_circuit !b (ws 0)) in
    b := b'; Stdlib.List.iter (push h) r
  | "subc" ->
    let ((r, ov), b') = unres (Gadgets.push_subtraction_circuit !b (ws 0) (ws 1) (flag 2)) in
    b := b'; Stdlib.List.iter (push h) r; push h ov
  | "udiv" ->
    let ((q, r), b') = unres (Gadgets.push_unsigned_division_circuit !b (ws 0) (ws 1)) in
    b := b'; Stdlib.List.iter (push h) q; Stdlib.List.iter (push h) r
  | "sdiv" ->
    let ((q, r), b') = unres (Gadgets.push_signed_division_circuit !b (ws 0) (ws 1)) in
    b := b'; Stdlib.List.iter (push h) q; Stdlib.List.iter (push h) r
  | "gt" -> single (Gadgets.push_gt_circuit !b (nat 0) (ws 1) (ws 2))
  | "cmp" ->
    let ((lt, gt), b') =
      unres (Gadgets.push_comparator_circuit !b (nat 0) (ws 1) (flag 2) (ws 3) (flag 4)) in
    b := b'; push h lt; push h gt
  | "mult" ->
    let ((s, c), b') = unres (Gadgets.push_multiplier !b (w 0) (w 1) (w 2) (w 3)) in
    b := b'; push h s; push h c
  | "condswap" ->
    let ((x, y), b') = unres (Gadgets.push_condswap !b (w 0) (w 1) (w 2)) in
    b := b'; push h x; push h y
  | "ext" ->
    let r = unres (Extend.extend_to_bits (ws 0) (flag 1) (nat 2)) in
    Stdlib.List.iter (push h) r
  | k -> failwith ("unknown request " ^ k)

let job_builder (job : Sx.t) : string =
  let dedup = Sx.atom (Stdlib.List.hd (Sx.args (Sx.field job "dedup"))) = "1" in
  let inputs = ns_of_args (Sx.field job "inputs") in
  let b = ref (Builder.new_builder dedup inputs) in
  let h = { hs = []; n = 0 } in
  try
    Stdlib.List.iter (run_request b h) (Sx.args (Sx.field job "reqs"));
    let outs = Stdlib.List.map (wire h) (Sx.args (Sx.field job "outs")) in
    let c = unres (Build.build !b Build.panic_ok_wires outs) in
    Printf.sprintf "(wires %s) (circuit %s)" (join string_of_n (Stdlib.List.rev h.hs)) (Jcirc.fmt_ssa c)
  with Model_crash s -> Printf.sprintf "(model-%s)" s
