(* `sem` jobs: run the specification interpreter (coq/Lang/Sem.v) on an exported typed AST *)
open Conv

let nat_of_int (n : int) : Datatypes.nat =
  let rec go n acc = if n = 0 then acc else go (n - 1) (Datatypes.S acc) in go n Datatypes.O

let atomn x = n_of_string (Sx.atom x)
let atomz x = z_of_string (Sx.atom x)

let rec ty (x : Sx.t) : Ast.ty =
  match x with
  | Sx.Atom "bool" -> Ast.TBool
  | Sx.L [Sx.Atom "u"; b] -> Ast.TInt (false, atomn b)
  | Sx.L [Sx.Atom "i"; b] -> Ast.TInt (true, atomn b)
  | Sx.L [Sx.Atom "arr"; t; n] -> Ast.TArr (ty t, atomn n)
  | Sx.L (Sx.Atom "tup" :: ts) -> Ast.TTup (Stdlib.List.map ty ts)
  | Sx.L [Sx.Atom "struct"; n] -> Ast.TStruct (atomn n)
  | Sx.L [Sx.Atom "enum"; n] -> Ast.TEnum (atomn n)
  | _ -> failwith "bad type"

let meta (x : Sx.t) : Ast.meta =
  match x with
  | Sx.L [Sx.Atom "m"; a; b; c; d] ->
    { Ast.m_sl = atomn a; m_sc = atomn b; m_el = atomn c; m_ec = atomn d }
  | _ -> failwith "bad meta"

let binop (s : string) : Ast.binop =
  match s with
  | "add" -> Ast.OAdd | "sub" -> Ast.OSub | "mul" -> Ast.OMul | "div" -> Ast.ODiv | "mod" -> Ast.OMod
  | "band" -> Ast.OBitAnd | "bxor" -> Ast.OBitXor | "bor" -> Ast.OBitOr
  | "gt" -> Ast.OGt | "lt" -> Ast.OLt | "eq" -> Ast.OEq | "ne" -> Ast.ONe
  | "shl" -> Ast.OShl | "shr" -> Ast.OShr | "land" -> Ast.OLAnd | "lor" -> Ast.OLOr
  | _ -> failwith "bad op"

let rec pattern (x : Sx.t) : Ast.pattern =
  match x with
  | Sx.L [Sx.Atom "p"; i; m; t] -> Ast.Pat (pat_inner i, meta m, ty t)
  | _ -> failwith "bad pattern"
and pat_inner (x : Sx.t) : Ast.pat_inner =
  match x with
  | Sx.Atom "true" -> Ast.PTrue
  | Sx.Atom "false" -> Ast.PFalse
  | Sx.L [Sx.Atom "id"; n] -> Ast.PId (atomn n)
  | Sx.L [Sx.Atom "nu"; n] -> Ast.PNumU (atomn n)
  | Sx.L [Sx.Atom "ns"; n] -> Ast.PNumS (atomz n)
  | Sx.L (Sx.Atom "tup" :: ps) -> Ast.PTup (Stdlib.List.map pattern ps)
  | Sx.L (Sx.Atom "struct" :: n :: rest :: fs) ->
    Ast.PStruct (atomn n, Sx.atom rest = "1",
                 Stdlib.List.map (function Sx.L [f; p] -> (atomn f, pattern p) | _ -> failwith "bad field pat") fs)
  | Sx.L [Sx.Atom "eunit"; e; v] -> Ast.PEnumUnit (atomn e, atomn v)
  | Sx.L (Sx.Atom "etup" :: e :: v :: ps) -> Ast.PEnumTup (atomn e, atomn v, Stdlib.List.map pattern ps)
  | Sx.L [Sx.Atom "urange"; a; b] -> Ast.PURange (atomn a, atomn b)
  | Sx.L [Sx.Atom "srange"; a; b] -> Ast.PSRange (atomz a, atomz b)
  | _ -> failwith "bad pattern inner"

let rec expr (x : Sx.t) : Ast.expr =
  match x with
  | Sx.L [Sx.Atom "e"; i; m; t] -> Ast.Ex (expr_inner i, meta m, ty t)
  | _ -> failwith "bad expr"
and expr_inner (x : Sx.t) : Ast.expr_inner =
  match x with
  | Sx.Atom "true" -> Ast.ETrue
  | Sx.Atom "false" -> Ast.EFalse
  | Sx.L [Sx.Atom "nu"; n; lb] -> Ast.ENumU (atomn n, atomn lb)
  | Sx.L [Sx.Atom "ns"; n; lb] -> Ast.ENumS (atomz n, atomn lb)
  | Sx.L [Sx.Atom "id"; n] -> Ast.EId (atomn n)
  | Sx.L (Sx.Atom "arrlit" :: es) -> Ast.EArrLit (Stdlib.List.map expr es)
  | Sx.L [Sx.Atom "arrrep"; e; n] -> Ast.EArrRep (expr e, atomn n)
  | Sx.L [Sx.Atom "idx"; a; i] -> Ast.EIdx (expr a, expr i)
  | Sx.L (Sx.Atom "tuplit" :: es) -> Ast.ETupLit (Stdlib.List.map expr es)
  | Sx.L [Sx.Atom "tupacc"; e; i] -> Ast.ETupAcc (expr e, atomn i)
  | Sx.L [Sx.Atom "fld"; e; f] -> Ast.EFld (expr e, atomn f)
  | Sx.L (Sx.Atom "structlit" :: n :: fs) ->
    Ast.EStructLit (atomn n, Stdlib.List.map (function Sx.L [f; e] -> (atomn f, expr e) | _ -> failwith "bad field") fs)
  | Sx.L (Sx.Atom "enumlit" :: e :: v :: args) -> Ast.EEnumLit (atomn e, atomn v, Stdlib.List.map expr args)
  | Sx.L (Sx.Atom "match" :: s :: arms) ->
    Ast.EMatch (expr s, Stdlib.List.map (function Sx.L [p; e] -> (pattern p, expr e) | _ -> failwith "bad arm") arms)
  | Sx.L [Sx.Atom "neg"; e] -> Ast.ENeg (expr e)
  | Sx.L [Sx.Atom "not"; e] -> Ast.ENot (expr e)
  | Sx.L [Sx.Atom "op"; o; a; b] -> Ast.EOp (binop (Sx.atom o), expr a, expr b)
  | Sx.L (Sx.Atom "block" :: ss) -> Ast.EBlock (Stdlib.List.map stmt ss)
  | Sx.L (Sx.Atom "call" :: f :: args) -> Ast.ECall (atomn f, Stdlib.List.map expr args)
  | Sx.L [Sx.Atom "join"; t; h; a; b] -> Ast.EJoin (ty t, Sx.atom h = "1", expr a, expr b)
  | Sx.L [Sx.Atom "if"; c; a; b] -> Ast.EIf (expr c, expr a, expr b)
  | Sx.L [Sx.Atom "cast"; t; e] -> Ast.ECast (ty t, expr e)
  | Sx.L [Sx.Atom "range"; a; b; bits] -> Ast.ERange (atomn a, atomn b, atomn bits)
  | _ -> failwith "bad expr inner"
and stmt (x : Sx.t) : Ast.stmt =
  match x with
  | Sx.L [Sx.Atom "s"; i; m] -> Ast.St (stmt_inner i, meta m)
  | _ -> failwith "bad stmt"
and stmt_inner (x : Sx.t) : Ast.stmt_inner =
  match x with
  | Sx.L [Sx.Atom "let"; p; e] -> Ast.SLet (pattern p, expr e)
  | Sx.L [Sx.Atom "letmut"; n; e] -> Ast.SLetMut (atomn n, expr e)
  | Sx.L [Sx.Atom "assign"; n; Sx.L accs; e] -> Ast.SAssign (atomn n, Stdlib.List.map accessor accs, expr e)
  | Sx.L (Sx.Atom "for" :: p :: a :: body) -> Ast.SFor (pattern p, expr a, Stdlib.List.map stmt body)
  | Sx.L (Sx.Atom "joinloop" :: p :: t :: a :: b :: body) ->
    Ast.SJoinLoop (pattern p, ty t, expr a, expr b, Stdlib.List.map stmt body)
  | Sx.L [Sx.Atom "expr"; e] -> Ast.SExpr (expr e)
  | _ -> failwith "bad stmt inner"
and accessor (x : Sx.t) : Ast.accessor =
  match x with
  | Sx.L [Sx.Atom "ai"; t; e] -> Ast.AIdx (ty t, expr e)
  | Sx.L [Sx.Atom "at"; t; i] -> Ast.ATup (ty t, atomn i)
  | Sx.L [Sx.Atom "af"; t; f] -> Ast.AFld (ty t, atomn f)
  | _ -> failwith "bad accessor"

let program (x : Sx.t) : Ast.program =
  let structs = Stdlib.List.map (function
      | Sx.L (n :: fs) -> (atomn n, Stdlib.List.map (function Sx.L [f; t] -> (atomn f, ty t) | _ -> failwith "bad sfield") fs)
      | _ -> failwith "bad struct") (Sx.args (Sx.field x "structs")) in
  let enums = Stdlib.List.map (function
      | Sx.L (n :: vs) -> (atomn n, Stdlib.List.map (fun v -> Stdlib.List.map ty (Sx.list v)) vs)
      | _ -> failwith "bad enum") (Sx.args (Sx.field x "enums")) in
  let fns = Stdlib.List.map (function
      | Sx.L (n :: ps :: ret :: body) ->
        { Ast.fn_name = atomn n;
          fn_params = Stdlib.List.map (function Sx.L [p; t] -> (atomn p, ty t) | _ -> failwith "bad param") (Sx.args ps);
          fn_ret = ty ret; fn_body = Stdlib.List.map stmt body }
      | _ -> failwith "bad fn") (Sx.args (Sx.field x "fns")) in
  let consts = Stdlib.List.map (function Sx.L [n; e] -> (atomn n, expr e) | _ -> failwith "bad const")
      (Sx.args (Sx.field x "consts")) in
  { Ast.p_structs = structs; p_enums = enums; p_fns = fns; p_consts = consts;
    p_main = atomn (Stdlib.List.hd (Sx.args (Sx.field x "main"))) }

let fmt_reason = function
  | Sem.ROverflow -> "Overflow" | Sem.RDivByZero -> "DivByZero" | Sem.ROutOfBounds -> "OutOfBounds"

let fuel = nat_of_int 400

let job_sem (job : Sx.t) : string =
  let p = program (Stdlib.List.hd (Sx.args (Sx.field job "ast"))) in
  let results = Stdlib.List.map (fun one ->
      let ins = Stdlib.List.map (fun s -> bits_of_string (Sx.bytes s)) (Sx.list one) in
      match Sem.run_main fuel p ins with
      | Sem.RunOk (bits, false) -> Printf.sprintf "(ok \"%s\")" (string_of_bits bits)
      | Sem.RunOk (bits, true) -> Printf.sprintf "(ok-lenient \"%s\")" (string_of_bits bits)
      | Sem.RunPanic (r, m) ->
        Printf.sprintf "(panic %s %s %s %s %s)" (fmt_reason r) (string_of_n m.Ast.m_sl) (string_of_n m.Ast.m_sc)
          (string_of_n m.Ast.m_el) (string_of_n m.Ast.m_ec)
      | Sem.RunStuck c -> Printf.sprintf "(stuck %s)" (string_of_n c)
      | Sem.RunNoFuel -> "(nofuel)") (Sx.args (Sx.field job "inss")) in
  Printf.sprintf "(wt %s) %s" (if Wt.wt_program p then "1" else "0") (String.concat " " results)

(* `sizes` jobs: bit sizes of main's parameter types and return type, from the model *)
let job_sizes (job : Sx.t) : string =
  let p = program (Stdlib.List.hd (Sx.args (Sx.field job "ast"))) in
  match Ast.find_fn p p.Ast.p_main with
  | None -> "(no-main)"
  | Some d ->
    Printf.sprintf "(params %s) (ret %s)"
      (join (fun (_, t) -> string_of_n (Sem.sizeof p t)) d.Ast.fn_params)
      (string_of_n (Sem.sizeof p d.Ast.fn_ret))


(* `lowerm` jobs: lower the exported typed AST with the model of compile.rs (coq/Compile/Lower.v), dedup on
   and off, and print the circuits in the syntax of the harness *)
let job_lowerm (job : Sx.t) : string =
  let p = program (Stdlib.List.hd (Sx.args (Sx.field job "ast"))) in
  let one name dedup =
    match Lower.lower_program dedup p with
    | Util.Ok (Lower.LCircuit c) -> Printf.sprintf "(%s %s)" name (Jcirc.fmt_ssa c)
    | Util.Ok Lower.LNoMain -> Printf.sprintf "(%s no-main)" name
    | Util.Ok Lower.LZeroSizedInputs -> Printf.sprintf "(%s zero-sized-inputs)" name
    | Util.Crash -> Printf.sprintf "(%s crash)" name
    | Util.OutOfFuel -> Printf.sprintf "(%s out-of-fuel)" name in
  let a = one "dedup" true in
  let b = one "nodedup" false in
  a ^ " " ^ b


(* `tsem` jobs: the bit-level semantics (coq/Compile/TSem.v = the lowering run over Booleans) on the same
   inputs as the `sem` job; results in the syntax of the decoded circuit outputs *)
let lfuel = nat_of_int 2000

let fmt_pnum (n : BinNums.coq_N) : string =
  match int_of_n n with 1 -> "Overflow" | 2 -> "DivByZero" | 3 -> "OutOfBounds" | k -> Printf.sprintf "Invalid%d" k

let job_tsem (job : Sx.t) : string =
  let p = program (Stdlib.List.hd (Sx.args (Sx.field job "ast"))) in
  let results = Stdlib.List.map (fun one ->
      let ins = Stdlib.List.map (fun s -> bits_of_string (Sx.bytes s)) (Sx.list one) in
      match TSem.tsem_program lfuel p ins with
      | Util.Ok (None, bits) -> Printf.sprintf "(ok \"%s\")" (string_of_bits bits)
      | Util.Ok (Some (r, m), _) ->
        Printf.sprintf "(panic %s %s %s %s %s)" (fmt_pnum r) (string_of_n m.PanicRec.pl_sl) (string_of_n m.PanicRec.pl_sc)
          (string_of_n m.PanicRec.pl_el) (string_of_n m.PanicRec.pl_ec)
      | Util.Crash -> "(crash)"
      | Util.OutOfFuel -> "(nofuel)") (Sx.args (Sx.field job "inss")) in
  String.concat " " results

(* which theorems cover this program: (imp b) = main is in the imperative scalar fragment on which
   TSem = Sem.v is proved (Fragment.in_imp_fragment_sound); (kfree ..) = the constness run of the lowering
   succeeds, i.e. the program is data movement and its circuit has zero AND gates
   (FreeLower.data_movement_zero_and) *)
let job_frag (job : Sx.t) : string =
  let p = program (Stdlib.List.hd (Sx.args (Sx.field job "ast"))) in
  let imp = Fragment.in_proved_fragment lfuel p in
  let k = match FreeLower.klower_main lfuel p with
    | Util.Ok _ -> "ok" | Util.Crash -> "crash" | Util.OutOfFuel -> "nofuel" in
  let safe = TSemSafe.safe_program_ok p in
  let cov = Fragment.covered_program lfuel p in
  let total = safe && TSemTotal.params_ok p && TSemTotal.fuel_enough lfuel p in
  let wtcov = TSemSemFullWt.wt_covered (nat_of_int 400) p && SemFuel.sem_fuel_enough lfuel p in
  (* optional (inss ..): how many of the inputs are canonical encodings *)
  let canon = match Sx.try_field job "inss" with
    | None -> ""
    | Some f ->
      let all = Sx.args f in
      let n = Stdlib.List.length (Stdlib.List.filter (fun one ->
          let ins = Stdlib.List.map (fun s -> bits_of_string (Sx.bytes s)) (Sx.list one) in
          TSemSemFull.canonical_main_args p ins) all) in
      Printf.sprintf " (canon %d %d)" n (Stdlib.List.length all) in
  (* the premises of the end-to-end theorem (Compile/EndToEnd.v): certified, and the gate bound for both dedup settings *)
  let e2e = EndToEnd.certified lfuel p && EndToEnd.within_gate_bound lfuel true p && EndToEnd.within_gate_bound lfuel false p in
  let exh = ExhSem.exh_fns p in
  let joincov = JoinProgram.join_covered (nat_of_int 400) p && SemFuel.sem_fuel_enough lfuel p in
  Printf.sprintf "(imp %d) (kfree %s) (safe %d) (cov %d) (total %d) (wtcov %d) (e2e %d) (exh %d) (joincov %d)%s" (if imp then 1 else 0) k (if safe then 1 else 0)
    (if cov then 1 else 0) (if total then 1 else 0) (if wtcov then 1 else 0) (if e2e then 1 else 0) (if exh then 1 else 0) (if joincov then 1 else 0) canon
