(* Jobs on circuit values; output syntax identical to harness/src/circ.rs. *)
open Conv

let parse_gate (x : Sx.t) : Ssa.gate =
  match Sx.head x, Sx.args x with
  | "x", [a; b] -> Ssa.GXor (n_of_sx a, n_of_sx b)
  | "a", [a; b] -> Ssa.GAnd (n_of_sx a, n_of_sx b)
  | "n", [a] -> Ssa.GNot (n_of_sx a)
  | _ -> failwith "bad gate"

let parse_ssa (job : Sx.t) : Ssa.circuit =
  { Ssa.input_gates = ns_of_args (Sx.field job "ig");
    gates = Stdlib.List.map parse_gate (Sx.args (Sx.field job "gates"));
    output_gates = ns_of_args (Sx.field job "outs") }

let fmt_gate (g : Ssa.gate) : string =
  match g with
  | Ssa.GXor (x, y) -> Printf.sprintf "(x %s %s)" (string_of_n x) (string_of_n y)
  | Ssa.GAnd (x, y) -> Printf.sprintf "(a %s %s)" (string_of_n x) (string_of_n y)
  | Ssa.GNot x -> Printf.sprintf "(n %s)" (string_of_n x)

let fmt_ssa (c : Ssa.circuit) : string =
  Printf.sprintf "(ssa (ig %s) (gates %s) (outs %s))"
    (join string_of_n c.Ssa.input_gates) (join fmt_gate c.Ssa.gates)
    (join string_of_n c.Ssa.output_gates)

let parse_ins (job : Sx.t) : bool list list =
  Stdlib.List.map (fun s -> bits_of_string (Sx.bytes s)) (Sx.args (Sx.field job "ins"))

let fmt_cerr (e : Ssa.cerr) : string =
  match e with
  | Ssa.EInvalidGate i -> Printf.sprintf "(err InvalidGate %s)" (string_of_n i)
  | Ssa.EInvalidOutput o -> Printf.sprintf "(err InvalidOutput %s)" (string_of_n o)
  | Ssa.EEmptyInputs -> "(err EmptyInputs)"
  | Ssa.EEmptyOutputs -> "(err EmptyOutputs)"
  | Ssa.EMaxCircuitSizeExceeded -> "(err MaxCircuitSizeExceeded)"

let fmt_eval (r : bool list option) : string =
  match r with Some bits -> "\"" ^ string_of_bits bits ^ "\"" | None -> "crash"

let job_ssa (job : Sx.t) : string =
  let c = parse_ssa job in
  let ins = parse_ins job in
  let v = match Ssa.ssa_validate c with None -> "ok" | Some e -> fmt_cerr e in
  Printf.sprintf "(validate %s) (eval %s)" v (fmt_eval (Ssa.ssa_eval c ins))

let parse_op (x : Sx.t) : Reg.op =
  match Sx.head x, Sx.args x with
  | "x", [a; b] -> Reg.OXor (n_of_sx a, n_of_sx b)
  | "a", [a; b] -> Reg.OAnd (n_of_sx a, n_of_sx b)
  | "n", [a] -> Reg.ONot (n_of_sx a)
  | "i", [a; b] -> Reg.OInput (n_of_sx a, n_of_sx b)
  | _ -> failwith "bad op"

let parse_reg (job : Sx.t) : Reg.rcircuit =
  { Reg.input_regs = ns_of_args (Sx.field job "ir");
    insts = Stdlib.List.map (fun s ->
        match Sx.list s with
        | [o; op] -> { Reg.iout = n_of_sx o; iop = parse_op op }
        | _ -> failwith "bad inst") (Sx.args (Sx.field job "insts"));
    max_reg_count = n_of_sx (Stdlib.List.hd (Sx.args (Sx.field job "max")));
    output_regs = ns_of_args (Sx.field job "outs");
    and_ops = n_of_sx (Stdlib.List.hd (Sx.args (Sx.field job "ands"))) }

let fmt_op (o : Reg.op) : string =
  match o with
  | Reg.OXor (a, b) -> Printf.sprintf "(x %s %s)" (string_of_n a) (string_of_n b)
  | Reg.OAnd (a, b) -> Printf.sprintf "(a %s %s)" (string_of_n a) (string_of_n b)
  | Reg.ONot a -> Printf.sprintf "(n %s)" (string_of_n a)
  | Reg.OInput (p, k) -> Printf.sprintf "(i %s %s)" (string_of_n p) (string_of_n k)

let fmt_inst (i : Reg.inst) : string =
  Printf.sprintf "(%s %s)" (string_of_n i.Reg.iout) (fmt_op i.Reg.iop)

let fmt_reg (c : Reg.rcircuit) : string =
  Printf.sprintf "(reg (ir %s) (insts %s) (max %s) (outs %s) (ands %s))"
    (join string_of_n c.Reg.input_regs) (join fmt_inst c.Reg.insts)
    (string_of_n c.Reg.max_reg_count) (join string_of_n c.Reg.output_regs)
    (string_of_n c.Reg.and_ops)

let fmt_rerr (e : Reg.rerr) : string =
  match e with
  | Reg.REmptyInputs -> "(err EmptyInputs)"
  | Reg.RInvalidInst i -> Printf.sprintf "(err InvalidInst %s)" (string_of_n i)
  | Reg.REmptyOutputs -> "(err EmptyOutputs)"
  | Reg.RInvalidOutput r -> Printf.sprintf "(err InvalidOutput %s)" (string_of_n r)
  | Reg.RMaxCircuitSizeExceeded -> "(err MaxCircuitSizeExceeded)"
  | Reg.RInvalidRegAccess (i, r) ->
    Printf.sprintf "(err InvalidRegAccess %s %s)" (string_of_n i) (string_of_n r)
  | Reg.RInvalidInput (i, ins) ->
    Printf.sprintf "(err InvalidInput %s %s)" (string_of_n i) (fmt_inst ins)

let fmt_rvalidate (r : Reg.rerr option Util.res) : string =
  match r with
  | Util.Ok None -> "ok"
  | Util.Ok (Some e) -> fmt_rerr e
  | Util.Crash -> "crash"
  | Util.OutOfFuel -> "out-of-fuel"

(* besides mirroring Rust, the model side checks the theorem's conclusion on the instance:
   validate ok => strict evaluation defined (reported as a separate field so that a
   disagreement shows up in the comparison) *)
let job_reg (job : Sx.t) : string =
  let c = parse_reg job in
  let ins = parse_ins job in
  let strict = match Reg.reg_eval_strict c ins with
    | Some bits -> "\"" ^ string_of_bits bits ^ "\"" | None -> "undef" in
  Printf.sprintf "(validate %s) (eval %s) (strict %s)" (fmt_rvalidate (Reg.reg_validate c))
    (fmt_eval (Reg.reg_eval c ins)) strict

let job_regalloc (job : Sx.t) : string =
  (* the model side does not evaluate: once the converted circuits are structurally equal,
     theorem C10 gives equality of the two evaluations for every input *)
  let c = parse_ssa job in
  match RegAlloc.convert c with
  | Util.Ok r ->
    Printf.sprintf "(convert %s) (validate %s)" (fmt_reg r) (fmt_rvalidate (Reg.reg_validate r))
  | _ -> "(convert crash)"
