(* `literal` jobs (C09) on the extracted model; output syntax identical to
   harness/src/lit.rs for the tied fields (accept, bits, decode, decode2); the model-only
   observations go into a trailing (ml ..) group. *)
open Conv
open Types
open Literal

let uty_of = function
  | "usize" -> Usize | "u8" -> U8 | "u16" -> U16 | "u32" -> U32 | "u64" -> U64
  | "uunspec" -> UUnspec | s -> failwith ("bad unsigned type " ^ s)
let sty_of = function
  | "i8" -> I8 | "i16" -> I16 | "i32" -> I32 | "i64" -> I64
  | "sunspec" -> SUnspec | s -> failwith ("bad signed type " ^ s)
let uty_name = function
  | Usize -> "usize" | U8 -> "u8" | U16 -> "u16" | U32 -> "u32" | U64 -> "u64" | UUnspec -> "uunspec"
let sty_name = function
  | I8 -> "i8" | I16 -> "i16" | I32 -> "i32" | I64 -> "i64" | SUnspec -> "sunspec"

let rec ty_of (x : Sx.t) : ty =
  match x with
  | Sx.Atom "bool" -> TBool
  | Sx.Atom (("usize" | "u8" | "u16" | "u32" | "u64") as s) -> TUnsigned (uty_of s)
  | Sx.Atom (("i8" | "i16" | "i32" | "i64") as s) -> TSigned (sty_of s)
  | Sx.Atom s -> failwith ("bad type " ^ s)
  | _ ->
    (match Sx.head x, Sx.args x with
     | "arr", [t; n] -> TArray (ty_of t, n_of_sx n)
     | "tup", ts -> TTuple (tys_of ts)
     | "st", [n] -> TStruct (n_of_sx n)
     | "en", [n] -> TEnum (n_of_sx n)
     | h, _ -> failwith ("bad type " ^ h))
and tys_of (l : Sx.t list) : tys =
  match l with [] -> TsNil | t :: r -> TsCons (ty_of t, tys_of r)

let def_of (x : Sx.t) : def =
  match Sx.head x, Sx.args x with
  | "struct", n :: fs ->
    let rec go = function
      | [] -> FNil
      | f :: r -> (match Sx.list f with
          | [fn; t] -> FCons (n_of_sx fn, ty_of t, go r)
          | _ -> failwith "bad field") in
    DStruct (n_of_sx n, go fs)
  | "enum", n :: vs ->
    let rec go = function
      | [] -> VNil
      | v :: r -> (match Sx.head v, Sx.args v with
          | "unit", [vn] -> VUnit (n_of_sx vn, go r)
          | "tuple", vn :: ts -> VTuple (n_of_sx vn, tys_of ts, go r)
          | _ -> failwith "bad variant") in
    DEnum (n_of_sx n, go vs)
  | h, _ -> failwith ("bad def " ^ h)

let rec lit_of (x : Sx.t) : lit =
  match x with
  | Sx.Atom "true" -> LTrue
  | Sx.Atom "false" -> LFalse
  | _ ->
    (match Sx.head x, Sx.args x with
     | "u", [n; t] -> LUnsigned (n_of_sx n, uty_of (Sx.atom t))
     | "s", [n; t] -> LSigned (z_of_string (Sx.atom n), sty_of (Sx.atom t))
     | "rep", [e; n] -> LRepeat (lit_of e, n_of_sx n)
     | "arr", es -> LArray (lits_of es)
     | "tup", es -> LTuple (lits_of es)
     | "st", n :: fs ->
       let rec go = function
         | [] -> LFNil
         | f :: r -> (match Sx.list f with
             | [fn; v] -> LFCons (n_of_sx fn, lit_of v, go r)
             | _ -> failwith "bad field literal") in
       LStruct (n_of_sx n, go fs)
     | "en", [n; v] -> LEnumUnit (n_of_sx n, n_of_sx v)
     | "en", [n; v; es] -> LEnumTuple (n_of_sx n, n_of_sx v, lits_of (Sx.list es))
     | "range", [a; b; t] -> LRange (n_of_sx a, n_of_sx b, uty_of (Sx.atom t))
     | h, _ -> failwith ("bad literal " ^ h))
and lits_of (l : Sx.t list) : lits =
  match l with [] -> LsNil | x :: r -> LsCons (lit_of x, lits_of r)

let rec list_of_lits = function LsNil -> [] | LsCons (l, r) -> l :: list_of_lits r

let paren head items = "(" ^ String.concat " " (head :: items) ^ ")"

let rec fmt_lit (l : lit) : string =
  match l with
  | LTrue -> "true"
  | LFalse -> "false"
  | LUnsigned (n, u) -> Printf.sprintf "(u %s %s)" (string_of_n n) (uty_name u)
  | LSigned (z, s) -> Printf.sprintf "(s %s %s)" (string_of_z z) (sty_name s)
  | LRepeat (e, n) -> Printf.sprintf "(rep %s %s)" (fmt_lit e) (string_of_n n)
  | LArray es -> paren "arr" (Stdlib.List.map fmt_lit (list_of_lits es))
  | LTuple es -> paren "tup" (Stdlib.List.map fmt_lit (list_of_lits es))
  | LStruct (n, fs) ->
    let rec go = function
      | LFNil -> []
      | LFCons (fn, v, r) -> Printf.sprintf "(%s %s)" (string_of_n fn) (fmt_lit v) :: go r in
    paren "st" (string_of_n n :: go fs)
  | LEnumUnit (n, v) -> Printf.sprintf "(en %s %s)" (string_of_n n) (string_of_n v)
  | LEnumTuple (n, v, es) ->
    Printf.sprintf "(en %s %s (%s))" (string_of_n n) (string_of_n v)
      (String.concat " " (Stdlib.List.map fmt_lit (list_of_lits es)))
  | LRange (a, b, u) -> Printf.sprintf "(range %s %s %s)" (string_of_n a) (string_of_n b) (uty_name u)

let fmt_dres (r : lit option Util.res) : string =
  match r with
  | Util.Ok (Some l) -> fmt_lit l
  | Util.Ok None -> "(err)"
  | Util.Crash -> "crash"
  | Util.OutOfFuel -> "out-of-fuel"

let job_literal (job : Sx.t) : string =
  let defs = Stdlib.List.map def_of (Sx.args (Sx.field job "defs")) in
  match resolve_defs empty_env defs with
  | Util.Crash | Util.OutOfFuel -> "(compile error)"
  | Util.Ok env ->
    match resolve_ty env (ty_of (Stdlib.List.hd (Sx.args (Sx.field job "ty")))) with
    | Util.Crash | Util.OutOfFuel -> "(compile error)"
    | Util.Ok t ->
      let e = env.eenv in
      let l = lit_of (Stdlib.List.hd (Sx.args (Sx.field job "lit"))) in
      let accept = is_of_type l t in
      (* like the implementation, bits are only computed for accepted literals *)
      let bits = if accept then Some (as_bits e l) else None in
      let bits_s = match bits with
        | None -> "none"
        | Some (Util.Ok b) -> "\"" ^ string_of_bits b ^ "\""
        | Some Util.Crash -> "crash"
        | Some Util.OutOfFuel -> "out-of-fuel" in
      let decode = match bits with
        | Some (Util.Ok b) -> fmt_dres (from_bits t b)
        | _ -> "none" in
      let decode2 = match Sx.try_field job "dbits" with
        | Some d -> Printf.sprintf " (decode2 %s)"
                      (fmt_dres (from_bits t (bits_of_string (Sx.bytes (Stdlib.List.hd (Sx.args d))))))
        | None -> "" in
      (* model-only: the hypotheses and conclusions of the theorems on this instance *)
      let wf_s = string_of_bool (wf e t) in
      let den = denote l in
      let den_s = match den with Some v -> fmt_lit v | None -> "none" in
      let canon = match den with Some v -> string_of_bool (has_type v t) | None -> "none" in
      let vbits = match den with
        | Some v when has_type v t ->
          (match as_bits e v with
           | Util.Ok b -> "\"" ^ string_of_bits b ^ "\"" | _ -> "crash")
        | _ -> "none" in
      Printf.sprintf "(accept %b) (bits %s) (decode %s)%s (ml (wf %s) (size %s) (denote %s) (hastype %s) (vbits %s) (selfcanon %b))"
        accept bits_s decode decode2 wf_s (string_of_n (size t)) den_s canon vbits (has_type l t)
