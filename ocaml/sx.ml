(* Minimal S-expressions, same syntax as the Rust harness. *)
type t = Atom of string | Str of string | L of t list

let parse_all (s : string) : t list =
  let n = String.length s in
  let pos = ref 0 in
  let rec skip () =
    if !pos < n then
      match s.[!pos] with
      | ' ' | '\t' | '\n' | '\r' -> incr pos; skip ()
      | ';' -> while !pos < n && s.[!pos] <> '\n' do incr pos done; skip ()
      | _ -> () in
  let rec parse () =
    skip ();
    match s.[!pos] with
    | '(' ->
      incr pos;
      let items = ref [] in
      let rec loop () =
        skip ();
        if !pos >= n then failwith "unterminated list";
        if s.[!pos] = ')' then incr pos
        else (items := parse () :: !items; loop ()) in
      loop ();
      L (Stdlib.List.rev !items)
    | '"' ->
      incr pos;
      let b = Buffer.create 16 in
      let rec loop () =
        let c = s.[!pos] in
        incr pos;
        match c with
        | '"' -> ()
        | '\\' ->
          let e = s.[!pos] in
          incr pos;
          (match e with
           | 'n' -> Buffer.add_char b '\n'
           | 't' -> Buffer.add_char b '\t'
           | 'r' -> Buffer.add_char b '\r'
           | 'x' ->
             let h = String.sub s !pos 2 in
             pos := !pos + 2;
             Buffer.add_char b (Char.chr (int_of_string ("0x" ^ h)))
           | c -> Buffer.add_char b c);
          loop ()
        | c -> Buffer.add_char b c; loop () in
      loop ();
      Str (Buffer.contents b)
    | _ ->
      let start = !pos in
      while !pos < n && (match s.[!pos] with
          | ' ' | '\t' | '\n' | '\r' | '(' | ')' | '"' -> false | _ -> true) do incr pos done;
      Atom (String.sub s start (!pos - start)) in
  let out = ref [] in
  let rec top () =
    skip ();
    if !pos < n then (out := parse () :: !out; top ()) in
  top ();
  Stdlib.List.rev !out

let atom = function Atom s -> s | _ -> failwith "expected atom"
let list = function L l -> l | _ -> failwith "expected list"
let bytes = function Str s -> s | Atom s -> s | _ -> failwith "expected string"
let head x = atom (Stdlib.List.hd (list x))
let args x = Stdlib.List.tl (list x)
let try_field x key =
  Stdlib.List.find_opt (function L (Atom a :: _) when a = key -> true | _ -> false) (list x)
let field x key = match try_field x key with Some f -> f | None -> failwith ("missing field " ^ key)

let quote (s : string) : string =
  let b = Buffer.create (String.length s + 2) in
  Buffer.add_char b '"';
  String.iter (fun c ->
      match c with
      | '"' -> Buffer.add_string b "\\\""
      | '\\' -> Buffer.add_string b "\\\\"
      | '\n' -> Buffer.add_string b "\\n"
      | c when Char.code c >= 0x20 && Char.code c <= 0x7e -> Buffer.add_char b c
      | c -> Buffer.add_string b (Printf.sprintf "\\x%02x" (Char.code c))) s;
  Buffer.add_char b '"';
  Buffer.contents b
