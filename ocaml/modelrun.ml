(* modelrun: same interface as gv-run, but every job is run on the extracted Coq model. *)
let run_job (job : Sx.t) : string =
  match Sx.head job with
  | "ssa" -> Jcirc.job_ssa job
  | "reg" -> Jcirc.job_reg job
  | "regalloc" -> Jcirc.job_regalloc job
  | "builder" -> Jbuilder.job_builder job
  | "literal" -> Jlit.job_literal job
  | "sem" -> Jprog.job_sem job
  | "scan" -> Jfront.job_scan job
  | "pexpr" -> Jfront.job_pexpr job
  | "pblock" -> Jfront.job_pblock job
  | "pprog" -> Jfront.job_pprog job
  | "tcheck" -> Jcheck.job_tcheck job
  | "parg" -> Jcheck.job_parg job
  | "pretty" -> Jfront.job_pretty job
  | "consts" -> Jconsts.job_consts job
  | "sortnet" -> Jsort.job_sortnet job
  | "panicrec" -> Jpanic.job_panicrec job
  | "panicparse" -> Jpanic.job_panicparse job
  | "sizes" -> Jprog.job_sizes job
  | "lowerm" -> Jprog.job_lowerm job
  | "tsem" -> Jprog.job_tsem job
  | "frag" -> Jprog.job_frag job
  | "bristol-out" -> Jbristol.job_bristol_out job
  | "bristol-in" -> Jbristol.job_bristol_in job
  | "exhaust" -> Jexhaust.job_exhaust job
  | "witness" -> Jexhaust.job_witness job
  | "reps" -> Jexhaust.job_reps job
  | k -> Printf.sprintf "(unknown-kind %s)" k

let () =
  let ic = open_in_bin Sys.argv.(1) in
  let data = really_input_string ic (in_channel_length ic) in
  close_in ic;
  let oc = if Array.length Sys.argv > 2 then open_out Sys.argv.(2) else stdout in
  Stdlib.List.iter (fun job ->
      let id = Sx.atom (Stdlib.List.nth (Sx.list job) 1) in
      let r = try run_job job with
        | Stack_overflow -> "(model-crash stack-overflow)"
        | e -> Printf.sprintf "(model-crash %s)" (Sx.quote (Printexc.to_string e)) in
      Printf.fprintf oc "(%s %s)\n" id r; flush oc)
    (Sx.parse_all data)
