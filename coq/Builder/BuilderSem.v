(* Denotation of builder wires and the interface in which every builder operation is
   specified: [valid], [ins_ok], [den], [ext] (extension: old wires keep their meaning). *)
From GV Require Import Base.Util Base.NMap Builder.Builder.

Definition nthd (vals : list bool) (w : N) : bool :=
  match nthN vals w with Some v => v | None => false end.

Definition gval (vals : list bool) (g : bgate) : bool :=
  match g with
  | BXor x y => xorb (nthd vals x) (nthd vals y)
  | BAnd x y => andb (nthd vals x) (nthd vals y)
  end.

Fixpoint run_gates (acc : list bool) (gs : list bgate) : list bool :=
  match gs with
  | [] => acc
  | g :: r => run_gates (acc ++ [gval acc g]) r
  end.

(* [inp]: the flat input assignment (all parties concatenated) *)
Definition wire_vals (inp : list bool) (b : builder) : list bool :=
  run_gates (false :: true :: inp) (rev (b_gates_rev b)).

Definition den (inp : list bool) (b : builder) (w : N) : bool := nthd (wire_vals inp b) w.
Definition dens (inp : list bool) (b : builder) (ws : list N) : list bool := map (den inp b) ws.

Definition valid (b : builder) (w : N) : Prop := w < counter b.
Definition valids (b : builder) (ws : list N) : Prop := Forall (valid b) ws.
Definition ins_ok (b : builder) (inp : list bool) : Prop := 2 + lenN inp = b_shift b.

Definition ext (b b' : builder) : Prop :=
  b_shift b' = b_shift b /\ b_inputs b' = b_inputs b /\ b_dedup b' = b_dedup b /\
  counter b <= counter b' /\
  forall inp w, ins_ok b inp -> valid b w -> den inp b' w = den inp b w.

Lemma ext_refl b : ext b b.
Proof. unfold ext. repeat split; auto. lia. Qed.

Lemma ext_trans b1 b2 b3 : ext b1 b2 -> ext b2 b3 -> ext b1 b3.
Proof.
  intros (S1 & I1 & D1 & C1 & H1) (S2 & I2 & D2 & C2 & H2).
  unfold ext. repeat split; try congruence; try lia.
  intros inp w Hi Hv. rewrite H2; [apply H1; auto| |].
  - unfold ins_ok in *. congruence.
  - unfold valid in *. lia.
Qed.

Lemma ext_valid b b' w : ext b b' -> valid b w -> valid b' w.
Proof. intros (_ & _ & _ & C & _) H. unfold valid in *. lia. Qed.

Lemma ext_valids b b' ws : ext b b' -> valids b ws -> valids b' ws.
Proof. intros E H. eapply Forall_impl; [|exact H]. intros w. now apply ext_valid. Qed.

Lemma ext_ins_ok b b' inp : ext b b' -> ins_ok b inp -> ins_ok b' inp.
Proof. intros (S & _) H. unfold ins_ok in *. congruence. Qed.

Lemma ext_den b b' inp w : ext b b' -> ins_ok b inp -> valid b w -> den inp b' w = den inp b w.
Proof. intros (_ & _ & _ & _ & H). apply H. Qed.

Lemma ext_dens b b' inp ws :
  ext b b' -> ins_ok b inp -> valids b ws -> dens inp b' ws = dens inp b ws.
Proof.
  intros E Hi Hv. unfold dens. apply map_ext_in. intros w Hin.
  apply (ext_den _ _ _ _ E Hi). unfold valids in Hv. rewrite Forall_forall in Hv. now apply Hv.
Qed.
