(* Model of CircuitBuilder::{remove_unused_gates, build} (src/circuit.rs:470-644).
   The panic record's 161 wires are passed explicitly ([pw]); they are extra roots of the
   pruning and become the first 161 outputs. *)
From GV Require Import Base.Util Base.NMap Circuit.Ssa Builder.Builder.

Definition gops (g : bgate) : N * N :=
  match g with BXor x y | BAnd x y => (x, y) end.

Definition mark (shift : N) (used : nmap unit) (w : N) : nmap unit :=
  if shift <=? w then nadd (w - shift) tt used else used.

(* Reachability from the roots.  The Rust code runs a DFS from the roots; because a gate
   only references earlier wires, one backward pass over the gates (newest first) marks
   exactly the same set. [i] = number of gates not yet visited. *)
Fixpoint mark_pass (shift : N) (gs_rev : list bgate) (i : N) (used : nmap unit) : nmap unit :=
  match gs_rev with
  | [] => used
  | g :: r =>
      let pos := i - 1 in
      let used' :=
        match nfind pos used with
        | Some _ => let '(x, y) := gops g in mark shift (mark shift used x) y
        | None => used
        end in
      mark_pass shift r pos used'
  end.

(* unused_before_gate: for every position the number of unused gates at positions <= it *)
Fixpoint count_unused (gs : list bgate) (i unused : N) (used : nmap unit) (tbl : nmap N)
  : nmap N * N :=
  match gs with
  | [] => (tbl, unused)
  | _ :: r =>
      let unused' := match nfind i used with Some _ => unused | None => unused + 1 end in
      count_unused r (i + 1) unused' used (nadd i unused' tbl)
  end.

Definition shift_idx (shift : N) (tbl : nmap N) (w : N) : res N :=
  if shift <? w then
    match nfind (w - shift) tbl with
    | Some u => Ok (w - u)
    | None => Crash
    end
  else Ok w.

Definition shift_gate (shift : N) (tbl : nmap N) (g : bgate) : res bgate :=
  match g with
  | BXor x y => let* x' := shift_idx shift tbl x in let* y' := shift_idx shift tbl y in Ok (BXor x' y')
  | BAnd x y => let* x' := shift_idx shift tbl x in let* y' := shift_idx shift tbl y in Ok (BAnd x' y')
  end.

Fixpoint keep_used (shift : N) (tbl : nmap N) (used : nmap unit) (gs : list bgate) (i : N)
  : res (list bgate) :=
  match gs with
  | [] => Ok []
  | g :: r =>
      let* g' := shift_gate shift tbl g in      (* every gate is rewritten, used or not *)
      let* rest := keep_used shift tbl used r (i + 1) in
      match nfind i used with
      | Some _ => Ok (g' :: rest)
      | None => Ok rest
      end
  end.


(* returns (compacted gates, renumbered panic wires, renumbered outputs) *)
Definition remove_unused_gates (b : builder) (pw outs : list N)
  : res (list bgate * list N * list N) :=
  let shift := b_shift b in
  let roots := outs ++ pw in
  let used0 := fold_left (mark shift) roots nempty in
  let used := mark_pass shift (b_gates_rev b) (b_ngates b) used0 in
  let gs := frev (b_gates_rev b) in
  let '(tbl, _) := count_unused gs 0 0 used nempty in
  let* gs' := keep_used shift tbl used gs 0 in
  let* pw' := mapM_res (shift_idx shift tbl) pw in
  let* outs' := mapM_res (shift_idx shift tbl) outs in
  Ok (gs', pw', outs').

(* translation to the final numbering (constants become two real gates) *)
Definition final_idx (input_shift i : N) : N :=
  if i <=? 1 then i + input_shift
  else if i <? input_shift + 2 then i - 2
  else i.

Definition final_gate (input_shift : N) (g : bgate) : gate :=
  match g with
  | BXor x y =>
      if x =? 1 then GNot (final_idx input_shift y)
      else if y =? 1 then GNot (final_idx input_shift x)
      else GXor (final_idx input_shift x) (final_idx input_shift y)
  | BAnd x y => GAnd (final_idx input_shift x) (final_idx input_shift y)
  end.

Definition build (b : builder) (pw outs : list N) : res circuit :=
  let* (gs, pw', outs') := remove_unused_gates b pw outs in
  let input_shift := b_shift b - 2 in
  Ok (mkCircuit (b_inputs b)
        (GXor 0 0 :: GNot input_shift :: map (final_gate input_shift) gs)
        (map (final_idx input_shift) (pw' ++ outs'))).

(* the wires of PanicResult::ok(): flag 0, type = 1 as 32 bits, four zero fields *)
Definition panic_ok_wires : list N :=
  0 :: (repeat 0 31 ++ [1]) ++ repeat 0 128.
