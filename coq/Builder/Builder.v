(* Model of CircuitBuilder (src/circuit.rs:256-285, 415-467, 795-1045): the gate store with
   its structural cache and negation map, and push_xor / push_and / not / or / eq / mux
   with every constant fold, cache hit and algebraic rewrite, branch for branch.
   Wires: 0/1 = constants false/true, 2..shift-1 = inputs, >= shift = gates.
   Recursion of push_xor/push_and is on explicit fuel; BuilderProofs.v shows that the fuel
   used by the [_top] entry points never runs out. *)
From GV Require Import Base.Util Base.NMap.

Inductive bgate :=
| BXor (x y : N)
| BAnd (x y : N).

Record builder := mkBuilder {
  b_dedup : bool;               (* opts.cache_gates *)
  b_shift : N;
  b_inputs : list N;            (* input_gates: bits per party *)
  b_gates_rev : list bgate;     (* newest first *)
  b_ngates : N;
  b_gmap : nmap bgate;          (* position in gates -> gate *)
  b_cxor : nmap (nmap N);       (* cache, Xor keys *)
  b_cand : nmap (nmap N);       (* cache, And keys *)
  b_neg : nmap N                (* negated *)
}.

Definition new_builder (dedup : bool) (inputs : list N) : builder :=
  mkBuilder dedup (2 + sumN inputs) inputs [] 0 nempty nempty nempty nempty.

Definition counter (b : builder) : N := b_shift b + b_ngates b.

Definition cache_get (m : nmap (nmap N)) (x y : N) : option N :=
  match nfind x m with
  | Some m2 => nfind y m2
  | None => None
  end.

Definition cache_put (m : nmap (nmap N)) (x y w : N) : nmap (nmap N) :=
  nadd x (nadd y w (match nfind x m with Some m2 => m2 | None => nempty end)) m.

Definition get_cached (b : builder) (g : bgate) : option N :=
  if negb (b_dedup b) then None else
  match g with
  | BXor x y =>
      match cache_get (b_cxor b) x y with
      | Some w => Some w
      | None => cache_get (b_cxor b) y x
      end
  | BAnd x y =>
      match cache_get (b_cand b) x y with
      | Some w => Some w
      | None => cache_get (b_cand b) y x
      end
  end.

Definition push_gate (b : builder) (g : bgate) : N * builder :=
  let idx := counter b in
  let cx := if b_dedup b then
              match g with BXor x y => cache_put (b_cxor b) x y idx | _ => b_cxor b end
            else b_cxor b in
  let ca := if b_dedup b then
              match g with BAnd x y => cache_put (b_cand b) x y idx | _ => b_cand b end
            else b_cand b in
  (idx, mkBuilder (b_dedup b) (b_shift b) (b_inputs b) (g :: b_gates_rev b) (b_ngates b + 1)
          (nadd (b_ngates b) g (b_gmap b)) cx ca (b_neg b)).

Definition set_negated (b : builder) (k v : N) : builder :=
  mkBuilder (b_dedup b) (b_shift b) (b_inputs b) (b_gates_rev b) (b_ngates b) (b_gmap b)
    (b_cxor b) (b_cand b) (nadd k v (b_neg b)).

(* self.gates[x - self.shift] for x >= shift; [Ok None] for constants and inputs *)
Definition lookup (b : builder) (x : N) : res (option bgate) :=
  if x <? b_shift b then Ok None else
  match nfind (x - b_shift b) (b_gmap b) with
  | Some g => Ok (Some g)
  | None => Crash
  end.

(* ------------------------------------------------------------------ XOR *)

Definition optimize_xor (b : builder) (x y : N) : option N :=
  if x =? 0 then Some y else
  if y =? 0 then Some x else
  if x =? y then Some 0 else
  match nfind x (b_neg b) with
  | Some xn =>
      if xn =? y then Some 1 else
      if y =? 1 then Some xn else get_cached b (BXor x y)
  | None =>
      match nfind y (b_neg b) with
      | Some yn =>
          if yn =? x then Some 1 else
          if x =? 1 then Some yn else get_cached b (BXor x y)
      | None => get_cached b (BXor x y)
      end
  end.

Definition final_xor (b : builder) (x y : N) : N * builder :=
  let '(gi, b1) := push_gate b (BXor x y) in
  let b2 := if x =? 1 then set_negated (set_negated b1 y gi) gi y else b1 in
  let b3 := if y =? 1 then set_negated (set_negated b2 x gi) gi x else b2 in
  (gi, b3).

Definition arrangements (x1 x2 y1 y2 : N) : list (N * N * N * N) :=
  [(x1, x2, y1, y2); (x1, x2, y2, y1); (x2, x1, y1, y2); (x2, x1, y2, y1)].

(* first loop of the AND/AND branch: an already cached a1 & (a2 ^ b2) *)
Fixpoint find_cached_and_xor (b : builder) (arr : list (N * N * N * N)) : option N :=
  match arr with
  | [] => None
  | (a1, a2, b1, b2) :: r =>
      if a1 =? b1 then
        match get_cached b (BXor a2 b2) with
        | Some t =>
            match get_cached b (BAnd a1 t) with
            | Some w => Some w
            | None => find_cached_and_xor b r
            end
        | None => find_cached_and_xor b r
        end
      else find_cached_and_xor b r
  end.

(* second loop: the first arrangement with a common operand *)
Fixpoint find_common (arr : list (N * N * N * N)) : option (N * N * N) :=
  match arr with
  | [] => None
  | (a1, a2, b1, b2) :: r => if a1 =? b1 then Some (a1, a2, b2) else find_common r
  end.

Section XorStages.
  Variable rec : builder -> N -> N -> res (N * builder).

  (* y is an XOR gate (circuit.rs:891-908) *)
  Definition xstage3 (b : builder) (x y : N) (gy : option bgate) : res (N * builder) :=
    match gy with
    | Some (BXor y1 y2) =>
        if x =? y1 then Ok (y2, b) else
        if x =? y2 then Ok (y1, b) else
        match nfind x (b_neg b) with
        | Some xn =>
            if xn =? y1 then rec b 1 y2 else
            if xn =? y2 then rec b 1 y1 else Ok (final_xor b x y)
        | None => Ok (final_xor b x y)
        end
    | _ => Ok (final_xor b x y)
    end.

  (* x is an XOR gate (circuit.rs:873-890) *)
  Definition xstage2 (b : builder) (x y : N) (gx gy : option bgate) : res (N * builder) :=
    match gx with
    | Some (BXor x1 x2) =>
        if x1 =? y then Ok (x2, b) else
        if x2 =? y then Ok (x1, b) else
        match nfind y (b_neg b) with
        | Some yn =>
            if x1 =? yn then rec b x2 1 else
            if x2 =? yn then rec b x1 1 else xstage3 b x y gy
        | None => xstage3 b x y gy
        end
    | _ => xstage3 b x y gy
    end.

  (* both are gates (circuit.rs:827-872) *)
  Definition xstage1 (b : builder) (x y : N) (gx gy : option bgate) : res (N * builder) :=
    match gx, gy with
    | Some (BXor x1 x2), Some (BXor y1 y2) =>
        if x1 =? y1 then rec b x2 y2 else
        if x1 =? y2 then rec b x2 y1 else
        if x2 =? y1 then rec b x1 y2 else
        if x2 =? y2 then rec b x1 y1 else xstage2 b x y gx gy
    | Some (BAnd x1 x2), Some (BAnd y1 y2) =>
        let arr := arrangements x1 x2 y1 y2 in
        match find_cached_and_xor b arr with
        | Some w => Ok (w, b)
        | None =>
            match find_common arr with
            | Some (a1, a2, b2) =>
                let '(t, b1) := push_gate b (BXor a2 b2) in
                Ok (push_gate b1 (BAnd a1 t))
            | None => xstage2 b x y gx gy
            end
        end
    | _, _ => xstage2 b x y gx gy
    end.
End XorStages.

Fixpoint push_xor (fuel : nat) (b : builder) (x y : N) : res (N * builder) :=
  match fuel with
  | O => OutOfFuel
  | S fuel' =>
      match optimize_xor b x y with
      | Some w => Ok (w, b)
      | None =>
          let* gx := lookup b x in
          let* gy := lookup b y in
          xstage1 (push_xor fuel') b x y gx gy
      end
  end.

Definition small_fuel : nat := 64.

(* entry point used by every client: a small fuel first (cheap to build), the adequate
   fuel x + y + 1 only if that runs out; BuilderProofs.v: equal to push_xor with the
   adequate fuel, and never OutOfFuel on valid wires *)
Definition push_xor_top (b : builder) (x y : N) : res (N * builder) :=
  match push_xor small_fuel b x y with
  | OutOfFuel => push_xor (S (N.to_nat (x + y))) b x y
  | r => r
  end.

(* ------------------------------------------------------------------ AND *)

Definition optimize_and (b : builder) (x y : N) : option N :=
  if (x =? 0) || (y =? 0) then Some 0 else
  if x =? 1 then Some y else
  if (y =? 1) || (x =? y) then Some x else
  match nfind x (b_neg b) with
  | Some xn => if xn =? y then Some 0 else get_cached b (BAnd x y)
  | None =>
      match nfind y (b_neg b) with
      | Some yn => if yn =? x then Some 0 else get_cached b (BAnd x y)
      | None => get_cached b (BAnd x y)
      end
  end.

Section AndStages.
  Variable rec : builder -> N -> N -> res (N * builder).

  (* y is a gate (circuit.rs:984-1004) *)
  Definition astage3 (b : builder) (x y : N) (gy : option bgate) : res (N * builder) :=
    match gy with
    | Some (BAnd y1 y2) =>
        if (x =? y1) || (x =? y2) then Ok (y, b) else
        match nfind x (b_neg b) with
        | Some xn =>
            if (xn =? y1) || (xn =? y2) then Ok (0, b) else Ok (push_gate b (BAnd x y))
        | None => Ok (push_gate b (BAnd x y))
        end
    | Some (BXor y1 y2) =>
        match get_cached b (BAnd x y1), get_cached b (BAnd x y2) with
        | Some w1, Some w2 => push_xor_top b w1 w2
        | _, _ => Ok (push_gate b (BAnd x y))
        end
    | None => Ok (push_gate b (BAnd x y))
    end.

  (* x is a gate (circuit.rs:963-983) *)
  Definition astage2 (b : builder) (x y : N) (gx gy : option bgate) : res (N * builder) :=
    match gx with
    | Some (BAnd x1 x2) =>
        if (x1 =? y) || (x2 =? y) then Ok (x, b) else
        match nfind y (b_neg b) with
        | Some yn =>
            if (x1 =? yn) || (x2 =? yn) then Ok (0, b) else astage3 b x y gy
        | None => astage3 b x y gy
        end
    | Some (BXor x1 x2) =>
        match get_cached b (BAnd x1 y), get_cached b (BAnd x2 y) with
        | Some w1, Some w2 => push_xor_top b w1 w2
        | _, _ => astage3 b x y gy
        end
    | None => astage3 b x y gy
    end.

  (* both are AND gates (circuit.rs:952-962) *)
  Definition astage1 (b : builder) (x y : N) (gx gy : option bgate) : res (N * builder) :=
    match gx, gy with
    | Some (BAnd x1 x2), Some (BAnd y1 y2) =>
        if (x1 =? y1) || (x2 =? y1) then rec b x y2 else
        if (x1 =? y2) || (x2 =? y2) then rec b x y1 else astage2 b x y gx gy
    | _, _ => astage2 b x y gx gy
    end.
End AndStages.

Fixpoint push_and (fuel : nat) (b : builder) (x y : N) : res (N * builder) :=
  match fuel with
  | O => OutOfFuel
  | S fuel' =>
      match optimize_and b x y with
      | Some w => Ok (w, b)
      | None =>
          let* gx := lookup b x in
          let* gy := lookup b y in
          astage1 (push_and fuel') b x y gx gy
      end
  end.

Definition push_and_top (b : builder) (x y : N) : res (N * builder) :=
  match push_and small_fuel b x y with
  | OutOfFuel => push_and (S (N.to_nat y)) b x y
  | r => r
  end.

(* ------------------------------------------------------------------ derived requests *)

Definition push_not (b : builder) (x : N) : res (N * builder) := push_xor_top b x 1.

Definition push_or (b : builder) (x y : N) : res (N * builder) :=
  let* (xo, b1) := push_xor_top b x y in
  let* (an, b2) := push_and_top b1 x y in
  push_xor_top b2 xo an.

Definition push_eq (b : builder) (x y : N) : res (N * builder) :=
  let* (xo, b1) := push_xor_top b x y in
  push_xor_top b1 xo 1.

Definition push_mux (b : builder) (s x0 x1 : N) : res (N * builder) :=
  if x0 =? x1 then Ok (x0, b) else
  let* (d, b1) := push_xor_top b x0 x1 in
  let* (ns, b2) := push_not b1 s in
  let* (sw, b3) := push_and_top b2 d ns in
  push_xor_top b3 x0 sw.
